"""Range-constraint parameters and constraints with known discrete logs."""
from core import *
from pslib import *
from schnorrlib import *

VALUES = [0, 1, 127, 128, 129, 128 ** 2 - 1, 128 ** 2, 128 ** 4, 128 ** 8 - 1, 128 ** 8, 2 ** 62, 2 ** 63 - 2, 2 ** 63 - 1]


def digits(v):
    out = []
    for _ in range(9):
        out.append(v % 128)
        v //= 128
    return out


def make_rparams(h, pts, rng, small=False):
    std = Basis(h, pts)
    key = make_key(std, rng, 1, small=small)
    x, y = key["x"], key["ys"][0]
    a = [rand_nz(rng) for _ in range(128)]
    sigs = [(a[i], a[i] * (x + y * i) % Q) for i in range(128)]
    flat = pts.many(1, [d for s in sigs for d in s])
    body = "".join(flat)
    return {"key": key, "sigs": sigs, "hex": body + key["pk_hex"], "pk": key["pk"]}


def coq_rp(rp):
    return "(mk_rp [%s] %s)" % ("; ".join("(%s, %s)" % (zlit(a), zlit(b)) for a, b in rp["sigs"]), coq_pk(rp["pk"]))


def parse_rc(hexs):
    """RangeConstraint = 9 x SignatureProof<1> (no length prefix)"""
    l = len(hexs) // 9
    assert l * 9 == len(hexs)
    return [parse_sp(1, hexs[i * l:(i + 1) * l]) for i in range(9)]


def recover_digit_draws(pts, rp, served, dproof, d, c):
    """name the four draws of one digit proof from the served scalars, order-free (DESIGN.md 4.3)"""
    pk = rp["pk"]
    s1, s2 = rp["sigs"][d]
    k = (dproof["rs"][0] - c * d) % Q
    if k not in served:
        return None
    for bf in served:
        kbf = (dproof["rbf"] - c * bf) % Q
        if kbf not in served:
            continue
        if pts.g2((pk["g2"] * bf + pk["y2s"][0] * d) % Q) != dproof["C"]:
            continue
        for r in served:
            if pts.g1(s1 * r % Q) == dproof["s1"]:
                return (bf, kbf, k, r)
    return None
