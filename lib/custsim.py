"""Driving the real customer / merchant state machines step by step, with a mirror of the customer stage on
discrete logs (to phrase model queries) and the fault alphabet of DESIGN.md appendix D."""
from core import *
from abacuslib import *
from wirelib import G1_ID


def bsign_dl(M, u, cdl, key=None):
    """discrete logs of BlindedSignature::new(kp, u, commitment with log cdl)"""
    k = key or M.key
    return (k["pk"]["g1"] * u % Q, (k["sk"]["x1"] + cdl) * u % Q)


def unblind_dl(sig, bf):
    return (sig[0], (sig[1] - sig[0] * bf) % Q)


def coq_cs(st):
    return "(mk_cs %s)" % zlist([cid_scalar(st["cid"]), st["nonce"], st["lock"], st["cb"], st["mb"]])


def coq_sigdl(s):
    return "(sig %s %s)" % (zlit(s[0]), zlit(s[1]))


class Cust:
    """impl: stage name + state bytes; mirror: signature discrete logs tracked alongside"""

    def __init__(self, M, stage, hexs, csig=None, tok=None):
        self.M, self.stage, self.hex, self.csig, self.tok = M, stage, hexs, csig, tok

    def parsed(self):
        return {"requested": parse_requested, "inactive": parse_inactive, "locked": parse_inactive, "ready": parse_ready,
                "started": parse_started}[self.stage](self.hex)

    def main_state(self):
        p = self.parsed()
        return p["old"] if self.stage == "started" else p["state"]

    def coq(self):
        p = self.parsed()
        if self.stage == "requested":
            return "(Requested %s (fq %s) (fq %s))" % (coq_cs(p["state"]), zlit(p["bf_close"]), zlit(p["bf_token"]))
        if self.stage == "inactive":
            return "(Inactive %s (fq %s) %s)" % (coq_cs(p["state"]), zlit(p["bf_token"]), coq_sigdl(self.csig))
        if self.stage == "locked":
            return "(Locked %s (fq %s) %s)" % (coq_cs(p["state"]), zlit(p["bf_token"]), coq_sigdl(self.csig))
        if self.stage == "ready":
            return "(Ready %s %s %s)" % (coq_cs(p["state"]), coq_sigdl(self.tok), coq_sigdl(self.csig))
        return "(Started %s %s (fq %s) (fq %s) (fq %s) %s)" % (coq_cs(p["new"]), coq_cs(p["old"]), zlit(p["bf_rev"]),
                                                                zlit(p["bf_token"]), zlit(p["bf_close"]), coq_sigdl(self.csig))

    def expected_reply(self):
        """(kind, message, blinding factor) of the reply this stage waits for"""
        p = self.parsed()
        if self.stage == "requested":
            return ("closing", close_msg(p["state"]), p["bf_close"])
        if self.stage in ("inactive", "locked"):
            return ("token", state_msg(p["state"]), p["bf_token"])
        if self.stage == "started":
            return ("closing", close_msg(p["new"]), p["bf_close"])
        return None

    def other_type(self):
        """the message and factor of the OTHER reply type for the same state (fault 4)"""
        p = self.parsed()
        if self.stage == "requested":
            return (state_msg(p["state"]), p["bf_token"])
        if self.stage == "started":
            return (state_msg(p["new"]), p["bf_token"])
        return (close_msg(p["state"]), p["bf_token"])


OPS = {"requested": ("req_complete", "EvComplete"), "inactive": ("inactive_activate", "EvActivate"),
       "started": ("started_lock", "EvLock"), "locked": ("locked_unlock", "EvUnlock")}


def commit_msg_dl(M, msg, bf):
    return commit_dl(M.pk["g1"], M.pk["y1s"], msg, bf)


def fault_replies(rng, M, M2, cust, pool):
    """the fault alphabet for the reply `cust` waits for: list of (name, wire hex or None, dl pair or None)"""
    kind, msg, bf = cust.expected_reply()
    u = rand_nz(rng)
    out = [("garbage_bytes", rng.randbytes(96).hex(), None),
           ("identity_signature", G1_ID + G1_ID, None),
           ("identity_first_element", G1_ID + M.pts.g1(rand_nz(rng)), None),
           ("two_random_points", None, (rand_nz(rng), rand_nz(rng)))]
    for j in range(5):
        alt = list(msg)
        alt[j] = (alt[j] + rng.choice([1, Q - 1, rand_nz(rng)])) % Q
        names = ["channel_id", "nonce_or_close_tag", "lock", "customer_balance", "merchant_balance"]
        out.append(("signature_on_altered_" + names[j], None, bsign_dl(M, u, commit_msg_dl(M, alt, bf))))
    omsg, obf = cust.other_type()
    out.append(("other_message_type", None, bsign_dl(M, u, commit_msg_dl(M, omsg, obf))))
    out.append(("other_message_type_same_factor", None, bsign_dl(M, u, commit_msg_dl(M, omsg, bf))))
    out.append(("signature_under_another_key", None, bsign_dl(M2, u, commit_msg_dl(M, msg, bf), key=M2.key)))
    out.append(("wrong_blinding_factor", None, bsign_dl(M, u, (commit_msg_dl(M, msg, bf) + M.pk["g1"] * rand_nz(rng)) % Q)))
    for nm, dl in pool[-4:]:
        out.append(("replayed_" + nm, None, dl))
    return out


def feed(run, h, batch, cust, name, wire, dl, expect_accept, tag):
    """feed one reply to the customer; record monitors + model query; returns (accepted, tokens)"""
    M = cust.M
    op, ev = OPS[cust.stage]
    if wire is None:
        wire = M.pts.g1(dl[0]) + M.pts.g1(dl[1])
    h.begin()
    t = h.call(op, cust.hex, wire, M.cconfig)
    case = {"history": tag, "stage": cust.stage, "reply": name, "result": t[0], "script": h.end()}
    run.case(case, nontrivial=(name != "honest"))
    run.count("reply " + name.split("replayed_")[0])
    if not expect_accept:
        run.check_monitor("bad_reply_refused", t[0] in ("refused", "undecodable"), case)
        run.check_monitor("refusal_leaves_state_bytes_unchanged", t[0] == "undecodable" or t[1] == cust.hex, case)
        if t[0] == "refused":
            cust.hex = t[1]      # the history continues with the state the refusal handed back
    else:
        run.check_monitor("honest_reply_accepted", t[0] == "ok", case)
    if dl is not None:
        pre = cust.coq()

        def cmp(r, case=case, t=t):
            accepted = r[0] in (0, 3)
            run.check_corr("corr.customer_step", accepted == (t[0] == "ok"), dict(case, model=r[:3]))
        batch.add("r_step pk0 %s (%s %s)" % (pre, ev, coq_sigdl(dl)), cmp)
    return t


def close_on_copy(run, h, batch, rng, cust, ledger, disclosed, cid, tag):
    """close() on a copy of the current state; the property's closing monitors + model query"""
    if cust.stage == "requested":
        return
    M = cust.M
    rho = rand_nz(rng)
    h.begin()
    h.rng(1, [rho])
    t = h.call("close", cust.stage, cust.hex, M.handle)
    cm = parse_closing(t[0])
    case = {"history": tag, "stage": cust.stage, "op": "close", "ledger": ledger, "script": h.end()}
    run.case(case, nontrivial=False)
    run.count("close at " + cust.stage)
    run.check_monitor("closing_message_accepted_by_merchant", t[5] == "1", case)
    run.check_monitor("closing_message_carries_ledger_balances_and_channel", int(t[1]) == ledger[0] and int(t[2]) == ledger[1] and t[3] == cid.hex(),
                      dict(case, got=[t[1], t[2]]))
    run.check_monitor("closing_lock_not_disclosed_before", cm["lock"] not in disclosed, case)
    pre = cust.coq()

    def cmp(r, case=case, cm=cm, t=t):
        ok = r[0] == 1 and M.pts.g1(r[1]) == cm["sig"][0] and M.pts.g1(r[2]) == cm["sig"][1] and r[5] == cm["lock"] \
            and r[6] == cm["cb"] and r[7] == cm["mb"] and bool(r[8]) == (t[5] == "1")
        run.check_corr("corr.customer_close", ok, dict(case, model=r[:4]))
    batch.add("r_close pk0 %s %s" % (pre, zlit(rho)), cmp)
