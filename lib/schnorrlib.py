"""Commitment / signature / signature-request proofs on the wire, with known discrete logs."""
from core import *
from pslib import *


def glen(grp):
    return 96 if grp == 1 else 192  # hex chars


def parse_cp(grp, n, hexs):
    """CommitmentProof<G,N> = C, T, rbf, len8, rs"""
    l = glen(grp)
    C, T = hexs[:l], hexs[l:2 * l]
    o = 2 * l
    rbf = unsc(hexs[o:o + 64]); o += 64
    o += 16
    rs = [unsc(hexs[o + 64 * i:o + 64 * (i + 1)]) for i in range(n)]
    assert o + 64 * n == len(hexs)
    return {"C": C, "T": T, "rbf": rbf, "rs": rs}


def cp_bytes(C_hex, T_hex, rbf, rs):
    return C_hex + T_hex + sc(rbf) + le8(len(rs)) + "".join(sc(r) for r in rs)


def parse_sp(n, hexs):
    """SignatureProof<N> = sigma1', sigma2', CommitmentProof<G2,N>"""
    d = parse_cp(2, n, hexs[192:])
    d["s1"], d["s2"] = hexs[:96], hexs[96:192]
    return d


def sp_bytes(s1_hex, s2_hex, C_hex, T_hex, rbf, rs):
    return s1_hex + s2_hex + cp_bytes(C_hex, T_hex, rbf, rs)


def ipq(a, b):
    return sum(x * y for x, y in zip(a, b)) % Q


def commit_dl(hdl, gdls, ms, bf):
    return (hdl * bf + ipq(gdls, ms)) % Q


def craft_cp(hdl, gdls, ms, bf, kbf, ks, c):
    """discrete logs and scalars of an honest proof for challenge c (used to phrase inputs only)"""
    return {"C": commit_dl(hdl, gdls, ms, bf), "T": commit_dl(hdl, gdls, ks, kbf), "rbf": (c * bf + kbf) % Q,
            "rs": [(c * m + k) % Q for m, k in zip(ms, ks)]}


def cp_relation(h, grp, h_hex, g_hexs, p, c):
    """independent evaluation on the curve: commit(rs, rbf) == T + c*C   (p has hex C, T)"""
    args = [h_hex, sc(p["rbf"])]
    for g, r in zip(g_hexs, p["rs"]):
        args += [g, sc(r)]
    lhs = h.call("g%dlin" % grp, *args)[0]
    rhs = h.call("g%dlin" % grp, p["T"], sc(1), p["C"], sc(c))[0]
    return lhs == rhs


def sp_relation(h, key_atoms, p, c):
    """sigma1' != 1, the commitment-proof relation under (g2, y2s), and e(s1', X~ + C) = e(s2', g~)"""
    if h.call("classify", p["s1"])[0] != "ok":
        return False
    if not cp_relation(h, 2, key_atoms["g2"], key_atoms["y2s"], p, c):
        return False
    inter = h.call("g2lin", key_atoms["x2"], sc(1), p["C"], sc(1))[0]
    return h.call("pair_eq", p["s1"], inter, p["s2"], key_atoms["g2"])[0] == "1"


def ctx_chal(ctx):
    """challenge of ChallengeBuilder::new().with_bytes(ctx).finish()"""
    return chal_of_digest(sha3(ctx))


def coq_cp(p_dl):
    return "%s %s %s %s" % (zlit(p_dl["C"]), zlit(p_dl["T"]), zlit(p_dl["rbf"]), zlist(p_dl["rs"]))
