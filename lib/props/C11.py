"""C11 - proof verifiers accept exactly the Schnorr and pairing relations."""
from core import *
from pslib import *
from schnorrlib import *

RULE = ("for commitment proofs (G1, G2), signature-request proofs and signature proofs, N in {1,2,3,5,8,13,17,34}: proofs "
        "assembled from bytes with known discrete logs for a context-derived challenge; every single-field "
        "perturbation (C, T, blinding-factor response, each response scalar, sigma1', sigma2'), another challenge, "
        "changed parameters / key elements (h, g_j, X~, g~, Y~j), simulated transcripts (T from c and random "
        "responses, also with identity commitment) under the same and another challenge, invalid underlying "
        "signatures, and signature proofs built by the library around signatures made degenerate with randomiser 0. "
        "Non-trivial = any perturbed or simulated case; distinct = distinct input digest.")
TRUSTED = ["theorems C11_* over an arbitrary field; correspondence ops: cp_verify, srp_verify, sp_verify (+ sp_prove for "
           "degenerate signatures)"]
ASSUMPTIONS = ["challenge values are those reachable through ChallengeBuilder (SHA3 of the context): c = 0 cannot be "
               "produced through the API and is covered by the theorems only"]
NS = [1, 2, 3, 5, 8, 13, 17, 34]


def run(run, h):
    pts = Points(h)
    rng = run.rng
    batch = Batch("C11")
    std = Basis(h, pts)
    rounds = 1 if run.tier == "quick" else 6
    for n in NS:
        for rd in range(rounds):
            for grp in (1, 2):
                commitment_cases(run, h, pts, batch, rng, grp, n)
            key = make_key(std, rng, n, small=(rd == 0))
            request_cases(run, h, pts, batch, rng, key)
            signature_cases(run, h, pts, batch, rng, key)
    batch.flush()


def delta(rng):
    return rng.choice([1, Q - 1, rand_nz(rng)])


def coords(run, rng, n):
    return pick_coords(rng, n, 3, run.tier == "thorough")


def commitment_cases(run, h, pts, batch, rng, grp, n):
    mode = rng.choice(["rand", "rand", "idgen", "idh"])
    hdl = 0 if mode == "idh" else rand_nz(rng)
    gdls = [rand_nz(rng) for _ in range(n)]
    if mode == "idgen":
        gdls[rng.randrange(n)] = 0
    params = h.call("ped_from", grp, n, pts.g(grp, hdl), "".join(pts.many(grp, gdls)))[0]
    ms = [rand_scalar(rng, 0.5) for _ in range(n)]
    bf, kbf = rand_scalar(rng, 0.2), rand_scalar(rng, 0.2)
    ks = [rand_scalar(rng, 0.2) for _ in range(n)]
    ctx = rng.randbytes(8)
    c = ctx_chal(ctx)
    base = craft_cp(hdl, gdls, ms, bf, kbf, ks, c)

    def check(kind, p, hd, gd, cx, must=None):
        """p: dict of dls C,T + scalars; hd/gd: parameter dls; cx: context bytes"""
        pr = params if (hd == hdl and gd == gdls) else h.call("ped_from", grp, n, pts.g(grp, hd), "".join(pts.many(grp, gd)))[0]
        cc = ctx_chal(cx)
        wire = cp_bytes(pts.g(grp, p["C"]), pts.g(grp, p["T"]), p["rbf"], p["rs"])
        h.begin()
        got, chal = h.call("cp_verify", grp, n, pr, wire, "b", hx(cx))
        got = got == "1"
        case = {"proof": "commitment", "G": grp, "N": n, "kind": kind, "h": hd, "gs": gd, "p": p, "c": cc,
                "ctx": cx.hex(), "impl": got, "script": h.end()}
        run.case(case, nontrivial=(kind != "honest"))
        run.count("cp " + kind.split(":")[0])
        run.check_corr("corr.C11.challenge_of_context", unsc(chal) == cc, case)
        rel = cp_relation(h, grp, pts.g(grp, hd), pts.many(grp, gd),
                          {"C": pts.g(grp, p["C"]), "T": pts.g(grp, p["T"]), "rbf": p["rbf"], "rs": p["rs"]}, cc)
        run.check_monitor("verify_equals_schnorr_relation", got == rel, dict(case, relation=rel))
        if must is not None:
            run.check_monitor("accept" if must else "single_change_rejected", got == must, case)

        def cmp(r, case=case, got=got):
            run.check_corr("corr.C11.cp_verify", bool(r[0]) == got, dict(case, model=r[0]))
        batch.add("r_cp_verify %s %s %s %s" % (zlit(hd), zlist(gd), coq_cp(p), zlit(cc)), cmp)

    check("honest", base, hdl, gdls, ctx, must=True)
    check("C", dict(base, C=(base["C"] + delta(rng)) % Q), hdl, gdls, ctx, must=False)
    check("T", dict(base, T=(base["T"] + delta(rng)) % Q), hdl, gdls, ctx, must=False)
    check("rbf", dict(base, rbf=(base["rbf"] + delta(rng)) % Q), hdl, gdls, ctx, must=(False if hdl else None))
    for j in coords(run, rng, n):
        rs = list(base["rs"])
        rs[j] = (rs[j] + delta(rng)) % Q
        check("r:%d" % j, dict(base, rs=rs), hdl, gdls, ctx, must=(False if gdls[j] else None))
    check("challenge", base, hdl, gdls, rng.randbytes(9), must=(False if base["C"] else None))
    check("param_h", base, (hdl + delta(rng)) % Q, gdls, ctx, must=(False if base["rbf"] else None))
    j = rng.randrange(n)
    g2 = list(gdls)
    g2[j] = (g2[j] + delta(rng)) % Q
    check("param_g:%d" % j, base, hdl, g2, ctx, must=(False if base["rs"][j] else None))
    # simulated transcripts
    for cdl in (rand_nz(rng), 0):
        rs = [rand_scalar(rng, 0.1) for _ in range(n)]
        rbf = rand_scalar(rng, 0.1)
        sim = {"C": cdl, "T": (commit_dl(hdl, gdls, rs, rbf) - c * cdl) % Q, "rbf": rbf, "rs": rs}
        check("simulated_same_challenge", sim, hdl, gdls, ctx, must=True)
        check("simulated_other_challenge", sim, hdl, gdls, rng.randbytes(7), must=(False if cdl else True))
    # a group-element field replaced by a point that is on the curve but outside the prime-order subgroup: whatever the
    # decoder and the verifier do with it, the proof must not be accepted
    for fld in ("C", "T"):
        off = h.call("offsub", grp, rng.randrange(2 ** 31))[0]
        wire = cp_bytes(off if fld == "C" else pts.g(grp, base["C"]), off if fld == "T" else pts.g(grp, base["T"]), base["rbf"], base["rs"])
        h.begin()
        t = h.try_call("cp_verify", grp, n, params, wire, "b", hx(ctx))
        oc = {"proof": "commitment", "G": grp, "N": n, "kind": "outside_subgroup:" + fld, "impl": t[0] if t else "undecodable", "script": h.end()}
        run.case(oc)
        run.count("cp outside_subgroup")
        run.check_monitor("field_outside_the_group_never_accepted", t is None or t[0] != "1", oc)


def request_cases(run, h, pts, batch, rng, key):
    n, pk = key["n"], key["pk"]
    hdl, gdls = pk["g1"], pk["y1s"]
    ms = [rand_scalar(rng, 0.5) for _ in range(n)]
    bf, kbf = rand_scalar(rng, 0.2), rand_scalar(rng, 0.2)
    ks = [rand_scalar(rng, 0.2) for _ in range(n)]
    ctx = rng.randbytes(8)
    c = ctx_chal(ctx)
    base = craft_cp(hdl, gdls, ms, bf, kbf, ks, c)
    atoms = parse_kp(n, key["kp_hex"])

    def check(kind, p, cx, must):
        cc = ctx_chal(cx)
        wire = cp_bytes(pts.g1(p["C"]), pts.g1(p["T"]), p["rbf"], p["rs"])
        h.begin()
        t = h.call("srp_verify", n, key["pk_hex"], wire, "b", hx(cx))
        got = t[0] == "1"
        case = {"proof": "request", "N": n, "kind": kind, "pk": pk, "p": p, "c": cc, "ctx": cx.hex(), "impl": got,
                "script": h.end()}
        run.case(case, nontrivial=(kind != "honest"))
        run.count("srp " + kind.split(":")[0])
        rel = cp_relation(h, 1, atoms["g1"], atoms["y1s"],
                          {"C": pts.g1(p["C"]), "T": pts.g1(p["T"]), "rbf": p["rbf"], "rs": p["rs"]}, cc)
        run.check_monitor("verify_equals_schnorr_relation", got == rel, dict(case, relation=rel))
        if must is not None:
            run.check_monitor("accept" if must else "single_change_rejected", got == must, case)

        def cmp(r, case=case, got=got):
            run.check_corr("corr.C11.req_verify", bool(r[0]) == got, dict(case, model=r))
        batch.add("r_req_verify %s %s %s" % (coq_pk(pk), coq_cp(p), zlit(cc)), cmp)

    check("honest", base, ctx, True)
    check("C", dict(base, C=(base["C"] + delta(rng)) % Q), ctx, False)
    check("T", dict(base, T=(base["T"] + delta(rng)) % Q), ctx, False)
    check("rbf", dict(base, rbf=(base["rbf"] + delta(rng)) % Q), ctx, False)
    for j in coords(run, rng, n):
        rs = list(base["rs"])
        rs[j] = (rs[j] + delta(rng)) % Q
        check("r:%d" % j, dict(base, rs=rs), ctx, False)
    check("challenge", base, rng.randbytes(9), False if base["C"] else None)


def signature_cases(run, h, pts, batch, rng, key):
    n, pk = key["n"], key["pk"]
    hdl, gdls = pk["g2"], pk["y2s"]
    atoms = parse_kp(n, key["kp_hex"])
    ms = [rand_scalar(rng, 0.5) for _ in range(n)]
    s = (key["x"] + ipq(key["ys"], ms)) % Q
    a, r = rand_nz(rng), rand_nz(rng)
    bf, kbf = rand_scalar(rng, 0.2), rand_scalar(rng, 0.2)
    ks = [rand_scalar(rng, 0.2) for _ in range(n)]
    ctx = rng.randbytes(8)
    c = ctx_chal(ctx)
    cp = craft_cp(hdl, gdls, ms, bf, kbf, ks, c)
    base = dict(cp, s1=a * r % Q, s2=(a * s + a * bf) * r % Q)

    def check(kind, p, pk2, cx, must):
        cc = ctx_chal(cx)
        if p["s1"] % Q == 0:
            return
        pkh = key["pk_hex"] if pk2 is pk else pk_bytes(key["basis"], pk2)
        at = atoms if pk2 is pk else {"g2": pts.g2(pk2["g2"]), "x2": pts.g2(pk2["x2"]), "y2s": pts.many(2, pk2["y2s"])}
        wire = sp_bytes(pts.g1(p["s1"]), pts.g1(p["s2"]), pts.g2(p["C"]), pts.g2(p["T"]), p["rbf"], p["rs"])
        h.begin()
        got = h.call("sp_verify", n, pkh, wire, "b", hx(cx))[0] == "1"
        case = {"proof": "signature", "N": n, "kind": kind, "pk": pk2, "p": p, "c": cc, "ctx": cx.hex(), "impl": got,
                "script": h.end()}
        run.case(case, nontrivial=(kind != "honest"))
        run.count("sp " + kind.split(":")[0])
        rel = sp_relation(h, at, {"s1": pts.g1(p["s1"]), "s2": pts.g1(p["s2"]), "C": pts.g2(p["C"]),
                                  "T": pts.g2(p["T"]), "rbf": p["rbf"], "rs": p["rs"]}, cc)
        run.check_monitor("verify_equals_schnorr_and_pairing_relation", got == rel, dict(case, relation=rel))
        if must is not None:
            run.check_monitor("accept" if must else "single_change_rejected", got == must, case)

        def cmp(rr, case=case, got=got):
            run.check_corr("corr.C11.sig_verify", bool(rr[0]) == got, dict(case, model=rr[0]))
        t = [p["s1"], p["s2"], p["C"], p["T"], p["rbf"]] + p["rs"]
        batch.add("r_sp_verify %s %s %s" % (coq_pk(pk2), zlist(t), zlit(cc)), cmp)

    check("honest", base, pk, ctx, True)
    check("s1", dict(base, s1=(base["s1"] + delta(rng)) % Q), pk, ctx, False)
    check("s2", dict(base, s2=(base["s2"] + delta(rng)) % Q), pk, ctx, False)
    check("C", dict(base, C=(base["C"] + delta(rng)) % Q), pk, ctx, False)
    check("T", dict(base, T=(base["T"] + delta(rng)) % Q), pk, ctx, False)
    check("rbf", dict(base, rbf=(base["rbf"] + delta(rng)) % Q), pk, ctx, False)
    for j in coords(run, rng, n):
        rs = list(base["rs"])
        rs[j] = (rs[j] + delta(rng)) % Q
        check("r:%d" % j, dict(base, rs=rs), pk, ctx, False)
    check("challenge", base, pk, rng.randbytes(9), False if base["C"] else None)
    x2 = (pk["x2"] + delta(rng)) % Q
    if x2:
        check("key_x2", base, dict(pk, x2=x2), ctx, False)
    # the signature is not a signature on ms (sigma2 off by a multiple of sigma1): pairing relation fails
    check("invalid_signature", dict(base, s2=(a * (s + 1) + a * bf) * r % Q), pk, ctx, False)
    for fld, g in (("s1", 1), ("s2", 1), ("C", 2), ("T", 2)):
        off = h.call("offsub", g, rng.randrange(2 ** 31))[0]
        el = {"s1": pts.g1(base["s1"]), "s2": pts.g1(base["s2"]), "C": pts.g2(base["C"]), "T": pts.g2(base["T"])}
        el[fld] = off
        wire = sp_bytes(el["s1"], el["s2"], el["C"], el["T"], base["rbf"], base["rs"])
        h.begin()
        t = h.try_call("sp_verify", n, key["pk_hex"], wire, "b", hx(ctx))
        oc = {"proof": "signature", "N": n, "kind": "outside_subgroup:" + fld, "impl": t[0] if t else "undecodable", "script": h.end()}
        run.case(oc)
        run.count("sp outside_subgroup")
        run.check_monitor("field_outside_the_group_never_accepted", t is None or t[0] != "1", oc)
    # ... and a signature element PLUS a point of order 3 (a pairing may ignore such a component: the encoding must not decode)
    small = next((c for c in (h.call("g1_curve_mul", rng.randrange(2 ** 31), hx((Q * 0x396c8c005555e1568c00aaab0000aaab // 3).to_bytes(49, "big")))[0]
                              for _ in range(6)) if c != "c0" + "00" * 47), None)
    for fld in (("s1", "s2") if small else ()):
        el = {"s1": pts.g1(base["s1"]), "s2": pts.g1(base["s2"]), "C": pts.g2(base["C"]), "T": pts.g2(base["T"])}
        el[fld] = h.call("g1_add_unchecked", el[fld], small)[0]
        wire = sp_bytes(el["s1"], el["s2"], el["C"], el["T"], base["rbf"], base["rs"])
        h.begin()
        t = h.try_call("sp_verify", n, key["pk_hex"], wire, "b", hx(ctx))
        oc = {"proof": "signature", "N": n, "kind": "plus_point_of_order_3:" + fld, "impl": t[0] if t else "undecodable", "script": h.end()}
        run.case(oc)
        run.count("sp plus small-order point")
        run.check_monitor("field_outside_the_group_never_accepted", t is None or t[0] != "1", oc)
    # a proof that satisfies both relations but whose commitment is to another message than the signed one
    ms2 = list(ms)
    ms2[0] = (ms2[0] + 1) % Q
    cp2 = craft_cp(hdl, gdls, ms2, bf, kbf, ks, c)
    check("commitment_to_other_message", dict(cp2, s1=base["s1"], s2=base["s2"]), pk, ctx, False)
    # degenerate: library prover around a signature re-randomised with 0 (all-identity blinded signature)
    sig_hex = pts.g1(a) + pts.g1(a * s)
    for rr in (0, rand_nz(rng)):
        h.begin()
        h.rng(3, [bf, kbf] + ks + [rr])
        t = h.call("sp_prove", n, key["pk_hex"], scs(ms), sig_hex, "0" * n, "-", hx(ctx))
        served, _ = h.served()
        got = h.call("sp_verify", n, key["pk_hex"], t[5], "p", hx(ctx))[0] == "1"
        case = {"proof": "signature", "N": n, "kind": "library_prover_randomiser_%s" % ("0" if rr == 0 else "nz"),
                "r": rr, "served": served, "impl": got, "script": h.end()}
        run.case(case)
        run.count("sp degenerate" if rr == 0 else "sp library")
        blinded_first = t[0][:96]
        is_id = h.call("classify", blinded_first)[0] == "id"
        run.check_monitor("identity_blinded_signature_never_accepted", not (is_id and got), case)
        run.check_monitor("library_proof_accept_iff_randomiser_nonzero", got == (not is_id), case)
