"""C14 - customer messages reuse no value the merchant has seen and expose no secret."""
from core import *
from abacuslib import *
from wirelib import *

RULE = ("multi-channel histories (2 channels in quick, 4 in thorough; 1-3 / 1-6 payments each, interleaved; a refused reply "
        "in each; a terminal close from every stage reached): every 48 / 96 / 32-byte atom of every protocol message in "
        "both directions and of the public parameters goes into one table in sending order. Checked: no atom of a "
        "customer message equals an atom of any earlier message or of the parameters (channel id and balances exempt); "
        "duplicates inside one message are exactly the linked response scalars the protocol creates on purpose; no secret "
        "scalar held in the customer state at sending time (blinding factors, unrevealed nonces, revocation secrets) occurs "
        "in any message so far; every closing signature is a re-randomisation (by the served draw) of the stored one; every "
        "terminal close is repeated with a zero first draw (fault injection: still nothing the merchant has seen may be sent). "
        "Non-trivial = every customer message; distinct = distinct message digest.")
TRUSTED = ["theorems C14_* (per-atom injectivity in a fresh draw) over an arbitrary field; correspondence ops: the customer / "
           "merchant API; randomness recovery of C01 / C02 shows every masking value is its own draw"]
ASSUMPTIONS = ["exact-value reuse only: hiding / unlinkability / zero knowledge are not expressible in the discrete-log "
               "representation and are not claimed"]


def atoms_of(name, hexs):
    layout = {"EstablishProof": L_eproof(), "PayProof": L_pproof(), "Sig": L_sig(), "Nonce": A("s"),
              "LockMessage": A("s") + A("s") + A("u8") + A("s"), "ClosingMessage": L_sig() + A("raw32") + A("s") + A("u64") * 2}[name]
    offs, total = offsets(layout)
    assert total == len(hexs) // 2, (name, total, len(hexs) // 2)
    return [(i, kind, hexs[2 * o:2 * (o + w)]) for i, (o, w, kind, fl) in enumerate(offs) if kind in ("g1", "g2", "s")]


def expected_duplicates(name, atoms):
    """sets of atom indices that the protocol makes equal on purpose (linked response scalars)"""
    if name not in ("EstablishProof", "PayProof"):
        return []
    vals = {}
    for i, kind, a in atoms:
        if kind == "s":
            vals.setdefault(a, []).append(i)
    return [v for v in vals.values() if len(v) > 1]


def group_element_duplicates(atoms):
    """group elements that occur more than once inside ONE message (never on purpose: every commitment, scalar commitment and
    shown signature half of a message has its own fresh randomness)"""
    vals = {}
    for i, kind, a in atoms:
        if kind in ("g1", "g2"):
            vals.setdefault(a, []).append(i)
    return [v for v in vals.values() if len(v) > 1]


def secrets_of(stage, hexs):
    if stage == "requested":
        p = parse_requested(hexs)
        return {"nonce": p["state"]["nonce"], "revocation_secret": p["state"]["secret"], "bf_close": p["bf_close"], "bf_token": p["bf_token"]}
    if stage in ("inactive", "locked"):
        p = parse_inactive(hexs)
        return {"nonce": p["state"]["nonce"], "revocation_secret": p["state"]["secret"], "bf_token": p["bf_token"]}
    if stage == "ready":
        p = parse_ready(hexs)
        return {"revocation_secret": p["state"]["secret"]}      # the nonce is revealed by the next start, by design
    p = parse_started(hexs)
    return {"new_nonce": p["new"]["nonce"], "new_revocation_secret": p["new"]["secret"], "old_revocation_secret": p["old"]["secret"],
            "bf_rev": p["bf_rev"], "bf_token": p["bf_token"], "bf_close": p["bf_close"]}


class View:
    """everything the merchant (or an observer of both directions) has seen, in order"""

    def __init__(self, run):
        self.run = run
        self.seen = {}      # atom hex -> where first seen

    def public(self, label, layout, hexs):
        offs, _ = offsets(layout)
        for i, (o, w, kind, fl) in enumerate(offs):
            if kind in ("g1", "g2", "s"):
                self.seen.setdefault(hexs[2 * o:2 * (o + w)], label)

    def merchant_msg(self, label, name, hexs):
        for i, kind, a in atoms_of(name, hexs):
            self.seen.setdefault(a, label)

    def customer_msg(self, label, name, hexs, secrets, keep=True, exempt=(), within=True):
        run = self.run
        atoms = atoms_of(name, hexs)
        case = {"message": label, "type": name, "atoms": len(atoms)}
        run.case(case)
        run.count("customer message " + name)
        reused = [(i, a[:16], self.seen[a]) for i, kind, a in atoms if a in self.seen and i not in exempt]
        run.check_monitor("no_atom_reused_from_earlier_messages", not reused, dict(case, reused=reused[:5]))
        dups = expected_duplicates(name, atoms)
        n_dup_groups = len(dups)
        exp = {"EstablishProof": 4, "PayProof": 5}.get(name, 0)
        run.check_monitor("in_message_duplicates_are_only_the_linked_responses", n_dup_groups == exp, dict(case, duplicate_groups=dups))
        if within:      # not for the fault-injected zero draw: there the unchanged code sends the identity pair (twice the identity)
            gd = group_element_duplicates(atoms)
            run.check_monitor("no_group_element_twice_in_one_message", not gd, dict(case, duplicate_groups=gd[:5]))
        if keep:
            for i, kind, a in atoms:
                self.seen.setdefault(a, label)
        allvals = set(self.seen) | {a for _, _, a in atoms}
        leaked = [nm for nm, v in secrets.items() if sc(v) in allvals]
        run.check_monitor("no_secret_scalar_in_any_message", not leaked, dict(case, leaked=leaked))


def run(run, h):
    pts = Points(h)
    rng = run.rng
    M = make_merchant(h, pts, rng)
    view = View(run)
    view.public("merchant public key", L_pk(5), M.key["pk_hex"])
    view.public("revocation parameters", L_ped(1, 1), M.rev_hex)
    view.public("range parameters", L_rp(), M.rp["hex"])
    nch = 2 if run.tier == "quick" else 4
    chans = []
    for ci in range(nch):
        cid = rng.randbytes(32)
        cb, mb = rng.randrange(100, 2 ** 40), rng.randrange(100, 2 ** 40)
        # channel 0 is funded by the customer only and starts with a zero-amount payment (the merchant's new balance is 0);
        # channel 1 starts with the customer spending everything (the customer's new balance is 0), then gets a refund
        plan = []
        if ci == 0:
            mb, plan = 0, [0, 5]
        elif ci == 1:
            cb, plan = rng.randrange(100, 10 ** 6), None
        ctx = b"est%d" % ci
        e = establish_request(h, M, cid, cb, mb, ctx, [rand_nz(rng) for _ in range(12)], seed=rng.randrange(2 ** 31))
        view.customer_msg("establish proof ch%d" % ci, "EstablishProof", e["proof_hex"], secrets_of("requested", e["req_hex"]))
        mi = merchant_init(h, M, cid, cb, mb, e["proof_hex"], ctx, u=rand_nz(rng))
        view.merchant_msg("closing signature ch%d" % ci, "Sig", mi["closing"])
        # a refused reply first (the other channel's / a garbage signature), then the honest one
        bad = h.call("req_complete", e["req_hex"], pts.g1(rand_nz(rng)) + pts.g1(rand_nz(rng)), M.cconfig)
        run.check_monitor("refused_reply_leaves_state", bad[0] == "refused" and bad[1] == e["req_hex"], {"ch": ci})
        inactive = h.call("req_complete", e["req_hex"], mi["closing"], M.cconfig)[1]
        terminal_close(run, h, rng, view, M, "inactive", inactive, "ch%d inactive" % ci)
        h.rng(rng.randrange(2 ** 31))
        token = h.call("m_activate", M.handle, mi["vbs"])[0]
        view.merchant_msg("pay token ch%d" % ci, "Sig", token)
        ready = h.call("inactive_activate", inactive, token, M.cconfig)[1]
        chans.append({"ci": ci, "ready": ready, "n": 0, "plan": plan if plan is not None else [cb, -3]})
    npay = (5 if run.tier == "quick" else 12) * nch      # at least ten payments in one process: state kept across calls shows late
    done, attempts = 0, 0
    while done < npay and attempts < 3 * npay:      # npay COMPLETED payments (a refused amount does not count)
        attempts += 1
        ch = rng.choice(chans)
        ci = ch["ci"]
        label = "ch%d pay%d" % (ci, ch["n"])
        terminal_close(run, h, rng, view, M, "ready", ch["ready"], label + " ready")
        amt = ch["plan"].pop(0) if ch["plan"] else rng.choice([1, 2, -1, 0, 7])
        ctx = b"pay"
        h.rng(rng.randrange(2 ** 31))
        t = h.call("ready_start", ch["ready"], amt, hx(ctx), M.cconfig)
        if t[0] != "ok":
            continue
        started, nonce_hex, proof_hex = t[1], t[2], t[3]
        view.customer_msg(label + " nonce", "Nonce", nonce_hex, secrets_of("started", started))
        view.customer_msg(label + " pay proof", "PayProof", proof_hex, secrets_of("started", started))
        terminal_close(run, h, rng, view, M, "started", started, label + " started")
        a = merchant_allow(h, M, amt, unsc(nonce_hex), proof_hex, ctx, u=rand_nz(rng))
        if not run.check_monitor("honest_payment_accepted", a["ok"], {"label": label}):
            return
        view.merchant_msg(label + " closing signature", "Sig", a["closing"])
        l = h.call("started_lock", started, a["closing"], M.cconfig)
        locked, pair, revbf = l[1], l[2], l[3]
        view.customer_msg(label + " lock message", "LockMessage", pair + revbf, secrets_of("locked", locked))
        terminal_close(run, h, rng, view, M, "locked", locked, label + " locked")
        h.rng(rng.randrange(2 ** 31))
        cp = h.call("u_complete", a["unrev"], pair, revbf)
        view.merchant_msg(label + " pay token", "Sig", cp[1])
        ch["ready"] = h.call("locked_unlock", locked, cp[1], M.cconfig)[1]
        ch["n"] += 1
        done += 1
    run.count("completed payments in the process: %d" % done)


def terminal_close(run, h, rng, view, M, stage, hexs, label):
    """a close from this stage, as a terminal branch: its atoms are checked against everything seen so far but are not
    added to the table (the real history continues without having closed)"""
    rho = rand_nz(rng)
    h.rng(1, [rho])
    t = h.call("close", stage, hexs, M.handle)
    cm = t[0]
    # channel id (raw32) is not an atom; the revocation lock (atom 2) of a closing message is disclosed by closing, by design,
    # and has not been shown before (C03): it is checked, not exempted
    view.customer_msg(label + " closing message", "ClosingMessage", cm, secrets_of(stage, hexs), keep=False)
    stored = {"inactive": lambda: parse_inactive(hexs)["close_sig"], "locked": lambda: parse_inactive(hexs)["close_sig"],
              "ready": lambda: parse_ready(hexs)["close_sig"], "started": lambda: parse_started(hexs)["old_close_sig"]}[stage]()
    ok = h.call("g1lin", stored[0], sc(rho))[0] == cm[:96] and h.call("g1lin", stored[1], sc(rho))[0] == cm[96:192]
    run.check_corr("corr.C14.closing_signature_is_rerandomisation_by_the_served_draw", ok, {"label": label})
    run.check_monitor("closing_signature_differs_from_stored_signature", cm[:96] != stored[0], {"label": label})
    # the same close when the generator's first answer is the zero scalar (a fault at exactly that draw): whatever the code
    # does with it - draw again, or send the identity pair, which the merchant will refuse - it must not send the signature as
    # stored, which the merchant has seen
    h.rng(rng.randrange(2 ** 31), [0])
    t0 = h.try_call("close", stage, hexs, M.handle)
    run.count("close with a zero first draw: %s" % ("message" if t0 else "no message"))
    if t0:
        view.customer_msg(label + " closing message (zero first draw)", "ClosingMessage", t0[0], secrets_of(stage, hexs), keep=False, within=False)
        run.check_monitor("closing_signature_differs_from_stored_signature", t0[0][:96] != stored[0] and t0[0][96:192] != stored[1],
                          {"label": label, "first_draw": 0})
