"""C04 - honest runs always complete and track the ideal ledger exactly."""
from core import *
from abacuslib import *

RULE = ("honest customer and merchant (real APIs, merchant configuration with known discrete logs and one from "
        "merchant::Config::new): initial balances on the lattice [0, 2^63-1]^2 (boundary values incl. 128^8 and 2^63-1, whose "
        "digit decompositions are 0,..,0,1 and 127,..,127, and random), amount sequences of length <= 4 (thorough <= 12) "
        "from {0, +-1, +-balance, +-(balance+1), +-(2^63-1), random} relative to the current balances; an independent "
        "integer ledger in the driver; balances reported at every stage and by closing messages are compared with it. "
        "Non-trivial = every payment that moves a balance to a boundary or is refused; distinct = distinct digest.")
TRUSTED = ["theorems C04_* (completeness for every randomness with non-zero randomisers; exact integer arithmetic); "
           "correspondence ops: the whole customer / merchant API"]
ASSUMPTIONS = ["randomisers r, u are non-zero (probability 2^-255 otherwise; the zero case is rejected - C07/C10 theorems)"]
MAX = 2 ** 63 - 1
LAT = [0, 1, 127, 128, 128 ** 8, 2 ** 62, MAX - 1, MAX]


def run(run, h):
    pts = Points(h)
    rng = run.rng
    batch = Batch("C04")
    M = make_merchant(h, pts, rng)
    h.rng(rng.randrange(2 ** 31))
    t = h.call("m_new")
    Mg = Merchant()
    Mg.handle, Mg.h = t[0], h
    kpb = bytes.fromhex(t[1])
    Mg.cconfig = kpb[32 + 8 + 160 + 48:].hex() + t[2] + t[3]
    nr = 6 if run.tier == "quick" else 40
    for i in range(nr):
        cb, mb = rng.choice(LAT + [rng.randrange(MAX + 1)]), rng.choice(LAT + [rng.randrange(MAX + 1)])
        if i == 0:
            cb, mb = MAX, 0
        if i == 1:
            cb, mb = 128 ** 8, MAX
        one_run(run, h, batch, rng, M if i % 3 else Mg, cb, mb, "r%d" % i)
    batch.flush()


def report(h, stage, hexs):
    t = h.call("balances", stage, hexs)
    return int(t[0]), int(t[1])


def one_run(run, h, batch, rng, M, cb, mb, tag):
    cid = rng.randbytes(32)
    est = full_establish(h, M, rng, cid, cb, mb, b"c04")
    case0 = {"run": tag, "cb": cb, "mb": mb, "merchant": "generated" if not hasattr(M, "key") else "known"}
    run.case(case0, nontrivial=(cb in (0, MAX) or mb in (0, MAX)))
    run.count("establish")
    if not run.check_monitor("honest_establishment_completes", est["ok"], dict(case0, stage=est.get("stage"))):
        return
    ledger = [cb, mb]
    for stage, hx_ in (("requested", est["e"]["req_hex"]), ("inactive", est["inactive"]), ("ready", est["ready"])):
        run.check_monitor("reported_balances_equal_ledger", report(h, stage, hx_) == (cb, mb), dict(case0, stage=stage))
    ready = est["ready"]
    n = rng.randrange(1, 5) if run.tier == "quick" else rng.randrange(1, 13)
    for pi in range(n):
        c = [0, 1, -1, ledger[0], -ledger[1], ledger[0] + 1, -(ledger[1] + 1), MAX, -MAX, rng.randrange(-2 ** 63, 2 ** 63),
             rng.randrange(0, ledger[0] + 1), -rng.randrange(0, ledger[1] + 1)]
        amt = rng.choice([a for a in c if -2 ** 63 <= a <= MAX])
        ncb, nmb = ledger[0] - amt, ledger[1] + amt
        fits = 0 <= ncb <= MAX and 0 <= nmb <= MAX
        case = dict(case0, payment=pi, amount=amt, ledger=list(ledger))
        r = pay_once(h, M, rng, ready, amt, b"p%d" % pi)
        run.case(case, nontrivial=(not fits or ncb in (0, MAX) or nmb in (0, MAX)))
        run.count("payment " + ("in range" if fits else "out of range"))
        batch.add("r_apply %d %d %s" % (ledger[0], ledger[1], zlit(amt)),
                  lambda rr, case=case, fits=fits, ncb=ncb, nmb=nmb: run.check_corr(
                      "corr.C04.apply_payment", (rr == [1, ncb, nmb]) if fits else (rr[0] in (2, 3)), dict(case, model=rr)))
        if not fits:
            if ncb < 0 or (0 <= ncb <= MAX and nmb < 0):
                exp = ["InsufficientFunds"]
            else:
                exp = ["AmountTooLarge", str(ncb if ncb > MAX else nmb)]
            ok = (not r["ok"]) and r["stage"] == "start" and r["error"] == exp and r["ready"] == ready
            run.check_monitor("out_of_range_payment_refused_with_documented_error_and_unchanged_state", ok,
                              dict(case, got=r.get("error"), expect=exp, stage=r.get("stage")))
            continue
        if not run.check_monitor("honest_payment_completes", r["ok"], dict(case, stage=r.get("stage"))):
            return
        run.check_monitor("reported_balances_equal_ledger", report(h, "started", r["started"]) == tuple(ledger), dict(case, stage="started"))
        ledger[0], ledger[1] = ncb, nmb
        run.check_monitor("reported_balances_equal_ledger", report(h, "locked", r["locked"]) == tuple(ledger), dict(case, stage="locked"))
        run.check_monitor("reported_balances_equal_ledger", report(h, "ready", r["ready"]) == tuple(ledger), dict(case, stage="ready"))
        run.check_monitor("balance_sum_conserved", ledger[0] + ledger[1] == cb + mb, case)
        ready = r["ready"]
        h.rng(rng.randrange(2 ** 31))
        cm = h.call("close", "ready", ready, M.handle)
        run.check_monitor("closing_message_reports_ledger_and_is_accepted", (int(cm[1]), int(cm[2])) == tuple(ledger) and cm[5] == "1", case)
