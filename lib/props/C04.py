"""C04 - honest runs always complete and track the ideal ledger exactly."""
from core import *
from abacuslib import *
from custsim import *
from rangelib import coq_rp

RULE = ("honest customer and merchant (real APIs, merchant configuration with known discrete logs and one from "
        "merchant::Config::new): initial balances on the lattice [0, 2^63-1]^2 (boundary values incl. 128^8 and 2^63-1, whose "
        "digit decompositions are 0,..,0,1 and 127,..,127, and random), amount sequences of length <= 4 (thorough <= 12) "
        "from {0, +-1, +-balance, +-(balance+1), +-(2^63-1), random} relative to the current balances; an independent "
        "integer ledger in the driver; balances reported at every stage and by closing messages are compared with it. "
        "Non-trivial = every payment that moves a balance to a boundary or is refused; distinct = distinct digest.")
TRUSTED = ["theorems C04_* (completeness for every randomness with non-zero randomisers; exact integer arithmetic); "
           "correspondence ops: the whole customer / merchant API"]
ASSUMPTIONS = ["randomisers r, u are non-zero (probability 2^-255 otherwise; the zero case is rejected - C07/C10 theorems)"]
MAX = 2 ** 63 - 1
LAT = [0, 1, 127, 128, 128 ** 8, 2 ** 62, MAX - 1, MAX]


def run(run, h):
    pts = Points(h)
    rng = run.rng
    batch = Batch("C04")
    M = make_merchant(h, pts, rng)
    h.rng(rng.randrange(2 ** 31))
    t = h.call("m_new")
    Mg = Merchant()
    Mg.handle, Mg.h = t[0], h
    kpb = bytes.fromhex(t[1])
    Mg.cconfig = kpb[32 + 8 + 160 + 48:].hex() + t[2] + t[3]
    nr = 6 if run.tier == "quick" else 40
    for i in range(nr):
        cb, mb = rng.choice(LAT + [rng.randrange(MAX + 1)]), rng.choice(LAT + [rng.randrange(MAX + 1)])
        if i == 0:
            cb, mb = MAX, 0
        if i == 1:
            cb, mb = 128 ** 8, MAX
        one_run(run, h, batch, rng, M if i % 3 else Mg, cb, mb, "r%d" % i)
    batch.flush()
    for i in range(1 if run.tier == "quick" else 4):
        composed_case(run, h, pts, rng, M, i)


def report(h, stage, hexs):
    t = h.call("balances", stage, hexs)
    return int(t[0]), int(t[1])


def one_run(run, h, batch, rng, M, cb, mb, tag):
    cid = rng.randbytes(32)
    est = full_establish(h, M, rng, cid, cb, mb, b"c04")
    case0 = {"run": tag, "cb": cb, "mb": mb, "merchant": "generated" if not hasattr(M, "key") else "known"}
    run.case(case0, nontrivial=(cb in (0, MAX) or mb in (0, MAX)))
    run.count("establish")
    if not run.check_monitor("honest_establishment_completes", est["ok"], dict(case0, stage=est.get("stage"))):
        return
    ledger = [cb, mb]
    for stage, hx_ in (("requested", est["e"]["req_hex"]), ("inactive", est["inactive"]), ("ready", est["ready"])):
        run.check_monitor("reported_balances_equal_ledger", report(h, stage, hx_) == (cb, mb), dict(case0, stage=stage))
    ready = est["ready"]
    n = rng.randrange(1, 5) if run.tier == "quick" else rng.randrange(1, 13)
    for pi in range(n):
        c = [0, 1, -1, ledger[0], -ledger[1], ledger[0] + 1, -(ledger[1] + 1), MAX, -MAX, rng.randrange(-2 ** 63, 2 ** 63),
             rng.randrange(0, ledger[0] + 1), -rng.randrange(0, ledger[1] + 1)]
        amt = rng.choice([a for a in c if -2 ** 63 <= a <= MAX])
        ncb, nmb = ledger[0] - amt, ledger[1] + amt
        fits = 0 <= ncb <= MAX and 0 <= nmb <= MAX
        case = dict(case0, payment=pi, amount=amt, ledger=list(ledger))
        r = pay_once(h, M, rng, ready, amt, b"p%d" % pi)
        run.case(case, nontrivial=(not fits or ncb in (0, MAX) or nmb in (0, MAX)))
        run.count("payment " + ("in range" if fits else "out of range"))
        batch.add("r_apply %d %d %s" % (ledger[0], ledger[1], zlit(amt)),
                  lambda rr, case=case, fits=fits, ncb=ncb, nmb=nmb: run.check_corr(
                      "corr.C04.apply_payment", (rr == [1, ncb, nmb]) if fits else (rr[0] in (2, 3)), dict(case, model=rr)))
        if not fits:
            if ncb < 0 or (0 <= ncb <= MAX and nmb < 0):
                exp = ["InsufficientFunds"]
            else:
                exp = ["AmountTooLarge", str(ncb if ncb > MAX else nmb)]
            ok = (not r["ok"]) and r["stage"] == "start" and r["error"] == exp and r["ready"] == ready
            run.check_monitor("out_of_range_payment_refused_with_documented_error_and_unchanged_state", ok,
                              dict(case, got=r.get("error"), expect=exp, stage=r.get("stage")))
            continue
        if not run.check_monitor("honest_payment_completes", r["ok"], dict(case, stage=r.get("stage"))):
            return
        run.check_monitor("reported_balances_equal_ledger", report(h, "started", r["started"]) == tuple(ledger), dict(case, stage="started"))
        ledger[0], ledger[1] = ncb, nmb
        run.check_monitor("reported_balances_equal_ledger", report(h, "locked", r["locked"]) == tuple(ledger), dict(case, stage="locked"))
        run.check_monitor("reported_balances_equal_ledger", report(h, "ready", r["ready"]) == tuple(ledger), dict(case, stage="ready"))
        run.check_monitor("balance_sum_conserved", ledger[0] + ledger[1] == cb + mb, case)
        ready = r["ready"]
        h.rng(rng.randrange(2 ** 31))
        cm = h.call("close", "ready", ready, M.handle)
        run.check_monitor("closing_message_reports_ledger_and_is_accepted", (int(cm[1]), int(cm[2])) == tuple(ledger) and cm[5] == "1", case)


def composed_case(run, h, pts, rng, M, i):
    """The composition itself (Model/Protocol.v full_payment) against a real payment: the same Ready state, amount, named
    randomness (recovered order-free from the served scalars), context and merchant randomisers go through the real
    Ready::start / allow_payment / lock / complete_payment / unlock and through the Coq composition, whose Fiat-Shamir hash is
    the table {model transcript -> challenge the code derived}; the resulting Ready states (state, pay token, closing
    signature) must coincide."""
    cb, mb = rng.choice([(1000, 10), (2 ** 62, 5), (7, 2 ** 63 - 8)])
    cid = rng.randbytes(32)
    est = full_establish(h, M, rng, cid, cb, mb, b"est")
    if not run.check_monitor("honest_establishment_completes", est["ok"], {"composed": i}):
        return
    req = est["e"]["req"]
    st = req["state"]
    u1e, u2e = est["u"]
    tok = token_dl(M, state_msg(st), req["bf_token"], u2e)
    csig = unblind_dl(bsign_dl(M, u1e, commit_msg_dl(M, close_msg(st), req["bf_close"])), req["bf_close"])
    ready = est["ready"]
    pre = "Definition pk0 := %s.\nDefinition rp0 := %s.\n" % (coq_pk(M.pk), coq_rp(M.rp))
    # establishment, composed: Requested::new, initialize, complete, activate, activate - against Protocol.full_establish
    ec = est["e"]["chal"]["c"]
    edl, rec = establish_dls(M, st, req["bf_token"], req["bf_close"], est["e"]["proof"], ec)
    ectx = zlist(list(sha3(b"est")))
    etr = eval_model(["r_establish_transcript pk0 %s %s %s %s %s" % (zlit(cid_scalar(cid)), zlit(cb), zlit(mb), coq_eproof_args(edl), ectx)],
                     "C04e", preamble=pre)[0]
    run.check_corr("corr.C04.establish_transcript", "".join(concretize_atoms(pts, etr)) == "".join(est["mi"]["chal"]["chunks"]), {"composed": i})
    eterm = "r_full_establish (mk_m %s pk0 %s %s rp0) [(%s, %s)] %s %s %s %s %s %s %s %s %s %s %s %s %s %s" % (
        coq_sk(M.key["sk"]), zlit(M.hr), zlit(M.gr), zlist(etr), zlit(ec), zlit(cid_scalar(cid)), zlit(cb), zlit(mb),
        zlit(st["nonce"]), zlit(st["lock"]), zlit(req["bf_token"]), zlit(rec["kbf_s"]), zlist(rec["ks"]), zlit(req["bf_close"]),
        zlit(rec["kbf_c"]), zlit(rec["kc"][1]), ectx, zlit(u1e), zlit(u2e))
    er = eval_model([eterm], "C04g", preamble=pre)[0]
    rd0 = parse_ready(ready)
    s0 = rd0["state"]
    eok = (er[0] == 1 and er[1] == 2 and er[2:7] == [cid_scalar(s0["cid"]), s0["nonce"], s0["lock"], s0["cb"], s0["mb"]]
           and pts.g1(er[7]) == rd0["token"][0] and pts.g1(er[8]) == rd0["token"][1]
           and pts.g1(er[9]) == rd0["close_sig"][0] and pts.g1(er[10]) == rd0["close_sig"][1])
    run.check_corr("corr.C04.full_establish_composition", eok, {"composed": i, "model_head": er[:7]})
    amt = rng.choice([1, 0, -3, min(st["cb"], 5)])
    ctx = rng.randbytes(9)
    tape = [rand_nz(rng) for _ in range(89)]
    h.begin()
    h.call("chal_drain")
    h.rng(31, tape)
    t = h.call("ready_start", ready, amt, hx(ctx), M.cconfig)
    served, _ = h.served()
    ch = last_challenge(h)
    case = {"op": "composed_payment", "cb": cb, "mb": mb, "amount": amt}
    if not run.check_monitor("honest_payment_completes", t[0] == "ok", dict(case, stage="start", script=h.end())):
        return
    started_hex, nonce_hex, proof_hex = t[1], t[2], t[3]
    started, pp = parse_started(started_hex), parse_pproof(proof_hex)
    u1, u2 = rand_nz(rng), rand_nz(rng)
    a = merchant_allow(h, M, amt, unsc(nonce_hex), proof_hex, ctx, u=u1)
    ok = a["ok"]
    final = None
    if ok:
        l = h.call("started_lock", started_hex, a["closing"], M.cconfig)
        ok = l[0] == "ok"
        if ok:
            h.rng(5, [u2])
            cp = h.call("u_complete", a["unrev"], l[2], l[3])
            ok = cp[0] == "ok"
            if ok:
                ul = h.call("locked_unlock", l[1], cp[1], M.cconfig)
                ok = ul[0] == "ok"
                final = ul[1] if ok else None
    case["script"] = h.end()
    run.case(case)
    run.count("composed payment (model of both parties)")
    if not run.check_monitor("honest_payment_completes", ok, dict(case, stage="reply")):
        return
    c = ch["c"]
    d = recover_pay(M, pts, served, started, pp, tok, c)
    if not run.check_corr("corr.C04.randomness_is_fresh_draws", d is not None, case):
        return
    old, new, newc = state_msg(started["old"]), state_msg(started["new"]), close_msg(started["new"])
    honest = build_pay(M, tok, old, new, newc, old[2], (digits(started["new"]["cb"]),) * 2, (digits(started["new"]["mb"]),) * 2, d, c)
    ctxh = zlist(list(sha3(ctx)))
    tr = eval_model(["r_pay_transcript pk0 rp0 %s %s %s" % (zlit(unsc(nonce_hex)), coq_pproof(honest), ctxh)], "C04t", preamble=pre)[0]
    run.check_corr("corr.C04.pay_transcript", "".join(concretize_atoms(pts, tr)) == "".join(a["chal"]["chunks"]), case)
    mirror = Cust(M, "ready", ready, csig=csig, tok=tok)
    term = "r_full_payment (mk_m %s pk0 %s %s rp0) [(%s, %s)] %s %s %s %s %s %s %s %s" % (
        coq_sk(M.key["sk"]), zlit(M.hr), zlit(M.gr), zlist(tr), zlit(c), mirror.coq(), zlit(amt),
        zlit(started["new"]["nonce"]), zlit(started["new"]["lock"]), coq_draws(d), ctxh, zlit(u1), zlit(u2))
    r = eval_model([term], "C04f", preamble=pre)[0]
    fin = parse_ready(final)
    fs = fin["state"]
    ok = (r[0] == 1 and r[1] == 2 and r[2:7] == [cid_scalar(fs["cid"]), fs["nonce"], fs["lock"], fs["cb"], fs["mb"]]
          and pts.g1(r[7]) == fin["token"][0] and pts.g1(r[8]) == fin["token"][1]
          and pts.g1(r[9]) == fin["close_sig"][0] and pts.g1(r[10]) == fin["close_sig"][1])
    run.check_corr("corr.C04.full_payment_composition", ok, dict(case, model_head=r[:7]))
