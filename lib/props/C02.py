"""C02 - merchant approves payments only for a correct, unspent, in-range state update."""
from core import *
from pslib import *
from schnorrlib import *
from rangelib import *
from abacuslib import *

RULE = ("a merchant with known discrete logs; channels established honestly and advanced by 0-3 (thorough: 0-8) honest "
        "payments of either sign and zero to obtain a pay token whose discrete logs are known; then (1) the honest "
        "payment proof with all 89 random values named and recovered order-free, compared with the Coq prover, transcript "
        "and verifier; (2) the forger family against merchant::allow_payment: every false variant (wrong nonce, amount "
        "+-1 on either balance, balance out of range with hand-assembled digits, foreign channel id, close tag replaced, "
        "mismatched old / new revocation lock, token under another key, tampered token) x strategies (a) honest "
        "algorithm, (c) independent commitment scalars, (d) post-challenge choice of the revealed commitment scalars and "
        "of the scalar commitments T (challenge read through the hook), (e) compensating errors in two sub-proofs over the same "
        "generators (state / close state; two digit proofs) that cancel in the sum or difference of their relations, (f) the shown token "
        "replaced by curve points of order 3 (outside the group) in a proof for an invented old state, responses recomputed for the "
        "challenge that covers them; (3) proofs of TRUE statements whose response scalars vanish (lock / nonce 0 with commitment scalar "
        "0, zero blinding factors), which must be accepted; (4) a merchant from merchant::Config::new. Non-trivial = every case; distinct = distinct digest.")
TRUSTED = ["theorems C02_* over an arbitrary field / hash; correspondence ops: ready_start, m_allow, started_lock, u_complete, "
           "locked_unlock; verifier challenge read through the verif-hooks recorder"]
ASSUMPTIONS = ["rewinding / random-oracle step from special soundness to 'no efficient prover' - not formalised",
               "PS unforgeability for 'merchant-issued token' and for the range digits - named, not proved",
               "the forger family is a search for failing inputs, not a proof"]


def scripted_payment(h, M, rng, ready_hex, amount, ctx):
    """one honest payment with the merchant's randomisers scripted; returns new ready state + token dls"""
    h.call("chal_drain")
    h.rng(rng.randrange(2 ** 31))
    t = h.call("ready_start", ready_hex, amount, hx(ctx), M.cconfig)
    if t[0] != "ok":
        return None
    started, nonce_hex, proof_hex = t[1], t[2], t[3]
    u1, u2 = rand_nz(rng), rand_nz(rng)
    a = merchant_allow(h, M, amount, unsc(nonce_hex), proof_hex, ctx, u=u1)
    if not a["ok"]:
        return None
    l = h.call("started_lock", started, a["closing"], M.cconfig)
    h.rng(5, [u2])
    cp = h.call("u_complete", a["unrev"], l[2], l[3])
    ul = h.call("locked_unlock", l[1], cp[1], M.cconfig)
    st = parse_started(started)
    return {"ready": ul[1], "tok": token_dl(M, state_msg(st["new"]), st["bf_token"], u2), "state": st["new"]}


def run(run, h):
    pts = Points(h)
    rng = run.rng
    batch = Batch("C02")
    M = make_merchant(h, pts, rng)
    M2 = make_merchant(h, pts, rng)   # a foreign key, for 'token of another key'
    batch.define("rp0", coq_rp(M.rp))
    batch.define("pk0", coq_pk(M.pk))
    nch = 2 if run.tier == "quick" else 6
    for ci in range(nch):
        cid = rng.randbytes(32)
        cb0, mb0 = rng.choice([(1000, 10), (2 ** 62, 5), (7, 2 ** 63 - 8), (rng.randrange(2 ** 62), rng.randrange(2 ** 62))])
        est = full_establish(h, M, rng, cid, cb0, mb0, b"est")
        if not run.check_monitor("honest_establish_accepted", est["ok"], {"cb": cb0, "mb": mb0}):
            continue
        st = est["e"]["req"]["state"]
        tok = token_dl(M, state_msg(st), est["e"]["req"]["bf_token"], est["u"][1])
        ready = est["ready"]
        npay = rng.randrange(0, 4) if run.tier == "quick" else rng.randrange(0, 9)
        for _ in range(npay):
            amt = rng.choice([0, 1, -1, 3, st["cb"], -st["mb"], rng.randrange(-min(st["mb"], 2 ** 40) - 0, min(st["cb"], 2 ** 40) + 1)])
            if not (0 <= st["cb"] - amt <= 2 ** 63 - 1 and 0 <= st["mb"] + amt <= 2 ** 63 - 1):
                continue
            r = scripted_payment(h, M, rng, ready, amt, b"hist")
            if not run.check_monitor("honest_payment_accepted", r is not None, {"amount": amt, "state": st}):
                break
            ready, tok, st = r["ready"], r["tok"], r["state"]
        run.count("history length %d" % npay)
        target(run, h, pts, batch, rng, M, M2, ready, tok, st)
    generated_merchant_payment(run, h, rng)
    batch.flush()


def small_order_token(run, h, pts, rng, M, tok, old, true_new, nonce, amt, ctx):
    """a pay proof for an INVENTED old state (customer balance raised by 10^6; no token on it was ever issued), otherwise built
    exactly as the honest prover builds it, whose shown pay token is replaced in the bytes by curve points of order 3 -
    (P, identity) and (P, P'): a pairing with a small-order point is trivial, so such a 'signature' would satisfy the pairing
    equation for every message commitment. The Fiat-Shamir challenge covers the shown token, so the proof is drafted, the
    verifier's challenge is read, and the responses are recomputed for it. The decoder must refuse (not group elements)."""
    def p3():
        return next((c for c in (h.call("g1_curve_mul", rng.randrange(2 ** 31), hx((Q * 0x396c8c005555e1568c00aaab0000aaab // 3).to_bytes(49, "big")))[0]
                                 for _ in range(6)) if c != "c0" + "00" * 47), None)
    small, small2 = p3(), p3()
    if small is None or small2 is None:
        return
    oldm = list(old)
    oldm[3] = (old[3] + 10 ** 6) % Q
    new = list(true_new)
    new[3] = (oldm[3] - amt) % Q
    if not in_range(new[3]):
        return
    newc = [new[0], CLOSE, new[2], new[3], new[4]]
    d = rand_pay_draws(rng)
    dig = ((digits(new[3]),) * 2, (digits(new[4] % 2 ** 63),) * 2)
    for nm, a1, a2 in (("order3_point_and_identity", small, "c0" + "00" * 47), ("two_order3_points", small, small2)):
        def forged(c):
            wire = pay_wire(pts, build_pay(M, tok, oldm, new, newc, oldm[2], dig[0], dig[1], d, c))
            return wire[:128] + a1 + a2 + wire[320:]
        h.begin()
        r0 = merchant_allow(h, M, amt, nonce, forged(1), ctx, u=rand_nz(rng))
        accepted = False
        if r0["chal"] is not None:
            r = merchant_allow(h, M, amt, nonce, forged(r0["chal"]["c"]), ctx, u=rand_nz(rng))
            accepted = r["ok"]
        case = {"op": "forgery", "variant": "token_" + nm, "strategy": "f_point_outside_the_group", "old": oldm, "new": new,
                "decoded": r0["chal"] is not None, "accepted": accepted, "script": h.end()}
        run.case(case)
        run.count("forger f_point_outside_the_group")
        run.check_monitor("false_statement_rejected", not accepted, case)


def generated_merchant_payment(run, h, rng):
    """a merchant from merchant::Config::new: after an honest payment the closing signature and the new pay token must cover
    exactly the old balances moved by the amount - no state with one slot changed, and none in which value was moved between
    two slots (which a key with dependent exponents would let through)"""
    for rep in range(1 if run.tier == "quick" else 3):
        h.rng(rng.randrange(2 ** 31))
        t = h.call("m_new")
        Mg = Merchant()
        Mg.handle, Mg.h = t[0], h
        kpb = bytes.fromhex(t[1])
        pk_hex = kpb[32 + 8 + 160 + 48:].hex()
        Mg.cconfig = pk_hex + t[2] + t[3]
        cb, mb = rng.randrange(100, 2 ** 40), rng.randrange(100, 2 ** 40)
        est = full_establish(h, Mg, rng, rng.randbytes(32), cb, mb, b"g")
        if not run.check_monitor("honest_establish_accepted", est["ok"], {"merchant": "generated"}):
            continue
        amt = rng.choice([1, -1, 7, 0])
        r = pay_once(h, Mg, rng, est["ready"], amt, b"gp")
        case = {"op": "generated_merchant_payment", "cb": cb, "mb": mb, "amount": amt}
        run.case(case)
        run.count("generated merchant payment")
        if not run.check_monitor("honest_payment_accepted", r["ok"], dict(case, stage=r.get("stage"))):
            continue
        stt = parse_started(r["started"])
        new = stt["new"]
        expect_close = [cid_scalar(new["cid"]), CLOSE, new["lock"], (cb - amt) % Q, (mb + amt) % Q]
        expect_state = [cid_scalar(new["cid"]), new["nonce"], new["lock"], (cb - amt) % Q, (mb + amt) % Q]
        cs_tok = h.call("bsig_unblind", r["closing"], sc(stt["bf_close"]))[1]
        tk_tok = h.call("bsig_unblind", r["token"], sc(stt["bf_token"]))[1]
        ok = (h.call("sig_verify", 5, pk_hex, scs(expect_close), cs_tok)[0] == "1"
              and h.call("sig_verify", 5, pk_hex, scs(expect_state), tk_tok)[0] == "1")
        run.check_monitor("closing_signature_covers_exactly_old_balances_moved_by_amount", ok, case)
        d = rng.choice([1, 1000, rand_nz(rng)])
        for (msg, tok, nm) in ((expect_close, cs_tok, "close"), (expect_state, tk_tok, "state")):
            for (i, j) in ((3, 4), (4, 3), (0, 2), (1, 3), (2, 4)):
                m2 = list(msg)
                m2[i], m2[j] = (m2[i] + d) % Q, (m2[j] - d) % Q
                bad = h.call("sig_verify", 5, pk_hex, scs(m2), tok)[0] == "1"
                run.check_monitor("signatures_cover_no_other_state", not bad, dict(case, which=nm, moved=[j, i], delta=d))
            for j in range(5):
                m2 = list(msg)
                m2[j] = (m2[j] + 1) % Q
                bad = h.call("sig_verify", 5, pk_hex, scs(m2), tok)[0] == "1"
                run.check_monitor("signatures_cover_no_other_state", not bad, dict(case, which=nm, slot=j))


def target(run, h, pts, batch, rng, M, M2, ready, tok, st):
    pk = M.pk
    amt = rng.choice([1, 0, -1, st["cb"], -st["mb"], rng.randrange(-min(st["mb"], 10 ** 6), min(st["cb"], 10 ** 6) + 1)])
    if not (0 <= st["cb"] - amt <= 2 ** 63 - 1 and 0 <= st["mb"] + amt <= 2 ** 63 - 1):
        amt = 0
    ctx = rng.randbytes(rng.choice([0, 7, 33]))
    # ---- (1) the honest proof
    tape = [rand_nz(rng) for _ in range(89)]
    h.begin()
    h.call("chal_drain")
    h.rng(31, tape)
    t = h.call("ready_start", ready, amt, hx(ctx), M.cconfig)
    served, _ = h.served()
    ch = last_challenge(h)
    case = {"op": "honest_pay", "amount": amt, "old_state": {k: (v.hex() if isinstance(v, bytes) else v) for k, v in st.items()},
            "ctx": ctx.hex()}
    if not run.check_monitor("honest_payment_accepted", t[0] == "ok", dict(case, script=h.end())):
        return
    started_hex, nonce_hex, proof_hex = t[1], t[2], t[3]
    started, pp = parse_started(started_hex), parse_pproof(proof_hex)
    nonce = unsc(nonce_hex)
    u = rand_nz(rng)
    a = merchant_allow(h, M, amt, nonce, proof_hex, ctx, u=u)
    case["script"] = h.end()
    run.case(case)
    run.count("honest pay amount %s" % ("0" if amt == 0 else ("+" if amt > 0 else "-")))
    run.check_monitor("honest_payment_accepted", a["ok"], case)
    if not a["ok"]:
        return
    c = ch["c"]
    run.check_corr("corr.C02.prover_and_verifier_hash_the_same_transcript", "".join(a["chal"]["chunks"]) == "".join(ch["chunks"]) and ch["digest_ok"], case)
    run.check_monitor("revealed_nonce_is_old_state_nonce", nonce == st["nonce"], case)
    d = recover_pay(M, pts, served, started, pp, tok, c)
    if not run.check_corr("corr.C02.randomness_is_fresh_draws", d is not None and pay_draws_fresh(d, served), dict(case, served_n=len(served))):
        return
    old, new, newc = state_msg(started["old"]), state_msg(started["new"]), close_msg(started["new"])
    kinds = pp_kinds()
    wire_flat = flat_pp(pp)

    def cmp_prove(r, case=case):
        ok = r[0] == 1 and len(r) - 1 == len(wire_flat)
        if ok:
            for x, w, k in zip(r[1:], wire_flat, kinds):
                ok = ok and ((x == w) if k == 0 else (pts.g(k, x) == w))
        run.check_corr("corr.C02.pay_prove", ok, dict(case, model_head=r[:4]))
    batch.add("r_pay_prove pk0 rp0 %s %s %s %s %s %s %s %s %s %s" % (
        zlit(M.hr), zlit(M.gr), zlit(tok[0]), zlit(tok[1]), zlist(old), zlit(started["new"]["cb"]), zlit(started["new"]["mb"]),
        zlist(new), coq_draws(d), zlit(c)), cmp_prove)
    honest = build_pay(M, tok, old, new, newc, old[2], (digits(started["new"]["cb"]),) * 2, (digits(started["new"]["mb"]),) * 2, d, c)

    def cmp_tr(r, case=case, chunks=a["chal"]["chunks"]):
        run.check_corr("corr.C02.pay_transcript", "".join(concretize_atoms(pts, r)) == "".join(chunks), dict(case, n_chunks=len(chunks)))
    batch.add("r_pay_transcript pk0 rp0 %s %s %s" % (zlit(nonce), coq_pproof(honest), zlist(list(sha3(ctx)))), cmp_tr)

    def cmp_ver(r, case=case):
        ok = r[0] == 1 and pts.g1(r[1]) == pp["sp"]["C"] and pts.g1(r[2]) == pp["csp"]["C"] and pts.g1(r[3]) == pp["rev"]["C"]
        run.check_corr("corr.C02.pay_verify", ok, dict(case, model=r))
    batch.add("r_pay_verify pk0 rp0 %s %s %s %s %s %s" % (zlit(M.hr), zlit(M.gr), zlit(nonce), zlit(amt), coq_pproof(honest), zlit(c)), cmp_ver)

    def cmp_bs(r, case=case, closing=a["closing"]):
        run.check_corr("corr.C02.closing_signature_is_blind_signature_on_new_close_commitment",
                       pts.g1(r[0]) == closing[:96] and pts.g1(r[1]) == closing[96:], dict(case, model=r))
    batch.add("r_blind_sign %s pk0 %s %s" % (coq_sk(M.key["sk"]), zlit(u), zlit(honest["csp"]["C"])), cmp_bs)
    # the closing signature covers exactly old -/+ amount
    sg = h.call("bsig_unblind", a["closing"], sc(started["bf_close"]))
    expect_close = [old[0], CLOSE, new[2], (st["cb"] - amt) % Q, (st["mb"] + amt) % Q]
    okc = h.call("sig_verify", 5, M.key["pk_hex"], scs(expect_close), sg[1])[0] == "1"
    run.check_monitor("closing_signature_covers_exactly_old_balances_moved_by_amount", okc, dict(case, expect=expect_close))
    # ---- (2) forger family
    forger_family(run, h, pts, batch, rng, M, M2, tok, old, st, nonce, amt, ctx)


def in_range(v):
    return 0 <= v <= 2 ** 63 - 1


def forger_family(run, h, pts, batch, rng, M, M2, tok, old, st, nonce, amt, ctx):
    ncb, nmb = st["cb"] - amt, st["mb"] + amt
    nn, nlock = rand_nz(rng), rand_nz(rng)
    true_new = [old[0], nn, nlock, ncb % Q, nmb % Q]

    def honest_digits(v):
        return (digits(v % 2 ** 63), digits(v % 2 ** 63))
    V = []   # (name, dict of deviations)
    V.append(("wrong_nonce", {"nonce_pub": (nonce + 1) % Q}))
    V.append(("wrong_nonce_random", {"nonce_pub": rand_nz(rng)}))
    for dcb, dmb, nm in ((1, 0, "cb+1"), (-1, 0, "cb-1"), (0, 1, "mb+1"), (0, -1, "mb-1"), (1, 1, "both+1"), (1000, 0, "cb+1000")):
        if in_range(ncb + dcb) and in_range(nmb + dmb):
            V.append(("amount_" + nm, {"new3": ncb + dcb, "new4": nmb + dmb}))
    V.append(("amount_public_off_by_one", {"amount_pub": amt + 1 if amt < 2 ** 63 - 1 else amt - 1}))
    V.append(("balance_out_of_range_neg1", {"new3": Q - 1, "dig_c": ([127] * 9, [127] * 9)}))
    V.append(("balance_out_of_range_2^63", {"new3": 2 ** 63, "dig_c": ([0] * 8 + [128], [0] * 9)}))
    V.append(("foreign_channel_id", {"new0": (old[0] + 1) % Q}))
    V.append(("close_tag_replaced", {"close1": nn}))
    V.append(("close_tag_plus1", {"close1": (CLOSE + 1) % Q}))
    V.append(("old_lock_mismatch", {"rev": (old[2] + 1) % Q}))
    V.append(("new_lock_mismatch", {"close2": (nlock + 1) % Q}))
    V.append(("close_customer_balance_differs", {"close3": (ncb + 1) % Q}))
    V.append(("close_merchant_balance_differs", {"close4": (nmb + 1) % Q}))
    V.append(("close_merchant_balance_zero", {"close4": 0 if nmb else 5}))
    V.append(("close_channel_id_differs", {"close0": (old[0] + 1) % Q}))
    V.append(("new_merchant_balance_only", {"new4": nmb + 1 if in_range(nmb + 1) else nmb - 1}))
    V.append(("token_of_another_key", {"tok": "foreign"}))
    V.append(("tampered_token", {"tok": (tok[0], (tok[1] + 1) % Q)}))
    V.append(("token_on_other_state", {"old3": (old[3] + 1) % Q}))
    strategies = ["a_honest_algorithm", "c_independent_scalars", "d_solve_revealed_scalars", "d_solve_T"]
    for name, dev in V:
        for strat in strategies:
            # quick: every variant with the per-relation strategy (c) - each verifier equation is violated alone at least
            # once per run - plus a sample of the other strategies; thorough: everything
            if run.tier == "quick" and strat != "c_independent_scalars" and rng.random() < 0.6:
                continue
            attempt(run, h, pts, batch, rng, M, M2, tok, old, true_new, nonce, amt, ctx, name, dev, strat)
    compensating_family(run, h, pts, batch, rng, M, tok, old, true_new, nonce, amt, ctx)
    small_order_token(run, h, pts, rng, M, tok, old, true_new, nonce, amt, ctx)
    degenerate_true_statements(run, h, pts, batch, rng, M, tok, old, true_new, nonce, amt, ctx)


def degenerate_true_statements(run, h, pts, batch, rng, M, tok, old, true_new, nonce, amt, ctx):
    """the other direction of 'accepts exactly': proofs of TRUE statements, built with the honest algorithm from scripted values
    that make response scalars vanish (a new revocation lock / nonce equal to 0 with commitment scalar 0; blinding factors 0
    with commitment scalars 0; digit commitment scalars 0 for a zero balance). The verifier's equations hold, so they must be
    accepted - a verifier that treats a zero response differently (skips it, shifts the others) computes another relation."""
    variants = [("new_lock_zero", {2: 0}, {"klock": 0}), ("new_nonce_zero", {1: 0}, {"knn": 0}),
                ("state_blinding_zero", {}, {"bfs": 0, "kbfs": 0}), ("close_blinding_zero", {}, {"bfc": 0, "kbfc": 0}),
                ("lock_and_nonce_zero", {1: 0, 2: 0}, {"klock": 0, "knn": 0})]
    for nm, slots, draws in variants:
        new = list(true_new)
        for k, v in slots.items():
            new[k] = v
        newc = [new[0], CLOSE, new[2], new[3], new[4]]
        d = rand_pay_draws(rng)
        d.update(draws)
        if new[4] == 0:
            d["dsm"] = [(x[0], x[1], 0, x[3]) for x in d["dsm"]]
        dig = ((digits(new[3] % 2 ** 63),) * 2, (digits(new[4] % 2 ** 63),) * 2)
        h.begin()
        r0 = merchant_allow(h, M, amt, nonce, pay_wire(pts, build_pay(M, tok, old, new, newc, old[2], dig[0], dig[1], d, 1)), ctx, u=rand_nz(rng))
        if r0["chal"] is None:
            h.end()
            continue
        final = build_pay(M, tok, old, new, newc, old[2], dig[0], dig[1], d, r0["chal"]["c"])
        r1 = merchant_allow(h, M, amt, nonce, pay_wire(pts, final), ctx, u=rand_nz(rng))
        case = {"op": "true_statement", "variant": nm, "old": old, "new": new, "close": newc, "accepted": r1["ok"], "script": h.end()}
        run.case(case)
        run.count("degenerate true statement " + nm)
        run.check_monitor("true_statement_with_vanishing_responses_accepted", r1["ok"], case)
        if r1["chal"] is None:
            continue

        def cmp(r, case=case, ok=r1["ok"]):
            run.check_corr("corr.C02.pay_verify", bool(r[0]) == ok, dict(case, model=r[0]))
        batch.add("r_pay_verify pk0 rp0 %s %s %s %s %s %s" % (zlit(M.hr), zlit(M.gr), zlit(nonce), zlit(amt), coq_pproof(final), zlit(r1["chal"]["c"])), cmp)


def compensating_family(run, h, pts, batch, rng, M, tok, old, true_new, nonce, amt, ctx):
    """strategy (e): a proof whose responses are those of a TRUE statement, with errors in the (scalar) commitments of two
    sub-proofs over the same generators that cancel in the sum or difference of their Schnorr relations - (new state,
    new close state) under the merchant key in G1, and two digit proofs of a range constraint under the range key in G2.
    Each relation alone fails; a verifier that checks them together (unweighted batching) accepts."""
    pk = M.pk
    new = list(true_new)
    newc = [new[0], CLOSE, new[2], new[3], new[4]]
    dig_c = (digits(new[3] % 2 ** 63),) * 2
    dig_m = (digits(new[4] % 2 ** 63),) * 2
    plans = [("state_close", f, sgn, 3) for f in ("C", "T") for sgn in (-1, 1)]
    i, j = sorted(rng.sample(range(9), 2))
    plans += [("digits_c", "T", -1, (i, j)), ("digits_m", "T", 1, (j % 8, 8)),
              # the second halves of two shown digit signatures moved in opposite directions: each digit's pairing equation fails,
              # their product (a verifier that multiplies the nine pairing checks together without random weights) does not
              ("digits_c", "s2", -1, (j % 8, 8)), ("digits_m", "s2", -1, (i, j)), ("digits_m", "C", -1, (i, j))]
    if run.tier == "quick":
        plans = [plans[0], plans[2], rng.choice(plans[1:2] + plans[3:4]), plans[4], plans[5], plans[6], plans[7], plans[8]]
    for where, f, sgn, arg in plans:
        d = rand_pay_draws(rng)
        delta = rng.choice([1, 990, rand_nz(rng)])

        def shifted(c):
            p = build_pay(M, tok, old, new, newc, old[2], dig_c, dig_m, d, c)
            if where == "state_close":
                E = pk["y1s"][arg] * delta % Q
                p["sp"][f] = (p["sp"][f] + sgn * E) % Q
                p["csp"][f] = (p["csp"][f] + E) % Q
            else:
                key = "cr" if where == "digits_c" else "mr"
                E = (M.rp["pk"]["g2"] * delta % Q) if f != "s2" else delta
                a, b = arg
                p[key][a][f] = (p[key][a][f] + sgn * E) % Q
                p[key][b][f] = (p[key][b][f] + E) % Q
            return p
        h.begin()
        r0 = merchant_allow(h, M, amt, nonce, pay_wire(pts, shifted(1)), ctx, u=rand_nz(rng))
        if r0["chal"] is None:
            h.end()
            continue
        final = shifted(r0["chal"]["c"])
        r1 = merchant_allow(h, M, amt, nonce, pay_wire(pts, final), ctx, u=rand_nz(rng))
        case = {"op": "forgery", "variant": where, "strategy": "e_compensating_%s_%s" % (f, "same" if sgn == 1 else "opposite"),
                "nonce_given": nonce, "amount_given": amt, "old": old, "new": new, "close": newc, "delta": delta, "at": arg,
                "accepted": r1["ok"], "script": h.end()}
        run.case(case)
        run.count("forger e_compensating_errors")
        run.check_monitor("false_statement_rejected", not r1["ok"], case)
        if r1["chal"] is None:
            continue

        def cmp(r, case=case, ok=r1["ok"]):
            run.check_corr("corr.C02.pay_verify", bool(r[0]) == ok, dict(case, model=r[0]))
        batch.add("r_pay_verify pk0 rp0 %s %s %s %s %s %s" % (zlit(M.hr), zlit(M.gr), zlit(nonce), zlit(amt), coq_pproof(final),
                                                              zlit(r1["chal"]["c"])), cmp)


def attempt(run, h, pts, batch, rng, M, M2, tok, old, true_new, nonce, amt, ctx, name, dev, strat):
    pk = M.pk
    new = list(true_new)
    for k in (0, 3, 4):
        if "new%d" % k in dev:
            new[k] = dev["new%d" % k] % Q
    newc = [new[0], CLOSE, new[2], new[3], new[4]]
    for k in (0, 1, 2, 3, 4):
        if "close%d" % k in dev:
            newc[k] = dev["close%d" % k]
    oldm = list(old)
    if "old3" in dev:
        oldm[3] = dev["old3"]
    rev_msg = dev.get("rev", old[2])
    nonce_pub = dev.get("nonce_pub", nonce)
    amount_pub = dev.get("amount_pub", amt)
    t = dev.get("tok", tok)
    if t == "foreign":
        s = (M2.key["x"] + ipq(M2.key["ys"], oldm)) % Q
        a = rand_nz(rng)
        t = (a, a * s % Q)

    def dg(v, key):
        if key in dev:
            return dev[key]
        return (digits(v % 2 ** 63), digits(v % 2 ** 63))
    dig_c, dig_m = dg(new[3], "dig_c"), dg(new[4], "dig_m")
    d = rand_pay_draws(rng)
    o = {}
    if strat == "c_independent_scalars":
        # wherever two linked messages disagree, give the deviating slot its own scalar: only the linking equation fails
        for slot in (0, 3, 4):
            if newc[slot] != new[slot]:
                o[("c", slot)] = rand_nz(rng)
        if new[4] != (oldm[4] + amount_pub) % Q and "new4" in dev and "new3" not in dev:
            pass
        if newc[2] != new[2]:
            o[("c", 2)] = rand_nz(rng)
        if new[0] != oldm[0]:
            o[("s", 0)] = rand_nz(rng); o[("c", 0)] = o[("s", 0)]
        if rev_msg != oldm[2]:
            o[("r", 0)] = rand_nz(rng)
    h.begin()
    draft = build_pay(M, t, oldm, new, newc, rev_msg, dig_c, dig_m, d, 1, o)
    r0 = merchant_allow(h, M, amount_pub, nonce_pub, pay_wire(pts, draft), ctx, u=rand_nz(rng))
    if r0["chal"] is None:
        h.end()
        return
    c = r0["chal"]["c"]
    final = build_pay(M, t, oldm, new, newc, rev_msg, dig_c, dig_m, d, c, o)
    if strat == "d_solve_revealed_scalars":
        final["knonce"] = (final["tok"]["rs"][1] - c * nonce_pub) % Q
        final["kclose"] = (final["csp"]["rs"][1] - c * CLOSE) % Q
    if strat == "d_solve_T":
        # answer as if the statement were true, then fix each T after the challenge
        eps = amount_pub % Q
        kt_ = [(final["tok"]["rs"][i] - c * oldm[i]) % Q for i in range(5)]
        tgt_new = [oldm[0], new[1], new[2], (oldm[3] - eps) % Q, (oldm[4] + eps) % Q]
        tgt_c = [oldm[0], CLOSE, new[2], tgt_new[3], tgt_new[4]]
        ks_ = [kt_[0], d["knn"], d["klock"], kt_[3], kt_[4]]
        kc_ = [kt_[0], d["kclose"], d["klock"], kt_[3], kt_[4]]
        for sub, tgt, kk, bf, kbf in (("sp", tgt_new, ks_, d["bfs"], d["kbfs"]), ("csp", tgt_c, kc_, d["bfc"], d["kbfc"])):
            rs = [(c * m + k) % Q for m, k in zip(tgt, kk)]
            rbf = (c * bf + kbf) % Q
            final[sub]["rs"], final[sub]["rbf"] = rs, rbf
            final[sub]["T"] = (commit_dl(pk["g1"], pk["y1s"], rs, rbf) - c * final[sub]["C"]) % Q
        final["kclose"] = kc_[1]
    u = rand_nz(rng)
    r1 = merchant_allow(h, M, amount_pub, nonce_pub, pay_wire(pts, final), ctx, u=u)
    case = {"op": "forgery", "variant": name, "strategy": strat, "nonce_given": nonce_pub, "amount_given": amount_pub,
            "old": oldm, "new": new, "close": newc, "rev": rev_msg, "accepted": r1["ok"], "script": h.end()}
    run.case(case)
    run.count("forger " + strat)
    run.count("variant " + name)
    run.check_monitor("false_statement_rejected", not r1["ok"], case)
    if r1["chal"] is None:
        return
    c1 = r1["chal"]["c"]

    def cmp(r, case=case, ok=r1["ok"]):
        run.check_corr("corr.C02.pay_verify", bool(r[0]) == ok, dict(case, model=r[0]))
    batch.add("r_pay_verify pk0 rp0 %s %s %s %s %s %s" % (zlit(M.hr), zlit(M.gr), zlit(nonce_pub), zlit(amount_pub), coq_pproof(final), zlit(c1)), cmp)
