"""C17 - balance and amount arithmetic is total, exact and range-preserving."""
from core import *
from abacuslib import *

RULE = ("boundary lattice {0,1,2,2^31,2^32,2^62,2^63-2,2^63-1,2^63,2^63+1,2^64-1} and random 64-bit values for the "
        "constructors and for balance addition (operands delivered through the decoder); (customer balance, merchant "
        "balance, amount) triples over the valid part of the lattice x signed counterparts incl. i64::MIN and random "
        "values, applied through customer::Ready::start on states whose balance bytes were rewritten; honest end-to-end "
        "payments at boundary amounts; i64::MIN injected through the merchant's amount decoder. Every case runs in the "
        "overflow-checking profile (fastdebug) AND in the wrapping profile (release). Non-trivial = the result is an "
        "error or lies on a range boundary; distinct = distinct (op, inputs, profile).")
TRUSTED = ["theorems C17_* by lia over all integers in the 64-bit ranges; Rust integer semantics (overflow panics in the "
           "checking profile, wraps otherwise; `as u64` truncates) are modelled in Model/Amount.v"]
ASSUMPTIONS = ["apply() is private: it is observed through Ready::start (result / error variant / new balances)"]
LAT = [0, 1, 2, 2 ** 31, 2 ** 32, 2 ** 62, 2 ** 63 - 2, 2 ** 63 - 1, 2 ** 63, 2 ** 63 + 1, 2 ** 64 - 1]
I64 = [-2 ** 63, -2 ** 63 + 1, -2 ** 62, -2 ** 32, -2, -1, 0, 1, 2, 2 ** 31, 2 ** 62, 2 ** 63 - 2, 2 ** 63 - 1]
MAX = 2 ** 63 - 1


def ref_result(v):
    return ["ok", str(v)] if v <= MAX else ["error", "AmountTooLarge", str(v)]


def enc_model(r):
    """model encoding -> the same token list as the harness"""
    if r[0] == 1:
        return ["ok"] + [str(x) for x in r[1:]]
    if r[0] == 2:
        return ["error", "AmountTooLarge", str(r[1])]
    if r[0] == 3:
        return ["error", "InsufficientFunds"]
    if r[0] == 8:
        return ["undecodable"]
    return ["panic"]


def call(run, h, prof, case, op, *args):
    st, toks = h.raw(op, *args)
    run.check_monitor("never_panics", st != "panic", dict(case, profile=prof, panic=toks[0] if st == "panic" else None))
    return ["panic"] if st == "panic" else toks


def run(run, h):
    pts = Points(h)
    rng = run.rng
    batch = Batch("C17")
    hrel = Harness(build_harness("release"))
    profiles = [("fastdebug", h, 1), ("release", hrel, 0)]
    nrand = 6 if run.tier == "quick" else 60
    vals = LAT + [rng.randrange(2 ** 64) for _ in range(nrand)]
    for prof, hh, dbg in profiles:
        for v in vals:
            for side in "cm":
                case = {"op": "try_new", "side": side, "v": v}
                got = call(run, hh, prof, case, "bal_try_new", side, v)
                run.case(dict(case, profile=prof), nontrivial=(v >= MAX - 1))
                run.count("try_new")
                run.check_monitor("constructor_exact", got == ref_result(v), dict(case, profile=prof, got=got))
                if dbg and side == "c":
                    batch.add("r_try_new %d" % v, lambda r, got=got, case=case: run.check_corr("corr.C17.try_new", enc_model(r) == got, dict(case, model=r)))
            for kind, sign in (("pay_merchant", 1), ("pay_customer", -1)):
                case = {"op": kind, "v": v}
                got = call(run, hh, prof, case, "amt", kind, v)
                exp = ["ok", str(sign * v)] if v <= MAX else ["error", "AmountTooLarge", str(v)]
                run.case(dict(case, profile=prof), nontrivial=(v >= MAX - 1))
                run.count(kind)
                run.check_monitor("constructor_exact", got == exp, dict(case, profile=prof, got=got))
                if dbg:
                    batch.add("r_%s %d" % (kind, v), lambda r, got=got, case=case: run.check_corr("corr.C17." + case["op"], enc_model(r) == got, dict(case, model=r)))
        pairs = [(a, b) for a in LAT for b in LAT] if run.tier == "thorough" else [(rng.choice(LAT), rng.choice(LAT)) for _ in range(40)]
        pairs += [(MAX, MAX), (MAX, 1), (0, 0), (2 ** 64 - 1, 1)]
        for mb, cb in pairs:
            case = {"op": "try_add", "mb": mb, "cb": cb}
            got = call(run, hh, prof, case, "bal_try_add", mb, cb)
            if mb > MAX or cb > MAX:
                exp = ["undecodable"]
            else:
                exp = ref_result(mb + cb)
            run.case(dict(case, profile=prof), nontrivial=(mb + cb >= MAX))
            run.count("try_add")
            run.check_monitor("addition_exact_and_range_preserving", got == exp, dict(case, profile=prof, got=got))
            batch.add("r_try_add %d %d %d" % (dbg, mb, cb),
                      lambda r, got=got, case=case, prof=prof: run.check_corr("corr.C17.try_add", enc_model(r) == got, dict(case, profile=prof, model=r)))
    # ---- payment application through Ready::start on states with rewritten balances
    M = make_merchant(h, pts, rng)
    est = full_establish(h, M, rng, rng.randbytes(32), 5, 5, b"c17")
    if not run.check_monitor("honest_establish_accepted", est["ok"], {}):
        return
    ready = bytes.fromhex(est["ready"])
    valid = [v for v in LAT if v <= MAX]
    triples = [(cb, mb, a) for cb in valid for mb in valid for a in I64]
    if run.tier == "quick":
        triples = rng.sample(triples, 70)
    triples += [(rng.randrange(2 ** 63), rng.randrange(2 ** 63), rng.randrange(-2 ** 63, 2 ** 63)) for _ in range(10 if run.tier == "quick" else 100)]
    for prof, hh, dbg in profiles:
        sub = triples if prof == "fastdebug" else triples[::3]
        for cb, mb, a in sub:
            rb = ready[:129] + mb.to_bytes(8, "little") + cb.to_bytes(8, "little") + ready[145:]
            case = {"op": "apply", "cb": cb, "mb": mb, "amount": a}
            hh.rng(1)
            got = call(run, hh, prof, case, "ready_start", rb.hex(), a, "-", M.cconfig)
            ncb, nmb = cb - a, mb + a
            if ncb < 0:
                exp = ["error", "InsufficientFunds"]
            elif ncb > MAX:
                exp = ["error", "AmountTooLarge", str(ncb)]
            elif nmb < 0:
                exp = ["error", "InsufficientFunds"]
            elif nmb > MAX:
                exp = ["error", "AmountTooLarge", str(nmb)]
            else:
                exp = ["ok", str(ncb), str(nmb)]
            if got[0] == "ok":
                stt = parse_started(got[1])
                obs = ["ok", str(stt["new"]["cb"]), str(stt["new"]["mb"])]
                unchanged = stt["old"]["cb"] == cb and stt["old"]["mb"] == mb
            elif got[0] == "refused":
                obs = ["error"] + got[2:]
                unchanged = got[1] == rb.hex()
            else:
                obs, unchanged = got, True
            run.case(dict(case, profile=prof), nontrivial=(exp[0] != "ok" or ncb in (0, MAX) or nmb in (0, MAX)))
            run.count("apply " + exp[0] + (" " + exp[1] if exp[0] == "error" else ""))
            run.check_monitor("payment_application_exact_total_and_documented_error", obs == exp, dict(case, profile=prof, got=obs, expect=exp))
            run.check_monitor("refused_payment_leaves_state_unchanged", unchanged, dict(case, profile=prof))
            if dbg:
                batch.add("r_apply %d %d %s" % (cb, mb, zlit(a)),
                          lambda r, obs=obs, case=case: run.check_corr("corr.C17.apply_payment", enc_model(r) == obs, dict(case, model=r)))
    # ---- scalar encoding on both sides: honest end-to-end payments at boundary amounts, both profiles
    ends = [(MAX, 0, MAX), (0, MAX, -MAX), (MAX, 0, 0), (1, 1, 1), (2 ** 62, 2 ** 62 - 1, -(2 ** 62)), (5, MAX - 5, 5)]
    if run.tier == "thorough":
        ends += [(rng.randrange(2 ** 62), rng.randrange(2 ** 62), rng.randrange(-2 ** 40, 2 ** 40)) for _ in range(6)]
    for prof, hh, dbg in profiles:
        Mx = M if hh is h else make_merchant(hh, Points(hh), rng)
        for cb, mb, a in (ends if dbg else ends[:3]):
            if not (0 <= cb - a <= MAX and 0 <= mb + a <= MAX):
                continue
            e2 = full_establish(hh, Mx, rng, rng.randbytes(32), cb, mb, b"b")
            r = pay_once(hh, Mx, rng, e2["ready"], a, b"pay") if e2["ok"] else {"ok": False, "stage": "establish"}
            case = {"op": "honest_boundary_payment", "cb": cb, "mb": mb, "amount": a, "profile": prof}
            run.case(case)
            run.count("end-to-end boundary payment")
            ok = r["ok"]
            if ok:
                st = parse_ready(r["ready"])["state"]
                ok = st["cb"] == cb - a and st["mb"] == mb + a
            run.check_monitor("boundary_payment_accepted_with_exact_balances", ok, dict(case, stage=r.get("stage")))
        # the amount's scalar encoding as the verifier sees it: an honest proof for amount a is accepted for a and refused for
        # every other decodable amount a' - in particular at the extremes, where a clamped or wrapped magnitude would make two
        # wire amounts share one scalar (a = -(2^63-1) vs i64::MIN; a = 2^63-1 vs 2^63-2)
        for cb, mb, a, others in ((0, MAX, -MAX, (-2 ** 63, -MAX + 1)), (MAX, 0, MAX, (MAX - 1, -MAX, -2 ** 63))):
            e4 = full_establish(hh, Mx, rng, rng.randbytes(32), cb, mb, b"x")
            if not e4["ok"]:
                continue
            hh.rng(rng.randrange(2 ** 31))
            t4 = hh.call("ready_start", e4["ready"], a, "-", Mx.cconfig)
            case = {"op": "extreme_amount_binding", "cb": cb, "mb": mb, "amount": a, "profile": prof}
            run.case(case)
            run.count("extreme amount binding")
            if not run.check_monitor("boundary_payment_accepted_with_exact_balances", t4[0] == "ok", dict(case, stage="start")):
                continue
            hh.rng(6)
            own = call(run, hh, prof, case, "m_allow", Mx.handle, a, t4[2], t4[3], "-")
            run.check_monitor("proof_accepted_for_its_own_amount", own[0] == "1", dict(case, got=own))
            for a2 in others:
                hh.rng(6)
                got2 = call(run, hh, prof, dict(case, other=a2), "m_allow", Mx.handle, a2, t4[2], t4[3], "-")
                run.check_monitor("proof_refused_for_any_other_wire_amount", got2[0] == "0", dict(case, other_amount=a2, got=got2))
        # i64::MIN through the merchant's decoder (D4)
        e3 = full_establish(hh, Mx, rng, rng.randbytes(32), 10, 10, b"m")
        hh.rng(5)
        t = hh.call("ready_start", e3["ready"], 0, "-", Mx.cconfig)
        case = {"op": "allow_payment_amount_i64_min", "profile": prof}
        got = call(run, hh, prof, case, "m_allow", Mx.handle, -2 ** 63, t[2], t[3], "-")
        run.case(case)
        run.check_monitor("decoded_extreme_amount_is_refused_not_crashing", got[0] == "0", dict(case, got=got))
    for a in I64 + [rng.randrange(-2 ** 63, 2 ** 63) for _ in range(5)]:
        batch.add("r_amount_scalar %s" % zlit(a), lambda r, a=a: run.check_corr("corr.C17.amount_scalar_is_reduction", r[0] == a % Q, {"a": a, "model": r}))
    batch.flush()
    hrel.close()
