"""C12 - challenges bind every first-message element and match for prover and verifier."""
from core import *
from pslib import *
from schnorrlib import *
from rangelib import *
from abacuslib import *

RULE = ("library level: every ChallengeInput type (scalar, G1/G2 element, signature, commitment, Pedersen parameters, public "
        "key, commitment / signature / signature-request proof, range parameters, range constraint) for N in {1,2,3,5,8,13,17,34}: "
        "the chunks recorded by the hook are compared with the model's chunk list and with SHA3 of their concatenation, "
        "then every atom of the object's wire form is replaced in turn (every one in thorough; all key / proof atoms and a "
        "sample of the 256 range-parameter signature atoms in quick). zkAbacus level: for an honest establish proof and an "
        "honest pay proof, every atom of the proof bytes, each public value, each context byte position (32) and each key "
        "/ parameter atom is replaced and the challenge the merchant derives is read through the hook. Non-trivial = every "
        "replacement; distinct = distinct digest.")
TRUSTED = ["theorems C12_* (list injectivity, no field assumptions); hook = feature verif-hooks (chunk recorder)"]
ASSUMPTIONS = ["'the challenge changes' is established as 'the hashed byte string changes' (theorems + monitor on the real "
               "digest); that SHA3-256 maps different strings to different scalars is collision resistance, not proved"]
NS = [1, 2, 3, 5, 8, 13, 17, 34]


def atoms_of(layout, hexs):
    """layout: list of (kind, hashed) with kind in g1,g2,s,len -> list of (offset_hex, len_hex, kind, hashed)"""
    out, o = [], 0
    for kind, hashed in layout:
        l = {"g1": 96, "g2": 192, "s": 64, "len": 16, "u64": 16}[kind]
        out.append((o, l, kind, hashed))
        o += l
    assert o == len(hexs), (o, len(hexs))
    return out


def mutate(pts, rng, hexs, atom):
    o, l, kind, _ = atom
    if kind == "g1":
        new = pts.g1(rand_nz(rng))
    elif kind == "g2":
        new = pts.g2(rand_nz(rng))
    else:
        new = sc(unsc(hexs[o:o + l]) + 1)
    return hexs[:o] + new + hexs[o + l:]


def lay_pk(n):
    return [("g1", True), ("len", None)] + [("g1", True)] * n + [("g2", True), ("g2", True), ("len", None)] + [("g2", True)] * n


def lay_cp(g, n):
    k = "g1" if g == 1 else "g2"
    return [(k, True), (k, True), ("s", False), ("len", None)] + [("s", False)] * n


def lay_sp(n):
    return [("g1", True), ("g1", True)] + lay_cp(2, n)


def lay_ped(g, n):
    k = "g1" if g == 1 else "g2"
    return [(k, True), ("len", None)] + [(k, True)] * n


def run(run, h):
    pts = Points(h)
    rng = run.rng
    batch = Batch("C12")
    std = Basis(h, pts)
    rp = make_rparams(h, pts, rng)
    batch.define("rp0", coq_rp(rp))
    for n in NS:
        library_objects(run, h, pts, batch, rng, std, rp, n)
    M = make_merchant(h, pts, rng)
    establish_level(run, h, pts, batch, rng, M)
    pay_level(run, h, pts, batch, rng, M)
    batch.flush()


def challenge_of(h, item, ctx):
    h.call("chal_drain")
    c = unsc(h.call("chal", item, "b:" + hx(ctx))[0])
    log = h.chal_log()
    digest, chunks = log[-1]
    return c, [x.hex() for x in chunks], digest


def probe(run, h, pts, batch, rng, name, kind, hexs, layout, model_term, sample=None):
    ctx = rng.randbytes(5)
    h.begin()
    c0, chunks, digest = challenge_of(h, "%s:%s" % (kind, hexs), ctx)
    case = {"level": "library", "type": name, "script": h.end()}
    run.case(case, nontrivial=False)
    run.count("type " + name.split("<")[0])
    run.check_corr("corr.C12.challenge_is_reduced_sha3_of_chunks",
                   sha3(b"".join(bytes.fromhex(x) for x in chunks)) == digest and chal_of_digest(digest) == c0, case)
    # the challenge recomputed by the Gallina SHA3-256 and the model's digest -> scalar reduction (Model/Sha3.v, Model/Ids.v)
    data = b"".join(bytes.fromhex(x) for x in chunks)
    if len(data) <= (2000 if run.tier == "quick" else 20000):
        def cmp_sha(r, case=case, c0=c0):
            run.check_corr("corr.C12.challenge_is_gallina_sha3_of_chunks_reduced_mod_q", r == [c0], dict(case, model=r))
        batch.add("r_sha3_challenge %s" % zlist(list(data)), cmp_sha)
        run.count("challenge recomputed with the Gallina SHA3")
    if model_term:
        def cmp(r, case=case, chunks=chunks, ctx=ctx):
            run.check_corr("corr.C12.chunks_of_" + name.split("<")[0], "".join(concretize_atoms(pts, r) + [ctx.hex()]) == "".join(chunks),
                           dict(case, recorded=len(chunks)))
        batch.add(model_term, cmp)
    atoms = [a for a in atoms_of(layout, hexs) if a[3] is not None]
    if sample is not None and len(atoms) > sample:
        atoms = rng.sample(atoms, sample)
    for a in atoms:
        h.begin()
        c1, _, _ = challenge_of(h, "%s:%s" % (kind, mutate(pts, rng, hexs, a)), ctx)
        ac = {"level": "library", "type": name, "atom_offset": a[0] // 2, "atom": a[2], "hashed": a[3], "script": h.end()}
        run.case(ac)
        if a[3]:
            run.check_monitor("first_message_atom_changes_challenge", c1 != c0, ac)
        else:
            run.check_corr("corr.C12.response_scalars_are_not_hashed", c1 == c0, ac)
    # context bytes
    c2, _, _ = challenge_of(h, "%s:%s" % (kind, hexs), ctx + b"\x00")
    run.check_monitor("context_changes_challenge", c2 != c0, case)


def library_objects(run, h, pts, batch, rng, std, rp, n):
    key = make_key(std, rng, n)
    pk = key["pk"]
    probe(run, h, pts, batch, rng, "PublicKey<%d>" % n, "pk%d" % n, key["pk_hex"], lay_pk(n), "r_chunks_pk %s" % coq_pk(pk))
    for g in (1, 2):
        hd, gd = rand_nz(rng), [rand_nz(rng) for _ in range(n)]
        ph = pts.g(g, hd) + le8(n) + "".join(pts.many(g, gd))
        probe(run, h, pts, batch, rng, "PedersenParameters<G%d,%d>" % (g, n), "ped%d_%d" % (g, n), ph, lay_ped(g, n),
              "r_chunks_ped %d %s %s" % (g, zlit(hd), zlist(gd)))
        p = craft_cp(hd, gd, [rand_nz(rng) for _ in range(n)], rand_nz(rng), rand_nz(rng), [rand_nz(rng) for _ in range(n)], rand_nz(rng))
        wire = cp_bytes(pts.g(g, p["C"]), pts.g(g, p["T"]), p["rbf"], p["rs"])
        probe(run, h, pts, batch, rng, "CommitmentProof<G%d,%d>" % (g, n), "cp%d_%d" % (g, n), wire, lay_cp(g, n),
              "r_chunks_cp %d %s" % (g, zlist([p["C"], p["T"], p["rbf"]] + p["rs"])))
    p = craft_cp(pk["g1"], pk["y1s"], [rand_nz(rng) for _ in range(n)], rand_nz(rng), rand_nz(rng), [rand_nz(rng) for _ in range(n)], rand_nz(rng))
    wire = cp_bytes(pts.g1(p["C"]), pts.g1(p["T"]), p["rbf"], p["rs"])
    probe(run, h, pts, batch, rng, "SignatureRequestProof<%d>" % n, "srp%d" % n, wire, lay_cp(1, n),
          "r_chunks_cp 1 %s" % zlist([p["C"], p["T"], p["rbf"]] + p["rs"]))
    p = craft_cp(pk["g2"], pk["y2s"], [rand_nz(rng) for _ in range(n)], rand_nz(rng), rand_nz(rng), [rand_nz(rng) for _ in range(n)], rand_nz(rng))
    s1, s2 = rand_nz(rng), rand_nz(rng)
    wire = sp_bytes(pts.g1(s1), pts.g1(s2), pts.g2(p["C"]), pts.g2(p["T"]), p["rbf"], p["rs"])
    probe(run, h, pts, batch, rng, "SignatureProof<%d>" % n, "sp%d" % n, wire, lay_sp(n),
          "r_chunks_sp %s" % zlist([s1, s2, p["C"], p["T"], p["rbf"]] + p["rs"]))
    if n == 1:
        probe(run, h, pts, batch, rng, "Signature", "sig", pts.g1(s1) + pts.g1(s2), [("g1", True), ("g1", True)],
              "r_chunks_sig %s %s" % (zlit(s1), zlit(s2)))
        probe(run, h, pts, batch, rng, "Scalar", "s", sc(s1), [("s", True)], None)
        probe(run, h, pts, batch, rng, "G1Affine", "g1", pts.g1(s1), [("g1", True)], None)
        probe(run, h, pts, batch, rng, "G2Projective", "g2p", pts.g2(s1), [("g2", True)], None)
        probe(run, h, pts, batch, rng, "Commitment<G1>", "com1", pts.g1(s2), [("g1", True)], None)
        probe(run, h, pts, batch, rng, "Commitment<G2>", "com2", pts.g2(s2), [("g2", True)], None)
        # range parameters and a range constraint
        lay = [("g1", True)] * 256 + lay_pk(1)
        probe(run, h, pts, batch, rng, "RangeConstraintParameters", "rp", rp["hex"], lay, "r_chunks_rp rp0",
              sample=(24 if run.tier == "quick" else None))
        c = rand_nz(rng)
        dps = []
        for j in range(9):
            d = rng.randrange(128)
            a1, a2 = rp["sigs"][d]
            bf, kbf, k, r = (rand_nz(rng) for _ in range(4))
            cp = craft_cp(rp["pk"]["g2"], rp["pk"]["y2s"], [d], bf, kbf, [k], c)
            dps.append(dict(cp, s1=a1 * r % Q, s2=(a2 + a1 * bf) * r % Q))
        wire = "".join(sp_bytes(pts.g1(d["s1"]), pts.g1(d["s2"]), pts.g2(d["C"]), pts.g2(d["T"]), d["rbf"], d["rs"]) for d in dps)
        probe(run, h, pts, batch, rng, "RangeConstraint", "rc", wire, lay_sp(1) * 9,
              "r_chunks_range [%s]" % "; ".join(zlist([d["s1"], d["s2"], d["C"], d["T"], d["rbf"]] + d["rs"]) for d in dps))


# ---------------------------------------------------------------------------------------------
def lay_eproof():
    return [("s", True)] * 4 + lay_cp(1, 5) + lay_cp(1, 5)


def lay_pproof():
    return [("s", True)] * 2 + lay_sp(5) + lay_cp(1, 1) + lay_cp(1, 5) + lay_cp(1, 5) + lay_sp(1) * 18


def modified_merchant(h, pts, rng, M, which, j=0):
    """a merchant configuration differing from M in one public key / parameter atom"""
    kp = M.key["kp_hex"]
    rev, rph = M.rev_hex, M.rp["hex"]
    if which == "pk":
        lay = [("s", None), ("len", None)] + [("s", None)] * 5 + [("g1", None)] + lay_pk(5)
        atoms = [a for a in atoms_of(lay, kp) if a[0] >= (32 + 8 + 160 + 48) * 2 and a[2] in ("g1", "g2")]
        kp = mutate(pts, rng, kp, atoms[j % len(atoms)])
    elif which == "rp":
        lay = [("g1", True)] * 256 + lay_pk(1)
        atoms = [a for a in atoms_of(lay, rph) if a[2] in ("g1", "g2")]
        rph = mutate(pts, rng, rph, atoms[j % len(atoms)])
    return h.call("m_from_parts", kp, rev, rph)[0]


def establish_level(run, h, pts, batch, rng, M):
    cid, cb, mb, ctx = rng.randbytes(32), 10, 1000, rng.randbytes(32)
    e = establish_request(h, M, cid, cb, mb, ctx, [rand_nz(rng) for _ in range(12)])
    base = merchant_init(h, M, cid, cb, mb, e["proof_hex"], ctx, u=1)
    c0 = base["chal"]["c"]
    case0 = {"level": "establish", "cid": cid.hex(), "cb": cb, "mb": mb, "ctx": ctx.hex()}
    run.check_monitor("prover_and_verifier_challenges_match", base["ok"] and e["chal"]["c"] == c0, case0)
    data = b"".join(bytes.fromhex(x) for x in base["chal"]["chunks"])

    def cmp_sha(r, case=case0, c0=c0):
        run.check_corr("corr.C12.challenge_is_gallina_sha3_of_chunks_reduced_mod_q", r == [c0], dict(case, model=r))
    batch.add("r_sha3_challenge %s" % zlist(list(data)), cmp_sha)
    run.count("challenge recomputed with the Gallina SHA3")

    def init_chal(handle, cid_, cb_, mb_, proof, ctx_):
        h.call("chal_drain")
        h.rng(1)
        h.call("m_init", handle, cid_.hex(), cb_, mb_, proof, hx(ctx_))
        return last_challenge(h)["c"]
    for a in atoms_of(lay_eproof(), e["proof_hex"]):
        if a[3] is None:
            continue
        h.begin()
        c1 = init_chal(M.handle, cid, cb, mb, mutate(pts, rng, e["proof_hex"], a), ctx)
        ac = dict(case0, atom_offset=a[0] // 2, atom=a[2], hashed=a[3], script=h.end())
        run.case(ac)
        run.count("establish proof atom")
        if a[3]:
            run.check_monitor("establish_nonresponse_field_changes_challenge", c1 != c0, ac)
        else:
            run.check_corr("corr.C12.response_scalars_are_not_hashed", c1 == c0, ac)
    cid2 = bytes([cid[0] ^ 1]) + cid[1:]
    for nm, args in (("cid", (cid2, cb, mb, ctx)), ("cb", (cid, cb + 1, mb, ctx)), ("mb", (cid, cb, mb - 1, ctx))):
        c1 = init_chal(M.handle, args[0], args[1], args[2], e["proof_hex"], args[3])
        pc = dict(case0, public_value=nm)
        run.case(pc)
        run.check_monitor("public_value_changes_challenge", c1 != c0, pc)
    for i in range(32):
        ctx2 = ctx[:i] + bytes([ctx[i] ^ (1 << rng.randrange(8))]) + ctx[i + 1:]
        c1 = init_chal(M.handle, cid, cb, mb, e["proof_hex"], ctx2)
        pc = dict(case0, context_byte=i)
        run.case(pc)
        run.count("context byte")
        run.check_monitor("context_changes_challenge", c1 != c0, pc)
    for j in range(13):
        m2 = modified_merchant(h, pts, rng, M, "pk", j)
        c1 = init_chal(m2, cid, cb, mb, e["proof_hex"], ctx)
        pc = dict(case0, key_atom=j)
        run.case(pc)
        run.count("key atom")
        run.check_monitor("key_atom_changes_challenge", c1 != c0, pc)


def pay_level(run, h, pts, batch, rng, M):
    est = full_establish(h, M, rng, rng.randbytes(32), 500, 50, b"e")
    if not run.check_monitor("honest_establish_accepted", est["ok"], {}):
        return
    ctx = rng.randbytes(32)
    amt = 7
    h.call("chal_drain")
    h.rng(rng.randrange(2 ** 31))
    t = h.call("ready_start", est["ready"], amt, hx(ctx), M.cconfig)
    started, nonce_hex, proof_hex = t[1], t[2], t[3]
    cprover = last_challenge(h)["c"]
    nonce = unsc(nonce_hex)

    def allow_chal(handle, amount, nonce_, proof, ctx_):
        h.call("chal_drain")
        h.rng(1)
        tt = h.call("m_allow", handle, amount, sc(nonce_), proof, hx(ctx_))
        return last_challenge(h)["c"], tt[0]
    c0, ok0 = allow_chal(M.handle, amt, nonce, proof_hex, ctx)
    case0 = {"level": "pay", "amount": amt, "ctx": ctx.hex()}
    run.check_monitor("prover_and_verifier_challenges_match", ok0 == "1" and cprover == c0, case0)
    atoms = [a for a in atoms_of(lay_pproof(), proof_hex) if a[3] is not None]
    if run.tier == "quick":
        head = [a for a in atoms if a[0] < (64 + 488 + 168 + 592) * 2]
        tail = [a for a in atoms if a[0] >= (64 + 488 + 168 + 592) * 2]
        atoms = head + rng.sample(tail, 24)
    for a in atoms:
        h.begin()
        c1, _ = allow_chal(M.handle, amt, nonce, mutate(pts, rng, proof_hex, a), ctx)
        ac = dict(case0, atom_offset=a[0] // 2, atom=a[2], hashed=a[3], script=h.end())
        run.case(ac)
        run.count("pay proof atom")
        if a[3]:
            run.check_monitor("pay_nonresponse_field_changes_challenge", c1 != c0, ac)
        else:
            run.check_corr("corr.C12.response_scalars_are_not_hashed", c1 == c0, ac)
    c1, _ = allow_chal(M.handle, amt, (nonce + 1) % Q, proof_hex, ctx)
    run.check_monitor("public_value_changes_challenge", c1 != c0, dict(case0, public_value="nonce"))
    # the amount is NOT fed to the challenge (it is bound by the two balance equations, see C06): boundary documented
    c1, _ = allow_chal(M.handle, amt + 1, nonce, proof_hex, ctx)
    run.check_corr("corr.C12.amount_is_bound_by_equations_not_by_hash", c1 == c0, dict(case0, public_value="amount"))
    for i in (range(32) if run.tier == "thorough" else sorted(rng.sample(range(32), 8))):
        ctx2 = ctx[:i] + bytes([ctx[i] ^ (1 << rng.randrange(8))]) + ctx[i + 1:]
        c1, _ = allow_chal(M.handle, amt, nonce, proof_hex, ctx2)
        run.case(dict(case0, context_byte=i))
        run.check_monitor("context_changes_challenge", c1 != c0, dict(case0, context_byte=i))
    for j in (range(13) if run.tier == "thorough" else rng.sample(range(13), 4)):
        m2 = modified_merchant(h, pts, rng, M, "pk", j)
        c1, _ = allow_chal(m2, amt, nonce, proof_hex, ctx)
        run.case(dict(case0, key_atom=j))
        run.check_monitor("key_atom_changes_challenge", c1 != c0, dict(case0, key_atom=j))
    for j in (range(0, 263, 7) if run.tier == "thorough" else rng.sample(range(263), 5)):
        m2 = modified_merchant(h, pts, rng, M, "rp", j)
        c1, _ = allow_chal(m2, amt, nonce, proof_hex, ctx)
        run.case(dict(case0, range_param_atom=j))
        run.check_monitor("range_parameter_atom_changes_challenge", c1 != c0, dict(case0, range_param_atom=j))
