"""C09 - commitments are the exact Pedersen map and open only to what was committed."""
from core import *

RULE = ("for G in {G1,G2}, N in {1,2,3,5,8,13,17,34}: parameters with known discrete logs (distinct / small / duplicate / "
        "identity generator, through from_generators), generated parameters and key-derived parameters; messages and "
        "blinding factors over the edge set {0,1,2,q-1,q-2,2^63-1,2^63,2^64-1,CLOSE,(q-1)/2} and random; every "
        "single-coordinate perturbation, wrong blinding factor, wrong commitment; additivity. A case is non-trivial "
        "when its message has a non-zero coordinate or its opening was perturbed; distinct = distinct digest of the inputs.")
TRUSTED = ["theorems C09_* are over an arbitrary field; correspondence ops: ped_commit, ped_open, ped_from, ped_new, pk_ped"]
ASSUMPTIONS = ["bls12_381 group arithmetic and point codecs are correct (the comparator multiplies generators with it)"]
NS = [1, 2, 3, 5, 8, 13, 17, 34]


def params_bytes(h, grp, n, hdl, gdls, pts):
    return h.call("ped_from", grp, n, pts.g(grp, hdl), "".join(pts.many(grp, gdls)))[0]


def gen_dls(rng, n, mode):
    if mode == "small":
        return 3, [5 + 2 * i for i in range(n)]
    hdl = rand_nz(rng)
    g = [rand_nz(rng) for _ in range(n)]
    if mode == "dup" and n >= 2:
        g[-1] = g[0]
    if mode == "idgen":
        g[rng.randrange(n)] = 0
    if mode == "idh":
        hdl = 0
    return hdl, g


def run(run, h):
    pts = Points(h)
    rng = run.rng
    batch = Batch("C09")
    rounds = 2 if run.tier == "quick" else 20
    modes = ["rand", "small", "dup", "idgen", "idh"]
    for grp in (1, 2):
        for n in NS:
            for rd in range(rounds):
                for mode in (modes if rd == 0 else [rng.choice(modes)]):
                    known_case(run, h, pts, batch, rng, grp, n, mode)
            for special in ("all_zero", "all_one", "all_minus_one", "solved_identity", "solved_h", "message_part_cancels", "bit_patterns", "bit_patterns",
                            "zero_blinding_factor", "zero_message_nonzero_bf") + tuple(rng.sample(SHAPES, 3 if run.tier == "quick" else len(SHAPES))):
                known_case(run, h, pts, batch, rng, grp, n, "rand", special)
            generated_case(run, h, pts, rng, grp, n)
            key_params_case(run, h, rng, grp, n)
    batch.flush()


def known_case(run, h, pts, batch, rng, grp, n, mode, special=None):
    hdl, gdls = gen_dls(rng, n, mode)
    ms = [rand_scalar(rng, 0.5) for _ in range(n)]
    bf = rand_scalar(rng, 0.4)
    # degenerate commitments (the quantifier's entries 0 / 1 / q-1 in every position at once, and - possible only because
    # the generators' discrete logs are known - openings solved so that the commitment is the identity element or h itself)
    if special == "all_zero":
        ms, bf = [0] * n, 0
    elif special == "all_one":
        ms, bf = [1] * n, 1
    elif special == "all_minus_one":
        ms, bf = [Q - 1] * n, Q - 1
    elif special == "solved_identity":
        bf = (-sum(g * m for g, m in zip(gdls, ms)) * pow(hdl, -1, Q)) % Q
    elif special == "solved_h":
        bf = (1 - sum(g * m for g, m in zip(gdls, ms)) * pow(hdl, -1, Q)) % Q
    elif special == "zero_blinding_factor":
        bf = 0
        ms = [m if m else 1 for m in ms]
    elif special == "zero_message_nonzero_bf":
        ms, bf = [0] * n, rand_nz(rng)
    elif special in SHAPES:
        ms = shaped_tuple(rng, n, special)
        bf = rng.choice([bf, rng.randrange(2 ** 63, 2 ** 64), rng.randrange(128), 2 ** 32 + rng.randrange(-2, 3)])
    elif special == "bit_patterns":
        ms, bf = [rng.choice(PATTERNS) for _ in range(n)], rng.choice(PATTERNS)
    elif special == "message_part_cancels":
        j = rng.randrange(n)
        ms[j] = 0
        ms[j] = (-sum(g * m for g, m in zip(gdls, ms)) * pow(gdls[j], -1, Q)) % Q
        bf = rng.choice([0, bf])
    if special:
        mode = mode + "/" + special
    h.begin()
    params = params_bytes(h, grp, n, hdl, gdls, pts)
    com_ser, com_el = h.call("ped_commit", grp, n, params, scs(ms), sc(bf))
    case = {"op": "commit", "G": grp, "N": n, "mode": mode, "h": hdl, "gs": gdls, "ms": ms, "bf": bf}
    run.count("commit G%d N%d" % (grp, n))
    run.count("mode " + mode)
    run.case(case, nontrivial=any(m % Q for m in ms))
    # monitor: independent accumulation on the curve
    acc_args = [pts.g(grp, hdl), sc(bf)]
    for g, m in zip(gdls, ms):
        acc_args += [pts.g(grp, g), sc(m)]
    acc = h.call("g%dlin" % grp, *acc_args)[0]
    script = h.end()
    case["script"] = script
    run.check_monitor("commit_is_pedersen_map", acc == com_el and com_ser == com_el, dict(case, got=com_el, independent=acc))

    def cmp_commit(r, case=case, com_el=com_el):
        run.check_corr("corr.C09.commit", pts.g(grp, r[0]) == com_el, dict(case, model_dl=r[0], impl=com_el))
    batch.add("r_commit %s %s %s %s" % (zlit(hdl), zlist(gdls), zlist(ms), zlit(bf)), cmp_commit)
    cdl = (hdl * bf + sum(g * m for g, m in zip(gdls, ms))) % Q  # only used to phrase model queries below

    def opening(kind, c_hex, c_dl, bf2, ms2, must=None):
        h.begin()
        got = h.call("ped_open", grp, n, params, c_hex, sc(bf2), scs(ms2))[0] == "1"
        oc = {"op": "open", "kind": kind, "G": grp, "N": n, "h": hdl, "gs": gdls, "c": c_dl, "bf": bf2, "ms": ms2,
              "impl": got, "script": h.end()}
        run.case(oc)
        run.count("open " + kind)
        if must is not None:
            run.check_monitor("opening_" + kind, got == must, oc)

        def cmp_open(r, oc=oc, got=got):
            run.check_corr("corr.C09.verify_opening", bool(r[0]) == got, dict(oc, model=r[0]))
        batch.add("r_open %s %s %s %s %s" % (zlit(hdl), zlist(gdls), zlit(c_dl), zlit(bf2), zlist(ms2)), cmp_open)

    opening("original", com_el, cdl, bf, ms, must=True)
    coords = pick_coords(rng, n, 4, run.tier == "thorough")
    for j in coords:
        delta = rng.choice([1, Q - 1, rng.randrange(1, Q)])
        ms2 = list(ms)
        ms2[j] = (ms[j] + delta) % Q
        opening("coordinate_changed", com_el, cdl, bf, ms2, must=(False if gdls[j] % Q else True))
    bf2 = (bf + rng.choice([1, Q - 1, rng.randrange(1, Q)])) % Q
    opening("wrong_bf", com_el, cdl, bf2, ms, must=(False if hdl % Q else True))
    other = (cdl + rng.randrange(1, Q)) % Q
    opening("wrong_commitment", pts.g(grp, other), other, bf, ms, must=False)
    # additivity
    ms_b = [rand_scalar(rng, 0.3) for _ in range(n)]
    bf_b = rand_scalar(rng, 0.3)
    h.begin()
    cb = h.call("ped_commit", grp, n, params, scs(ms_b), sc(bf_b))[1]
    cs = h.call("ped_commit", grp, n, params, scs([(a + b) % Q for a, b in zip(ms, ms_b)]), sc(bf + bf_b))[1]
    summed = h.call("g%dlin" % grp, com_el, sc(1), cb, sc(1))[0]
    ac = {"op": "add", "G": grp, "N": n, "h": hdl, "gs": gdls, "ms": ms, "bf": bf, "ms2": ms_b, "bf2": bf_b,
          "script": h.end()}
    run.case(ac)
    run.check_monitor("commit_homomorphic", summed == cs, ac)


def split_params(grp, n, params_hex):
    b = bytes.fromhex(params_hex)
    l = 48 if grp == 1 else 96
    return b[:l].hex(), [b[l + 8 + i * l:l + 8 + (i + 1) * l].hex() for i in range(n)]


def generated_case(run, h, pts, rng, grp, n):
    seed = rng.randrange(2 ** 32)
    h.begin()
    h.rng(seed)
    params = h.call("ped_new", grp, n)[0]
    hp, gps = split_params(grp, n, params)
    ms = [rand_scalar(rng, 0.5) for _ in range(n)]
    bf = rand_scalar(rng, 0.4)
    com = h.call("ped_commit", grp, n, params, scs(ms), sc(bf))[1]
    args = [hp, sc(bf)]
    for g, m in zip(gps, ms):
        args += [g, sc(m)]
    acc = h.call("g%dlin" % grp, *args)[0]
    ok0 = h.call("ped_open", grp, n, params, com, sc(bf), scs(ms))[0] == "1"
    j = rng.randrange(n)
    ms2 = list(ms)
    ms2[j] = (ms[j] + 1) % Q
    ok1 = h.call("ped_open", grp, n, params, com, sc(bf), scs(ms2))[0] == "1"
    ok2 = h.call("ped_open", grp, n, params, com, sc(bf + 1), scs(ms))[0] == "1"
    redecode = h.call("decode", "PedersenG%d@%d" % (grp, n), params)
    case = {"op": "generated", "G": grp, "N": n, "rng_seed": seed, "ms": ms, "bf": bf, "script": h.end()}
    run.case(case)
    run.count("generated G%d" % grp)
    run.check_monitor("commit_is_pedersen_map", acc == com, dict(case, got=com, independent=acc))
    run.check_monitor("opening_original", ok0, case)
    run.check_monitor("opening_coordinate_changed", not ok1, case)
    run.check_monitor("opening_wrong_bf", not ok2, case)
    run.check_monitor("generated_params_decode", redecode[0] == "ok" and redecode[1] == params, case)


def key_params_case(run, h, rng, grp, n):
    seed = rng.randrange(2 ** 32)
    h.begin()
    h.rng(seed)
    kp = bytes.fromhex(h.call("kp_new", n)[0])
    pk = kp[32 + 8 + 32 * n + 48:]
    params = h.call("pk_ped", grp, n, pk.hex())[0]
    g1 = pk[:48]
    y1s = pk[56:56 + 48 * n]
    o = 56 + 48 * n
    g2 = pk[o:o + 96]
    y2s = pk[o + 192 + 8:]
    expect = (g1 + n.to_bytes(8, "little") + y1s) if grp == 1 else (g2 + n.to_bytes(8, "little") + y2s)
    case = {"op": "pk_params", "G": grp, "N": n, "rng_seed": seed, "script": h.end()}
    run.case(case)
    run.check_corr("corr.C09.pk_params", expect.hex() == params, case)
