"""C16 - decoding untrusted bytes never panics, aborts or over-allocates."""
from core import *
from wirelib import *

RULE = ("every Deserialize type of both crates and the public element codecs ([G;N], Box<[G;N]>, Vec<G>), decoded in an "
        "isolated worker process (catch_unwind, tracking allocator recording the largest single request, RLIMIT_AS 4 GiB, "
        "exit status): every honest encoding with every length prefix set to {0, n-1, n+1, 2^32, 2^60, 2^64-1}, with and "
        "without enough extra bytes to feed one more element; truncation at every atom boundary and one byte before / "
        "after; extension; single atoms replaced by random bytes; an atom overwritten with a copy of another atom of the same kind; every "
        "array of one length resized consistently (each prefix k with exactly k elements, k = 0, n-1, n+1); one-byte counters at "
        "the top of their range; random strings; Vec<G> prefixes up to 2^64-1 on short "
        "inputs and on inputs holding 1024 / 1025 (thorough: up to 2049) genuine elements, i.e. at and beyond the preallocation cap. Non-trivial = every mutated or random input; distinct = distinct (type, input digest).")
TRUSTED = ["theorems C16_* about the decoder logic as modelled in Model/Wire.v",
           "modelled dependency behaviour (validated here, not proved): ArrayVec push/try_push on a full vector, bincode "
           "SeqAccess yielding exactly the announced number of elements with EOF errors, Vec::with_capacity(n) requesting n "
           "elements"]
ASSUMPTIONS = ["'out of proportion' is checked as: largest single allocation <= 64 * input length + 1 MiB",
               "allocator internals and abort-on-OOM are outside the model; the worker's exit status observes them"]
LIMIT = 4 << 30


def run(run, h):
    pts = Points(h)
    rng = run.rng
    batch = Batch("C16")
    ns = (1, 2, 3, 5)
    S, M = samples(h, pts, rng, ns)
    if "_stopped" in S:
        run.check_corr("corr.C16.honest_flows_complete_as_in_the_model", False, {"stopped": S.pop("_stopped")})
    T = type_table(ns)
    w = Harness(h.binary, limit_as=LIMIT)
    names = [n for n in T if n in S]
    extra_types = [("VecScalar", A("s"), "(c_vec c_scalar_q)"), ("VecG1", A("g1"), None), ("VecG2", A("g2"), None)]
    for ti, name in enumerate(names):
        layout, coq = T[name]
        base = S[name]
        offs, total = offsets(layout)
        inputs = []
        lens = [(i, o, fl["n"]) for i, (o, wd, kind, fl) in enumerate(offs) if kind == "len"]
        if run.tier == "quick" and len(lens) > 6:
            lens = rng.sample(lens, 6)
        for i, o, n in lens:
            elem = offs[i + 1][1] if i + 1 < len(offs) else 32
            for v in (0, n - 1, n + 1, 2 ** 32, 2 ** 60, 2 ** 64 - 1):
                if v < 0:
                    continue
                m = base[:2 * o] + le8(v) + base[2 * (o + 8):]
                inputs.append(("prefix=%d" % v, m))
                # enough following bytes for one more element right after the array
                end = o + 8 + n * elem
                extra = base[2 * (end - elem):2 * end] if n > 0 else "00" * elem
                inputs.append(("prefix=%d+element" % v, base[:2 * o] + le8(v) + base[2 * (o + 8):2 * end] + extra + base[2 * end:]))
        # every array of the same length resized CONSISTENTLY (each prefix says k and exactly k elements follow: the last one
        # dropped, or repeated once more, or none at all): a well-formed encoding of a value of another shape, which the
        # fixed-length types must refuse without relying on any single length check
        all_lens = [(o, fl["n"], offs[i + 1][1] if i + 1 < len(offs) else 32) for i, (o, wd, kind, fl) in enumerate(offs) if kind == "len"]
        for n0 in sorted({n for _, n, _ in all_lens}):
            group = [(o, n, e) for o, n, e in all_lens if n == n0]
            if len(group) < 2 or n0 == 0:
                continue
            for k in (0, n0 - 1, n0 + 1):
                m = base
                for o, n, e in sorted(group, reverse=True):
                    body = m[2 * (o + 8):2 * (o + 8 + n * e)]
                    nb = body[:2 * k * e] if k <= n else body + body[-2 * e:]
                    m = m[:2 * o] + le8(k) + nb + m[2 * (o + 8 + n * e):]
                inputs.append(("all_arrays_of_length_%d_resized_to_%d" % (n0, k), m))
        bounds = [o for o, _, _, _ in offs] + [total]
        if run.tier == "quick" and len(bounds) > 12:
            bounds = rng.sample(bounds, 12)
        for bnd in bounds:
            for d in (-1, 0, 1):
                if 0 <= bnd + d < total:
                    inputs.append(("truncate@%d" % (bnd + d), base[:2 * (bnd + d)]))
        inputs.append(("extend", base + rng.randbytes(rng.randrange(1, 64)).hex()))
        atoms = offs if (run.tier == "thorough" or len(offs) <= 10) else rng.sample(offs, 10)
        for o, wd, kind, fl in atoms:
            inputs.append(("random_atom", base[:2 * o] + rng.randbytes(wd).hex() + base[2 * (o + wd):]))
        # an atom overwritten with a copy of ANOTHER atom of the same kind from the same value (equal generators, equal
        # scalars, h equal to a g_i): still well-typed bytes; decoding may accept or refuse them, it must not panic
        same = {}
        for o, wd, kind, fl in offs:
            if kind in ("g1", "g2", "s"):
                same.setdefault(kind, []).append((o, wd))
        for kind, lst in same.items():
            if len(lst) >= 2:
                pairs = [(lst[i], lst[i + 1]) for i in range(len(lst) - 1)] + [(lst[0], lst[-1])]
                if run.tier == "quick" and len(pairs) > 6:
                    pairs = rng.sample(pairs, 6)
                for (o1, w1), (o2, w2) in pairs:
                    inputs.append(("duplicate_atom", base[:2 * o1] + base[2 * o2:2 * (o2 + w2)] + base[2 * (o1 + w1):]))
                    inputs.append(("duplicate_atom", base[:2 * o2] + base[2 * o1:2 * (o1 + w1)] + base[2 * (o2 + w2):]))
        for o, wd, kind, fl in offs:
            if kind == "u8":      # one-byte counters (the index of a revocation pair) at the top of their range
                for v in (255, 254, 253, 128):
                    inputs.append(("counter=%d" % v, base[:2 * o] + "%02x" % v + base[2 * (o + 1):]))
                    # ... also over a fresh secret, so that the digest at that index is an arbitrary one
                    if o >= 32:
                        inputs.append(("counter=%d+secret" % v, base[:2 * (o - 32)] + sc(rand_nz(rng)) + "%02x" % v + base[2 * (o + 1):]))
        for ln in (0, 1, 7, 8, 9, 47, 48, total // 2, total, total + 1):
            inputs.append(("random", rng.randbytes(ln).hex()))
        t1, t2 = point_tables(h, [base] + [m for _, m in inputs], [layout] * (len(inputs) + 1)) if coq else ({}, {})
        cexpr = None
        model_budget = 30 if run.tier == "quick" else 200
        if coq:
            batch.define("t1_%d" % ti, coq_table(t1))
            batch.define("t2_%d" % ti, coq_table(t2))
            batch.define("cg1_%d" % ti, "c_point 48 t1_%d" % ti)
            batch.define("cg2_%d" % ti, "c_point 96 t2_%d" % ti)
            cexpr = coq.replace("cg1", "cg1_%d" % ti).replace("cg2", "cg2_%d" % ti).replace("cs", "c_scalar_q")
        for kind, data in inputs:
            one(run, w, batch, name, kind, data, cexpr if (cexpr and model_budget > 0 and total < 2000) else None)
            model_budget -= 1
    for name, elem, coq in extra_types:
        ew = WIDTH[elem[0][0]]
        for v in (0, 1, 2, 3, 1024, 1025, 2 ** 32, 2 ** 40, 2 ** 60, 2 ** 64 - 1):
            for k in (0, 1, 2):
                if elem[0][0] == "s":
                    body = "".join(sc(rand_nz(rng)) for _ in range(k))
                else:
                    body = "".join(pts.many(1 if elem[0][0] == "g1" else 2, [rand_nz(rng) for _ in range(k)]))
                one(run, w, batch, name, "vec prefix=%d elements=%d" % (v, k), le8(v) + body, coq)
        for ln in (0, 7, 8, 40, 100):
            one(run, w, batch, name, "random", rng.randbytes(ln).hex(), coq)
        # long inputs: the preallocation cap (1024 elements) is reached and passed with GENUINE elements present, under an
        # honest and under an overstated length prefix - growth after the cap must still follow the elements actually
        # decoded, not the announced count
        grp = {"s": 0, "g1": 1, "g2": 2}[elem[0][0]]
        pool = [sc(rand_nz(rng)) for _ in range(8)] if grp == 0 else pts.many(grp, [rand_nz(rng) for _ in range(8)])
        for k in ((1024, 1025) if run.tier == "quick" else (1023, 1024, 1025, 1030, 2049)):
            body = "".join(pool[i % 8] for i in range(k))
            for v in (k, k + 1, k + 2 ** 20, 2 ** 32, 2 ** 60, 2 ** 64 - 1):
                kind = "long vec prefix=%s elements=%d" % ("n" if v == k else ("n+%d" % (v - k) if v < 2 ** 32 else str(v)), k)
                status = one(run, w, batch, name, kind, le8(v) + body, None)
                if coq and k in (1024, 1025) and v in (k, k + 1, 2 ** 60) and status is not None:
                    def cmp(rr, status=status, kind=kind, name=name):
                        ok = rr[0] != 9 and ((rr[0] == 1) == (status == "ok")) and rr[1] <= 1024 and (rr[0] != 1 or rr[2:] == [0, 1])
                        run.check_corr("corr.C16.decode_outcome", ok, {"type": name, "mutation": kind, "model": rr, "impl": status})
                    batch.add("run_codec_long %s %d %s %d" % (coq, v, "[" + "; ".join(zlist(list(bytes.fromhex(x))) for x in pool) + "]", k), cmp)
    batch.flush()
    w.close()


def one(run, w, batch, name, kind, data, cexpr):
    short = data if len(data) < 4000 else data[:4000] + "..."
    case = {"type": name, "mutation": kind, "length": len(data) // 2, "script": [["decode_track", name, short]]}
    full = {"script": [["decode_track", name, data if data else "-"]]}   # attached to failing cases only: the exact replay
    try:
        st, toks = w.raw("decode_track", name, data if data else "-")
    except HarnessDied as e:
        run.case(case)
        run.count("ABORT")
        run.check_monitor("decoding_never_aborts_the_process", False, dict(case, abort=str(e)[:200], **full))
        return
    run.case(case)
    run.count(kind.split("=")[0].split("@")[0])
    run.check_monitor("decoding_never_panics", st != "panic", dict(case, panic=toks[0] if st == "panic" else None, **full))
    if st != "ok":
        return None
    status, alloc = toks[0], int(toks[1])
    run.count("outcome " + status)
    run.check_monitor("allocation_proportional_to_input", alloc <= 64 * (len(data) // 2) + (1 << 20),
                      dict(case, largest_allocation=alloc, **full))
    if cexpr:
        def cmp(rr, case=case, status=status):
            ok = rr[0] != 9 and ((rr[0] == 1) == (status == "ok")) and (rr[0] == 9 or rr[1] <= 1024)
            run.check_corr("corr.C16.decode_outcome", ok, dict(case, model=rr[:3], impl=status))
        batch.add("run_codec %s %s" % (cexpr, zlist(list(bytes.fromhex(data)))), cmp)
    return status
