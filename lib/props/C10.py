"""C10 - honest proofs and the documented constraint patterns always verify."""
from core import *
from pslib import *
from schnorrlib import *
from rangelib import *

RULE = ("library provers run under a scripted RNG (every draw named and recovered order-free from the served tape): "
        "commitment proofs in G1 and G2, signature-request proofs, signature proofs, N in {1,2,3,5,8,13,17,34}, messages over "
        "the edge set and random, a subset of slots given caller-chosen commitment scalars (all subsets for N<=3, random "
        "otherwise), each case arranged to instantiate one documented pattern (partial opening, equality within / across "
        "proofs, secret sum, public addition, public product); range constraints over {0,1,127,128,128^k-1,128^k,2^63-1,"
        "random}, stand-alone and linked to a commitment-proof slot. Non-trivial = every case (each runs prover and "
        "verifier); distinct = distinct input digest.")
TRUSTED = ["theorems C10_* over an arbitrary field / all integers; correspondence ops: cp_prove, srp_prove, sp_prove, "
           "rc_prove, rcl_prove and the matching verifiers"]
ASSUMPTIONS = []
NS = [1, 2, 3, 5, 8, 13, 17, 34]


def masks(run, rng, n):
    if n <= 3:
        return ["".join(str((i >> j) & 1) for j in range(n)) for i in range(2 ** n)]
    k = 3 if run.tier == "quick" else 10
    return ["".join(rng.choice("01") for _ in range(n)) for _ in range(k)]


def arrange_pattern(rng, n, mask, ms, given):
    """rewrite message / given commitment scalars so that one documented pattern holds; returns a predicate on
    (c, response scalars) in words + function"""
    idx = [i for i, ch in enumerate(mask) if ch == "1"]
    pats = [("partial_opening", lambda c, rs: all(rs[i] == (c * ms[i] + given[i]) % Q for i in idx))]
    if len(idx) >= 2:
        i, j = idx[0], idx[1]
        kind = rng.choice(["equality", "public_addition", "public_product"])
        if kind == "equality":
            ms[j] = ms[i]
            given[j] = given[i]
            pats.append(("equality_within", lambda c, rs: rs[i] == rs[j]))
        elif kind == "public_addition":
            a = rand_scalar(rng)
            ms[j] = (ms[i] + a) % Q
            given[j] = given[i]
            pats.append(("public_addition", lambda c, rs: rs[j] == (rs[i] + c * a) % Q))
        else:
            a = rand_scalar(rng)
            ms[j] = ms[i] * a % Q
            given[j] = given[i] * a % Q
            pats.append(("public_product", lambda c, rs: rs[j] == rs[i] * a % Q))
    if len(idx) >= 3:
        i, j, k = idx[0], idx[1], idx[2]
        ms[k] = (ms[i] + ms[j]) % Q
        given[k] = (given[i] + given[j]) % Q
        pats.append(("secret_sum", lambda c, rs: rs[k] == (rs[i] + rs[j]) % Q))
    return pats


def run(run, h):
    pts = Points(h)
    rng = run.rng
    batch = Batch("C10")
    std = Basis(h, pts)
    rp = make_rparams(h, pts, rng)
    batch.define("rp0", coq_rp(rp))
    for n in NS:
        key = make_key(std, rng, n)
        for mask in masks(run, rng, n):
            for grp in (1, 2):
                commitment_case(run, h, pts, batch, rng, grp, n, mask)
            request_case(run, h, pts, batch, rng, key, mask)
            signature_case(run, h, pts, batch, rng, key, mask)
        across_case(run, h, pts, rng, key)
        for dg in ("identity_commitment", "identity_scalar_commitment", "both"):
            DEGENERATE[0] = dg
            mask = rng.choice(masks(run, rng, n))
            for grp in (1, 2):
                commitment_case(run, h, pts, batch, rng, grp, n, mask)
            request_case(run, h, pts, batch, rng, key, mask)
            run.count("degenerate honest proof: " + dg, 3)
        DEGENERATE[0] = None
    vals = VALUES + [rng.randrange(2 ** 63) for _ in range(3 if run.tier == "quick" else 30)]
    for i, v in enumerate(vals):
        range_case(run, h, pts, batch, rng, rp, v, linked=(i % 2 == 0))
    batch.flush()


DEGENERATE = [None]   # set by run(): None | "identity_commitment" | "identity_scalar_commitment" | "both"


def draw_inputs(rng, n, mask):
    ms = [rand_scalar(rng, 0.5) for _ in range(n)]
    if DEGENERATE[0] in ("identity_commitment", "both"):
        ms = [0] * n
    given = {i: rand_scalar(rng, 0.2) for i, ch in enumerate(mask) if ch == "1"}
    if DEGENERATE[0] in ("identity_scalar_commitment", "both"):
        given = {i: 0 for i in given}
    return ms, given


def tape_for(rng, n, mask, extra=0):
    """the scripted draws; in the degenerate runs the blinding factor and / or every commitment scalar is 0, so that the
    commitment C and / or the scalar commitment T of the honest proof is the identity element"""
    bf, kbf = rand_scalar(rng, 0.15), rand_scalar(rng, 0.15)
    fresh = [rand_scalar(rng, 0.15) for ch in mask if ch == "0"]
    if DEGENERATE[0] in ("identity_commitment", "both"):
        bf = 0
    if DEGENERATE[0] in ("identity_scalar_commitment", "both"):
        kbf, fresh = 0, [0] * len(fresh)
    return bf, kbf, fresh, [rand_nz(rng) for _ in range(extra)]


def check_chunks(run, h, name, expected_lists, case):
    """the chunk lists fed to ChallengeBuilder by the builder and by the proof (read through the hook)"""
    log = h.chal_log()
    # the hashed byte STRING is compared (how the code cuts it into consume_bytes calls is not the property's business)
    ok = len(log) >= len(expected_lists) and all(
        "".join(c.hex() for c in log[i][1]) == "".join(expected_lists[i]) for i in range(len(expected_lists)))
    run.check_corr(name, ok, dict(case, recorded=[[c.hex() for c in e[1]] for e in log[:3]], expected=expected_lists))


def commitment_case(run, h, pts, batch, rng, grp, n, mask):
    hdl, gdls = rand_nz(rng), [rand_nz(rng) for _ in range(n)]
    params = h.call("ped_from", grp, n, pts.g(grp, hdl), "".join(pts.many(grp, gdls)))[0]
    ms, given = draw_inputs(rng, n, mask)
    pats = arrange_pattern(rng, n, mask, ms, given)
    bf, kbf, fresh, _ = tape_for(rng, n, mask)
    ctx = rng.randbytes(6)
    h.begin()
    h.call("chal_drain")
    h.rng(9, [bf, kbf] + fresh)
    gl = [given[i] for i in sorted(given)]
    proof, bf_o, cs, chal, chal2, com, rs = h.call("cp_prove", grp, n, params, scs(ms), mask, scs(gl), hx(ctx))
    served, _ = h.served()
    ok = h.call("cp_verify", grp, n, params, proof, "p", hx(ctx))[0] == "1"
    case = {"proof": "commitment", "G": grp, "N": n, "mask": mask, "h": hdl, "gs": gdls, "ms": ms, "given": given,
            "tape": [bf, kbf] + fresh, "patterns": [p[0] for p in pats], "script": h.end()}
    run.case(case)
    run.count("cp G%d" % grp)
    for pn, _ in pats:
        run.count("pattern " + pn)
    p = parse_cp(grp, n, proof)
    c = unsc(chal)
    run.check_monitor("honest_proof_verifies", ok, case)
    run.check_monitor("builder_challenge_equals_proof_challenge", chal == chal2, case)
    for pn, f in pats:
        run.check_monitor("pattern_" + pn, f(c, p["rs"]), dict(case, c=c, rs=p["rs"]))
    check_chunks(run, h, "corr.C10.cp_transcript", [[p["C"], p["T"], ctx.hex()]] * 2, case)
    # name the randomness from outputs / the served set
    bf_r = unsc(bf_o)
    ks = unscs(cs)
    kbf_r = (p["rbf"] - c * bf_r) % Q
    named = kbf_r in served and bf_r in served and all(
        (ks[i] == given[i]) if mask[i] == "1" else (ks[i] in served) for i in range(n))
    run.check_corr("corr.C10.randomness_is_fresh_draws", named, dict(case, served=served, bf=bf_r, kbf=kbf_r, ks=ks))

    def cmp(r, case=case, p=p):
        ok = (pts.g(grp, r[0]) == p["C"] and pts.g(grp, r[1]) == p["T"] and r[2] == p["rbf"] and r[3:] == p["rs"])
        run.check_corr("corr.C10.cp_prove", ok, dict(case, model=r, impl=p))
    batch.add("r_cp_prove %s %s %s %s %s %s %s" % (zlit(hdl), zlist(gdls), zlist(ms), zlit(bf_r), zlit(kbf_r),
                                                  zlist(ks), zlit(c)), cmp)


def request_case(run, h, pts, batch, rng, key, mask):
    n, pk = key["n"], key["pk"]
    ms, given = draw_inputs(rng, n, mask)
    pats = arrange_pattern(rng, n, mask, ms, given)
    bf, kbf, fresh, _ = tape_for(rng, n, mask)
    ctx = rng.randbytes(6)
    h.begin()
    h.call("chal_drain")
    h.rng(9, [bf, kbf] + fresh)
    gl = [given[i] for i in sorted(given)]
    proof, bf_o, cs, chal, chal2, rs = h.call("srp_prove", n, key["pk_hex"], scs(ms), mask, scs(gl), hx(ctx))
    served, _ = h.served()
    ok = h.call("srp_verify", n, key["pk_hex"], proof, "p", hx(ctx))[0] == "1"
    case = {"proof": "request", "N": n, "mask": mask, "pk": pk, "ms": ms, "given": given, "tape": [bf, kbf] + fresh,
            "patterns": [p[0] for p in pats], "script": h.end()}
    run.case(case)
    run.count("srp")
    p = parse_cp(1, n, proof)
    c = unsc(chal)
    run.check_monitor("honest_proof_verifies", ok, case)
    run.check_monitor("builder_challenge_equals_proof_challenge", chal == chal2, case)
    for pn, f in pats:
        run.check_monitor("pattern_" + pn, f(c, p["rs"]), dict(case, c=c, rs=p["rs"]))
    check_chunks(run, h, "corr.C10.srp_transcript", [[p["C"], p["T"], ctx.hex()]] * 2, case)
    bf_r, ks = unsc(bf_o), unscs(cs)
    kbf_r = (p["rbf"] - c * bf_r) % Q
    run.check_corr("corr.C10.randomness_is_fresh_draws", kbf_r in served and bf_r in served,
                   dict(case, served=served, bf=bf_r, kbf=kbf_r))

    def cmp(r, case=case, p=p):
        ok = (pts.g1(r[0]) == p["C"] and pts.g1(r[1]) == p["T"] and r[2] == p["rbf"] and r[3:] == p["rs"])
        run.check_corr("corr.C10.req_prove", ok, dict(case, model=r, impl=p))
    batch.add("r_req_prove %s %s %s %s %s %s" % (coq_pk(pk), zlist(ms), zlit(bf_r), zlit(kbf_r), zlist(ks), zlit(c)), cmp)


def signature_case(run, h, pts, batch, rng, key, mask):
    n, pk = key["n"], key["pk"]
    ms, given = draw_inputs(rng, n, mask)
    pats = arrange_pattern(rng, n, mask, ms, given)
    bf, kbf, fresh, (r,) = tape_for(rng, n, mask, extra=1)
    s = (key["x"] + ipq(key["ys"], ms)) % Q
    a = rand_nz(rng)
    sig_hex = pts.g1(a) + pts.g1(a * s)
    ctx = rng.randbytes(6)
    h.begin()
    h.call("chal_drain")
    h.rng(9, [bf, kbf] + fresh + [r])
    gl = [given[i] for i in sorted(given)]
    proof, cs, chal, chal2, rs, tok = h.call("sp_prove", n, key["pk_hex"], scs(ms), sig_hex, mask, scs(gl), hx(ctx))
    served, _ = h.served()
    ok = h.call("sp_verify", n, key["pk_hex"], proof, "p", hx(ctx))[0] == "1"
    case = {"proof": "signature", "N": n, "mask": mask, "pk": pk, "ms": ms, "given": given, "sig": [a, a * s % Q],
            "tape": [bf, kbf] + fresh + [r], "patterns": [p[0] for p in pats], "script": h.end()}
    run.case(case)
    run.count("sp")
    p = parse_sp(n, proof)
    c = unsc(chal)
    run.check_monitor("honest_proof_verifies", ok, case)
    run.check_monitor("builder_challenge_equals_proof_challenge", chal == chal2, case)
    for pn, f in pats:
        run.check_monitor("pattern_" + pn, f(c, p["rs"]), dict(case, c=c, rs=p["rs"]))
    check_chunks(run, h, "corr.C10.sp_transcript", [[p["s1"], p["s2"], p["C"], p["T"], ctx.hex()]] * 2, case)
    ks = unscs(cs)
    # order-free naming of bf, kbf, r
    found = None
    for bf_r in served:
        kbf_r = (p["rbf"] - c * bf_r) % Q
        if kbf_r in served and pts.g2((pk["g2"] * bf_r + ipq(pk["y2s"], ms)) % Q) == p["C"]:
            for r_r in served:
                if pts.g1(a * r_r % Q) == p["s1"]:
                    found = (bf_r, kbf_r, r_r)
                    break
        if found:
            break
    run.check_corr("corr.C10.randomness_is_fresh_draws", found is not None, dict(case, served=served))
    if not found:
        return
    bf_r, kbf_r, r_r = found

    def cmp(rr, case=case, p=p):
        ok = (pts.g1(rr[0]) == p["s1"] and pts.g1(rr[1]) == p["s2"] and pts.g2(rr[2]) == p["C"]
              and pts.g2(rr[3]) == p["T"] and rr[4] == p["rbf"] and rr[5:] == p["rs"])
        run.check_corr("corr.C10.sig_prove", ok, dict(case, model=rr, impl=p))
    batch.add("r_sp_prove %s %s %s %s %s %s %s %s %s" % (coq_pk(pk), zlist(ms), zlit(a), zlit(a * s % Q), zlit(bf_r),
                                                        zlit(kbf_r), zlist(ks), zlit(r_r), zlit(c)), cmp)


def across_case(run, h, pts, rng, key):
    """equality across two proofs: the second proof reuses the first one's commitment scalar for a shared value"""
    n = key["n"]
    ms1 = [rand_scalar(rng, 0.4) for _ in range(n)]
    ms2 = [rand_scalar(rng, 0.4) for _ in range(n)]
    i, j = rng.randrange(n), rng.randrange(n)
    ms2[j] = ms1[i]
    ctx = rng.randbytes(6)
    h.begin()
    h.rng(rng.randrange(2 ** 32))
    p1 = h.call("srp_prove", n, key["pk_hex"], scs(ms1), "0" * n, "-", hx(ctx))
    k = unscs(p1[2])[i]
    mask = "".join("1" if t == j else "0" for t in range(n))
    p2 = h.call("srp_prove", n, key["pk_hex"], scs(ms2), mask, sc(k), hx(ctx))
    case = {"proof": "across", "N": n, "ms1": ms1, "ms2": ms2, "i": i, "j": j, "script": h.end()}
    run.case(case)
    run.count("pattern equality_across")
    # both proofs answered with the same challenge in a real conjunction; here each has its own, so compare
    # the relation r = c*m + k on each side
    c1, c2 = unsc(p1[3]), unsc(p2[3])
    r1, r2 = unscs(p1[5])[i], unscs(p2[5])[j]
    run.check_monitor("pattern_equality_across", (r1 - c1 * ms1[i]) % Q == (r2 - c2 * ms2[j]) % Q == k, dict(case, k=k))


def range_case(run, h, pts, batch, rng, rp, v, linked):
    ctx = rng.randbytes(6)
    draws = [(rand_scalar(rng, 0.1), rand_scalar(rng, 0.1), rand_scalar(rng, 0.1), rand_nz(rng)) for _ in range(9)]
    tape = [x for d in draws for x in d]
    h.begin()
    if not linked:
        h.rng(4, tape)
        t = h.call("rc_prove", v, rp["hex"], hx(ctx))
        served, _ = h.served()
        rc_hex, cs, chal, chal2 = t[1], unsc(t[2]), unsc(t[3]), unsc(t[4])
        exp = (chal * v + cs) % Q
        ok = h.call("rc_verify", rc_hex, rp["hex"], "p", hx(ctx), sc(exp))[0] == "1"
        bad = h.call("rc_verify", rc_hex, rp["hex"], "p", hx(ctx), sc(exp + 1))[0] == "1"
        case = {"proof": "range", "value": v, "linked": False, "tape": tape, "script": h.end()}
        run.check_monitor("builder_challenge_equals_proof_challenge", chal == chal2, case)
    else:
        n = rng.choice([1, 2, 3, 5])
        slot = rng.randrange(n)
        hdl, gdls = rand_nz(rng), [rand_nz(rng) for _ in range(n)]
        params = h.call("ped_from", 1, n, pts.g1(hdl), "".join(pts.many(1, gdls)))[0]
        ms = [rand_scalar(rng, 0.3) for _ in range(n)]
        ms[slot] = v
        h.rng(4, tape)
        t = h.call("rcl_prove", n, params, scs(ms), slot, v, rp["hex"], hx(ctx))
        served, _ = h.served()
        cp_hex, rc_hex, chal = t[1], t[2], unsc(t[3])
        chal2 = chal
        tv = h.call("rcl_verify", n, params, cp_hex, rc_hex, rp["hex"], slot, hx(ctx))
        ok = tv[0] == "1" and tv[1] == "1"
        other = (slot + 1) % n
        bad = n > 1 and h.call("rcl_verify", n, params, cp_hex, rc_hex, rp["hex"], other, hx(ctx))[1] == "1"
        cs = None
        case = {"proof": "range", "value": v, "linked": True, "N": n, "slot": slot, "tape": tape, "script": h.end()}
    run.case(case)
    run.count("range linked" if linked else "range alone")
    run.check_monitor("honest_proof_verifies", ok, case)
    run.check_monitor("range_rejects_other_link", not bad, case)
    dps = parse_rc(rc_hex)
    ds = digits(v)
    rec = [recover_digit_draws(pts, rp, served, dps[j], ds[j], chal) for j in range(9)]
    run.check_corr("corr.C10.randomness_is_fresh_draws", all(r is not None for r in rec), dict(case, served=served))
    if any(r is None for r in rec):
        return

    def cmp(r, case=case, dps=dps, cs=cs):
        ok = r[0] == 1 and (cs is None or r[1] == cs)
        body = r[2:]
        w = len(body) // 9
        for j in range(9):
            a = body[j * w:(j + 1) * w]
            d = dps[j]
            ok = ok and (pts.g1(a[0]) == d["s1"] and pts.g1(a[1]) == d["s2"] and pts.g2(a[2]) == d["C"]
                         and pts.g2(a[3]) == d["T"] and a[4] == d["rbf"] and a[5:] == d["rs"])
        run.check_corr("corr.C10.range_prove", ok, dict(case, model=r[:8]))
    batch.add("r_range_prove rp0 %s [%s] %s" % (zlit(v), "; ".join("(%s, %s, %s, %s)" % tuple(zlit(x) for x in d) for d in rec),
                                               zlit(chal)), cmp)
