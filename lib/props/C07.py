"""C07 - signature verification accepts exactly the Pointcheval-Sanders relation."""
from core import *
from pslib import *

RULE = ("for N in {1,2,3,5,8,13,17,34}, one key with chosen discrete logs and one key from KeyPair::new: messages over the edge "
        "set and random, plus messages solved so that x + <y,m> = 0; signatures from sign (random h) and crafted from "
        "bytes; chains of randomize / blind_and_randomize / unblind (right and wrong factor) with scripted randomisers "
        "in {random, 1, 0}; every single-coordinate message change; changes of X~, g~ and each Y~j; blind / blind-sign "
        "(u in {random, 1, 0}) / unblind. Non-trivial = a case whose signature went through at least one "
        "transformation or whose statement was perturbed; distinct = distinct input digest.")
TRUSTED = ["theorems C07_* are over an arbitrary field; correspondence ops: sign, sig_verify, sig_randomize, sig_bar, "
           "bsig_unblind, msg_blind, vbm_sim + vbm_sign"]
ASSUMPTIONS = ["bls12_381 pairing is bilinear and non-degenerate on prime-order groups (the monitor evaluates the relation with it)"]
NS = [1, 2, 3, 5, 8, 13, 17, 34]


def ipq(a, b):
    return sum(x * y for x, y in zip(a, b)) % Q


def relation_holds(h, key, ms, s1_hex, s2_hex):
    """the property's own observable: sigma1 != 1 and e(sigma1, X~ + sum mi Y~i) = e(sigma2, g~), with bls12_381"""
    a = parse_kp(key["n"], key["kp_hex"])
    args = [a["x2"], sc(1)]
    for y, m in zip(a["y2s"], ms):
        args += [y, sc(m)]
    inter = h.call("g2lin", *args)[0]
    if h.call("classify", s1_hex)[0] != "ok":
        return False
    return h.call("pair_eq", s1_hex, inter, s2_hex, a["g2"])[0] == "1"


def run(run, h):
    pts = Points(h)
    rng = run.rng
    batch = Batch("C07")
    std = Basis(h, pts)
    rounds = 1 if run.tier == "quick" else 8
    for n in NS:
        keys = [make_key(std, rng, n, small=True), make_key(std, rng, n)]
        keys.append(generated_key(h, pts, n, rng.randrange(2 ** 32)))
        for key in keys:
            for rd in range(rounds):
                for start in ("sign", "crafted"):
                    for mkind in ("edge", "zeroexp"):
                        chain_case(run, h, batch, rng, key, start, mkind)
                # whole-tuple special shapes: every entry 0, every entry the same value, exactly one non-zero entry
                for mkind in ("all_zero", "all_equal", "one_nonzero") + tuple(rng.sample(SHAPES, 3 if run.tier == "quick" else len(SHAPES))):
                    chain_case(run, h, batch, rng, key, rng.choice(["sign", "crafted"]), mkind)
                blind_case(run, h, batch, rng, key)
    batch.flush()


def message(rng, key, mkind):
    n = key["n"]
    ms = [rand_scalar(rng, 0.6) for _ in range(n)]
    if mkind == "all_zero":
        ms = [0] * n
    elif mkind == "all_equal":
        ms = [rng.choice([1, Q - 1, rand_nz(rng)])] * n
    elif mkind == "one_nonzero":
        ms = [0] * n
        ms[rng.randrange(n)] = rand_nz(rng)
    elif mkind in SHAPES:
        ms = shaped_tuple(rng, n, mkind)
    if mkind == "zeroexp":
        # solve x + <y, m> = 0 for the last coordinate
        partial = (key["x"] + ipq(key["ys"][:-1], ms[:-1])) % Q
        ms[-1] = (-partial * inv(key["ys"][-1])) % Q
    return ms


def chain_case(run, h, batch, rng, key, start, mkind):
    n, basis = key["n"], key["basis"]
    ms = message(rng, key, mkind)
    s = (key["x"] + ipq(key["ys"], ms)) % Q
    h.begin()
    if start == "sign":
        seed = rng.randrange(2 ** 32)
        h.rng(seed)
        sig_hex, tok = h.call("sign", n, key["kp_hex"], scs(ms))
        base = sig_hex[:96]
        d = (1, s)
    else:
        a = rand_nz(rng)
        base = None
        d = (a, a * s % Q)
        sig_hex = basis.g1(d[0]) + basis.g1(d[1])
        tok = sig_hex
    case0 = {"N": n, "key": "generated" if basis.b1 else "known", "start": start, "msg": mkind, "ms": ms,
             "pk": key["pk"], "x": key["x"], "ys": key["ys"]}
    # chain
    nops = rng.randrange(0, 4) if run.tier == "quick" else rng.randrange(0, 7)
    ops, steps = [], []
    cur_tok, cur_d = tok, d
    pending_bf = None
    for _ in range(nops):
        kind = rng.choice(["rand", "bar"]) if pending_bf is None else "unblind"
        if kind == "rand":
            r = rng.choice([rand_nz(rng), 1, 0, rand_nz(rng)])
            h.rng(1, [r])
            out, cur_tok = h.call("sig_randomize", cur_tok)
            ops.append((1, r, 0))
            cur_d = (cur_d[0] * r % Q, cur_d[1] * r % Q)
        elif kind == "bar":
            r = rng.choice([rand_nz(rng), 1, 0, rand_nz(rng)])
            bf = rand_scalar(rng, 0.3)
            h.rng(1, [r])
            out, cur_tok = h.call("sig_bar", cur_tok, sc(bf))
            ops.append((2, r, bf))
            cur_d = (cur_d[0] * r % Q, (cur_d[1] + cur_d[0] * bf) * r % Q)
            pending_bf = bf
        else:
            bf = pending_bf if rng.random() < 0.6 else (pending_bf + rng.choice([1, rand_nz(rng)])) % Q
            out, cur_tok = h.call("bsig_unblind", cur_tok, sc(bf))
            ops.append((3, bf, 0))
            cur_d = (cur_d[0], (cur_d[1] - cur_d[0] * bf) % Q)
            pending_bf = None
        # blinded signatures cannot be verified through the API; verify only unblinded ones
        ver = None
        if pending_bf is None:
            ver = h.call("sig_verify", n, key["pk_hex"], scs(ms), cur_tok)[0] == "1"
            run.check_monitor("verify_equals_relation", ver == relation_holds(h, key, ms, out[:96], out[96:]),
                              dict(case0, ops=ops, sig=out))
        steps.append((out, ver))
    v0 = h.call("sig_verify", n, key["pk_hex"], scs(ms), tok)[0] == "1"
    run.check_monitor("verify_equals_relation", v0 == relation_holds(h, key, ms, sig_hex[:96], sig_hex[96:]),
                      dict(case0, ops=[], sig=sig_hex))
    run.check_monitor("fresh_signature_verifies", v0, dict(case0, sig=sig_hex))
    case = dict(case0, ops=ops, script=h.end())
    run.case(case, nontrivial=bool(ops))
    run.count("chain len %d" % len(ops))
    run.count("start %s/%s" % (start, mkind))

    def cmp_chain(r, steps=steps, v0=v0, base=base, d=d, case=case):
        ok = bool(r[0]) == v0
        r = r[1:]
        for i, (out, ver) in enumerate(steps):
            d1, d2, mv = r[3 * i:3 * i + 3]
            ok = ok and basis.g1_from(base, d1) == out[:96] and basis.g1_from(base, d2) == out[96:]
            if ver is not None:
                ok = ok and (bool(mv) == ver)
        run.check_corr("corr.C07.chain", ok, dict(case, model=r, impl=[(o, v) for o, v in steps]))
    if start == "sign":
        # relative to the basis sigma1: the model's sign with h := 1
        def cmp_sign(r, sig_hex=sig_hex, case=case):
            ok = r[0] == 1 and basis.g1_from(sig_hex[:96], r[1]) == sig_hex[96:] and h.call("classify", sig_hex[:96])[0] == "ok"
            run.check_corr("corr.C07.sign", ok, dict(case, model=r, impl=sig_hex))
        batch.add("r_sign %s 1 %s" % (coq_sk(key["sk"]), zlist(ms)), cmp_sign)
    batch.add("r_chain %s %s %s %s [%s]" % (coq_pk(key["pk"]), zlist(ms), zlit(d[0]), zlit(d[1]),
                                            "; ".join("(%s, %s, %s)" % (zlit(a), zlit(b), zlit(c)) for a, b, c in ops)),
              cmp_chain)
    if pending_bf is not None:
        return
    # perturbations of the statement, on the final (unblinded) signature
    final_valid = h.call("sig_verify", n, key["pk_hex"], scs(ms), cur_tok)[0] == "1"

    def verify_q(kind, pk, pk_hex, ms2, must_reject):
        h.begin()
        got = h.call("sig_verify", n, pk_hex, scs(ms2), cur_tok)[0] == "1"
        pc = dict(case0, ops=ops, perturb=kind, ms2=ms2, pk2=pk, impl=got, script=case["script"] + h.end())
        run.case(pc)
        run.count("perturb " + kind.split(":")[0])
        if must_reject:
            run.check_monitor("perturbed_statement_rejected", not got, pc)

        def cmp(r, pc=pc, got=got):
            run.check_corr("corr.C07.verify", bool(r[0]) == got, dict(pc, model=r[0]))
        batch.add("r_verify %s %s %s %s" % (coq_pk(pk), zlist(ms2), zlit(cur_d[0]), zlit(cur_d[1])), cmp)

    coords = pick_coords(rng, n, 3, run.tier == "thorough")
    for j in coords:
        ms2 = list(ms)
        ms2[j] = (ms[j] + rng.choice([1, Q - 1, rand_nz(rng)])) % Q
        verify_q("coord:%d" % j, key["pk"], key["pk_hex"], ms2, must_reject=final_valid)
    # several coordinates at once: two coordinates exchanged / value moved between two coordinates with the sum preserved
    # (rejected whenever <y, m - m'> != 0, which holds for independently drawn exponents; the model decides the expectation)
    if n >= 2:
        cl = list(coords)
        pairs = [(i, j) for i in cl for j in cl if i < j] if n <= 5 else [tuple(rng.sample(cl, 2))]
        for i, j in pairs:          # short tuples: EVERY pair of coordinates
            dlt = rng.choice([1, rand_nz(rng)])
            moved = list(ms)
            moved[i], moved[j] = (ms[i] + dlt) % Q, (ms[j] - dlt) % Q
            swapped = list(ms)
            swapped[i], swapped[j] = ms[j], ms[i]
            for nm, ms2 in (("move:%d>%d" % (j, i), moved), ("swap:%d,%d" % (i, j), swapped)):
                if ms2 != ms:
                    verify_q(nm, key["pk"], key["pk_hex"], ms2, must_reject=final_valid)
    # key element changes
    pk = key["pk"]
    pk2 = dict(pk, x2=(pk["x2"] + rand_nz(rng)) % Q)
    if pk2["x2"]:
        verify_q("x2", pk2, pk_bytes(basis, pk2), ms, must_reject=final_valid)
    pk2 = dict(pk, g2=(pk["g2"] + rand_nz(rng)) % Q)
    if pk2["g2"]:
        verify_q("g2", pk2, pk_bytes(basis, pk2), ms, must_reject=final_valid and cur_d[1] != 0)
    j = rng.randrange(n)
    y2 = list(pk["y2s"])
    y2[j] = (y2[j] + rand_nz(rng)) % Q
    if y2[j]:
        pk2 = dict(pk, y2s=y2)
        verify_q("y2:%d" % j, pk2, pk_bytes(basis, pk2), ms, must_reject=final_valid and ms[j] % Q != 0)


def blind_case(run, h, batch, rng, key):
    n, basis = key["n"], key["basis"]
    ms = message(rng, key, rng.choice(["edge", "edge", "zeroexp"]))
    bf = rand_scalar(rng, 0.3)
    u = rng.choice([rand_nz(rng), 1, 0, rand_nz(rng)])
    h.begin()
    bm = h.call("msg_blind", n, key["pk_hex"], scs(ms), sc(bf))[0]
    vbm = h.call("vbm_sim", n, key["pk_hex"], bm)[0]
    h.rng(1, [u])
    bs_hex, bs_tok = h.call("vbm_sign", n, key["kp_hex"], vbm)
    use_bf = bf if rng.random() < 0.7 else (bf + 1) % Q
    sg_hex, sg_tok = h.call("bsig_unblind", bs_tok, sc(use_bf))
    ver = h.call("sig_verify", n, key["pk_hex"], scs(ms), sg_tok)[0] == "1"
    j = rng.randrange(n)
    ms2 = list(ms)
    ms2[j] = (ms[j] + 1) % Q
    ver2 = h.call("sig_verify", n, key["pk_hex"], scs(ms2), sg_tok)[0] == "1"
    case = {"op": "blind", "N": n, "key": "generated" if basis.b1 else "known", "ms": ms, "bf": bf, "u": u,
            "unblind_bf": use_bf, "pk": key["pk"], "sk": key["sk"], "script": h.end()}
    run.case(case)
    run.count("blind u=%s bf=%s" % ("0" if u == 0 else "nz", "right" if use_bf == bf else "wrong"))
    run.check_monitor("verify_equals_relation", ver == relation_holds(h, key, ms, sg_hex[:96], sg_hex[96:]), case)
    run.check_monitor("blind_sign_unblind_verifies", ver == (u != 0 and use_bf == bf), dict(case, impl=ver))
    run.check_monitor("perturbed_statement_rejected", not ver2, dict(case, ms2=ms2))
    cdl = (key["g1"] * bf + ipq([key["g1"] * y for y in key["ys"]], ms)) % Q

    def cmp_blind(r, bm=bm, case=case):
        run.check_corr("corr.C07.blind", basis.g1(r[0]) == bm, dict(case, model=r, impl=bm))
    batch.add("r_blind %s %s %s" % (coq_pk(key["pk"]), zlist(ms), zlit(bf)), cmp_blind)

    def cmp_bs(r, bs_hex=bs_hex, case=case):
        run.check_corr("corr.C07.blind_sign", basis.g1(r[0]) == bs_hex[:96] and basis.g1(r[1]) == bs_hex[96:],
                       dict(case, model=r, impl=bs_hex))
    batch.add("r_blind_sign %s %s %s %s" % (coq_sk(key["sk"]), coq_pk(key["pk"]), zlit(u), zlit(cdl)), cmp_bs)
    d1 = key["g1"] * u % Q
    d2 = (key["sk"]["x1"] + cdl) * u % Q

    def cmp_ub(r, sg_hex=sg_hex, ver=ver, case=case):
        ok = basis.g1(r[0]) == sg_hex[:96] and basis.g1(r[1]) == sg_hex[96:]
        run.check_corr("corr.C07.unblind", ok, dict(case, model=r, impl=sg_hex))
    batch.add("r_unblind %s %s %s" % (zlit(use_bf), zlit(d1), zlit(d2)), cmp_ub)

    def cmp_v(r, ver=ver, case=case):
        run.check_corr("corr.C07.verify", bool(r[0]) == ver, dict(case, model=r[0], impl=ver))
    batch.add("r_verify %s %s %s %s" % (coq_pk(key["pk"]), zlist(ms), zlit(d1), zlit((d2 - d1 * use_bf) % Q)), cmp_v)
