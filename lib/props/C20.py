"""C20 - a customer restored from storage at any step continues exactly as the original."""
from core import *
from abacuslib import *
from wirelib import type_table, point_tables, coq_table

RULE = ("whole sessions (initial balances small, at the boundaries 0 / 2^63-1, and with a total above 2^63-1; establish + 1-3 "
        "payments, thorough: up to 6) run inside one process in which the customer value is "
        "kept in memory, versus the same session - same customer and merchant RNG seeds, same merchant - in which the "
        "customer state is serialised and restored before step k, for EVERY step k (requested, inactive, ready, started, "
        "locked of every payment), also with a wrong merchant reply fed (and refused) right before the store point, and "
        "with a restore before every step at once. Every message the customer emits, every accept / refuse decision, the "
        "final state and the final closing message must be byte-identical. Non-trivial = every (history, restore point); "
        "distinct = distinct (history seed, restore set, fault set).")
TRUSTED = ["theorems C20_* (restore = identity on well-formed states; reachable states are well formed; transitions are "
           "functions); correspondence op: session (the in-process driver in the harness)"]
ASSUMPTIONS = ["'given the same randomness': customer and merchant draw from separate seeded generators in the driver"]


def session(h, M, cid, cb, mb, amounts, store, faults, sc_, sm_):
    def csv(xs):
        return ",".join(str(x) for x in xs) if xs else "-"
    st, t = h.raw("session", M.handle, M.cconfig, cid.hex(), cb, mb, hx(b"ctx"), csv(amounts), csv(store), csv(faults), sc_, sm_)
    return st, t


def run(run, h):
    pts = Points(h)
    rng = run.rng
    M = make_merchant(h, pts, rng)
    nh = 3 if run.tier == "quick" else 12
    for hi in range(nh):
        cid = rng.randbytes(32)
        # balances: small, and - each balance being individually valid - channels whose TOTAL exceeds 2^63-1, channels at the
        # boundaries 0 and 2^63-1 (a stored state must restore whatever valid balances it holds)
        MAXB = 2 ** 63 - 1
        choices = [(rng.randrange(10, 2 ** 40), rng.randrange(10, 2 ** 40)),
                   (MAXB - rng.randrange(0, 50), MAXB - rng.randrange(0, 50)),
                   (2 ** 62 + rng.randrange(0, 9), 2 ** 62 + rng.randrange(0, 9)),
                   (rng.randrange(1, 100), MAXB - rng.randrange(100, 200)), (MAXB - rng.randrange(100, 200), rng.randrange(1, 100)),
                   (0, rng.randrange(5, 2 ** 62)), (rng.randrange(5, 2 ** 62), 0)]
        cb, mb = choices[hi] if hi < len(choices) and (run.tier != "quick" or hi < 2) else rng.choice(choices)
        npay = rng.randrange(1, 4) if run.tier == "quick" else rng.randrange(1, 7)
        amounts = [rng.choice([1, -1, 0, 2, 5, -3, min(cb + 1, MAXB)]) for _ in range(npay)]
        if hi % 3 == 2:
            # a history that passes through a ZERO customer balance (the whole balance is spent, stored at every stage, then
            # refunded) - and, when the merchant side allows it, through a zero merchant balance
            cb, mb = rng.randrange(1, 1000), rng.choice([0, rng.randrange(1, 2 ** 40)])
            amounts = [cb, 0, -(cb + mb) if rng.random() < 0.5 else -1][:max(npay, 2)]
        sc_, sm_ = rng.randrange(2 ** 31), rng.randrange(2 ** 31)
        st0, base = session(h, M, cid, cb, mb, amounts, [], [], sc_, sm_)
        case0 = {"history": hi, "cb": cb, "mb": mb, "amounts": amounts, "seeds": [sc_, sm_]}
        if not run.check_monitor("reference_session_completes", st0 == "ok" and base[-1] == "close_check:1", dict(case0, result=base[-1:] if st0 == "ok" else base)):
            continue
        nsteps = 2 + 3 * npay
        fault_base = {}
        variants = [([k], []) for k in range(nsteps)] + [(list(range(nsteps)), [])]
        for k in range(nsteps):
            if k % 3 != 2 or k < 2:      # steps that consume a merchant reply: 0, 1, lock (3+3j), unlock (4+3j)
                variants.append(([k], [k]))
        for store, faults in variants:
            key = tuple(faults)
            if key not in fault_base:
                stf, ref = session(h, M, cid, cb, mb, amounts, [], faults, sc_, sm_)
                fault_base[key] = [x for x in ref if not x.startswith("restored@")] if stf == "ok" else None
            ref = fault_base[key]
            stv, got = session(h, M, cid, cb, mb, amounts, store, faults, sc_, sm_)
            case = dict(case0, restore_before_steps=store, wrong_reply_before_steps=faults)
            run.case(case)
            run.count("restore points %d" % len(store))
            if faults:
                run.count("restore right after a refused reply")
            if ref is None or stv != "ok":
                run.check_monitor("restored_session_completes", False, dict(case, result=got))
                continue
            stripped = [x for x in got if not x.startswith("restored@")]
            n_restored = len(got) - len(stripped)
            same = stripped == ref
            first_diff = next((i for i, (a, b) in enumerate(zip(stripped, ref)) if a != b), None)
            run.count("restores performed", n_restored)
            run.check_monitor("restored_state_continues_byte_identically", same,
                              dict(case, first_difference=(stripped[first_diff][:60], ref[first_diff][:60]) if first_diff is not None else None))
            # without faults the reference is also the fault-free base run
            if not faults:
                run.check_monitor("restored_state_continues_byte_identically", stripped == base, case)
    # a customer whose revocation secret needs a long index search (27 / 38 retries): its stored Requested state must restore
    for want, secret in LONG_INDEX_SECRETS[-2:]:
        e = establish_request(h, M, rng.randbytes(32), 50, 60, b"li", [secret] * 3 + [rand_nz(rng) for _ in range(14)])
        p = parse_requested(e["req_hex"])
        case = {"op": "store_restore_long_index_secret", "secret": secret, "state_secret": p["state"]["secret"]}
        run.case(case)
        run.check_monitor("stored_bytes_restore_to_same_bytes", h.call("decode", "Requested", e["req_hex"]) == ["ok", e["req_hex"]], case)
    # every stage's bytes decode and re-encode to the same bytes (store / restore is the identity on the wire form)
    est = full_establish(h, M, rng, rng.randbytes(32), 500, 600, b"x")
    r = pay_once(h, M, rng, est["ready"], 7, b"y")
    batch = Batch("C20")
    T = type_table()
    for stage, name, hexs in (("requested", "Requested", est["e"]["req_hex"]), ("inactive", "Inactive", est["inactive"]),
                              ("ready", "Ready", est["ready"]), ("started", "Started", r["started"]), ("locked", "Locked", r["locked"]),
                              ("ready", "Ready", r["ready"])):
        t = h.call("decode", name, hexs)
        run.case({"op": "store_restore_bytes", "stage": stage})
        run.check_monitor("stored_bytes_restore_to_same_bytes", t == ["ok", hexs], {"stage": stage})
        layout, coq = T[name]
        i = len(batch.items)
        t1, t2 = point_tables(h, [hexs], [layout])
        batch.define("t1_%d" % i, coq_table(t1))
        batch.define("cg1_%d" % i, "c_point 48 t1_%d" % i)
        cexpr = coq.replace("cg1", "cg1_%d" % i).replace("cs", "c_scalar_q")
        batch.add("run_codec %s %s" % (cexpr, zlist(list(bytes.fromhex(hexs)))),
                  lambda rr, hexs=hexs, stage=stage: run.check_corr("corr.C20.model_restore_is_identity",
                                                                     rr[0] == 1 and rr[2] == 0 and bytes(rr[3:]).hex() == hexs, {"stage": stage, "model": rr[:3]}))
    batch.flush()
