"""C03 - the customer can always close on an unrevoked valid state; bad replies are inert."""
from core import *
from abacuslib import *
from custsim import *

RULE = ("channel histories through the real customer and merchant APIs (merchant with known discrete logs): initial "
        "balances from the lattice, 0-3 (thorough: 0-8) payments with amounts from {0, +-1, +-balance, +-(balance+1), "
        "+-(2^63-1), random}; at EVERY merchant reply 0-3 faults from the alphabet are fed before the honest reply "
        "(garbage, two random points, signature on a state with each single slot altered, the other message type, "
        "another key, wrong blinding factor, identity signatures, replies replayed from earlier steps / other sessions); "
        "after every step and every refused reply close() is run on a copy of the state. Non-trivial = every faulty "
        "reply and every refused payment; distinct = distinct digest.")
TRUSTED = ["theorems C03_* (invariant by induction over steps with ARBITRARY replies); correspondence ops: req_complete, "
           "inactive_activate, ready_start, started_lock, locked_unlock, close, m_check_close, m_init, m_allow, u_complete"]
ASSUMPTIONS = ["fresh revocation locks are new (probability statement, hypothesis of the theorem, checked on every run)",
               "closing randomiser non-zero (0 yields the rejected all-identity signature: lemma, probability 2^-255)"]
LAT = [0, 1, 2, 1000, 2 ** 31, 2 ** 62, 2 ** 63 - 2, 2 ** 63 - 1]


def run(run, h):
    pts = Points(h)
    rng = run.rng
    batch = Batch("C03")
    M = make_merchant(h, pts, rng)
    M2 = make_merchant(h, pts, rng)
    batch.define("pk0", coq_pk(M.pk))
    pool = []
    nh = 8 if run.tier == "quick" else 40
    for hi in range(nh):
        history(run, h, batch, rng, M, M2, pool, hi)
    batch.flush()


def amounts_for(rng, cb, mb):
    c = [0, 1, -1, cb, -mb, cb + 1, -(mb + 1), 2 ** 63 - 1, -(2 ** 63 - 1), rng.randrange(-2 ** 63, 2 ** 63)]
    c += [rng.randrange(0, cb + 1), -rng.randrange(0, mb + 1)]
    return [a for a in c if -2 ** 63 <= a <= 2 ** 63 - 1]


def inject(run, h, batch, rng, M, M2, cust, pool, ledger, disclosed, cid, tag):
    faults = fault_replies(rng, M, M2, cust, pool)
    for name, wire, dl in rng.sample(faults, rng.randrange(1, 4)):
        feed(run, h, batch, cust, name, wire, dl, False, tag)
        close_on_copy(run, h, batch, rng, cust, ledger, disclosed, cid, tag)


def history(run, h, batch, rng, M, M2, pool, hi):
    tag = "h%d" % hi
    cid = rng.randbytes(32)
    cb, mb = rng.choice(LAT + [rng.randrange(2 ** 63)]), rng.choice(LAT + [rng.randrange(2 ** 63)])
    ctx = rng.randbytes(5)
    ledger = [cb, mb]
    disclosed = set()
    e = establish_request(h, M, cid, cb, mb, ctx, distinct_scalars(rng, 12, 0.0, avoid=(CLOSE, 0)))
    u1, u2 = rand_nz(rng), rand_nz(rng)
    mi = merchant_init(h, M, cid, cb, mb, e["proof_hex"], ctx, u=u1)
    if not run.check_monitor("honest_establish_accepted", mi["ok"], {"history": tag}):
        return
    cust = Cust(M, "requested", e["req_hex"])
    _, msg, bf = cust.expected_reply()
    honest = bsign_dl(M, u1, commit_msg_dl(M, msg, bf))
    pool.append(("closing_signature_of_another_session", honest))
    # the merchant's own call with its randomiser drawn as 0: a reply whose first element is the identity, handed over in
    # memory (its wire form would not even decode); it must be refused like any other bad reply, the state kept
    z = merchant_init(h, M, cid, cb, mb, e["proof_hex"], ctx, u=0)
    if z["ok"]:
        feed(run, h, batch, cust, "merchant_randomiser_zero", z["closing"], (0, 0), False, tag)
        close_on_copy(run, h, batch, rng, cust, ledger, disclosed, cid, tag)
    inject(run, h, batch, rng, M, M2, cust, pool[:-1], ledger, disclosed, cid, tag)
    t = feed(run, h, batch, cust, "honest", mi["closing"], honest, True, tag)
    if t[0] != "ok":
        return
    cust = Cust(M, "inactive", t[1], csig=unblind_dl(honest, bf))
    close_on_copy(run, h, batch, rng, cust, ledger, disclosed, cid, tag)
    h.rng(3, [u2])
    token = h.call("m_activate", M.handle, mi["vbs"])[0]
    _, msg, bf = cust.expected_reply()
    honest = bsign_dl(M, u2, commit_msg_dl(M, msg, bf))
    pool.append(("pay_token_of_another_session", honest))
    inject(run, h, batch, rng, M, M2, cust, pool[:-1], ledger, disclosed, cid, tag)
    t = feed(run, h, batch, cust, "honest", token, honest, True, tag)
    if t[0] != "ok":
        return
    cust = Cust(M, "ready", t[1], csig=cust.csig, tok=unblind_dl(honest, bf))
    close_on_copy(run, h, batch, rng, cust, ledger, disclosed, cid, tag)
    npay = rng.randrange(1, 4) if run.tier == "quick" else rng.randrange(0, 9)
    for pi in range(npay):
        cust = payment(run, h, batch, rng, M, M2, cust, pool, ledger, disclosed, cid, tag)
        if cust is None:
            return


def payment(run, h, batch, rng, M, M2, cust, pool, ledger, disclosed, cid, tag):
    cands = amounts_for(rng, ledger[0], ledger[1])
    good = [a for a in cands if 0 <= ledger[0] - a <= 2 ** 63 - 1 and 0 <= ledger[1] + a <= 2 ** 63 - 1]
    amt = rng.choice(good) if (good and rng.random() < 0.7) else rng.choice(cands)
    pctx = rng.randbytes(4)
    h.begin()
    h.rng(rng.randrange(2 ** 31))
    t = h.call("ready_start", cust.hex, amt, hx(pctx), M.cconfig)
    case = {"history": tag, "stage": "ready", "op": "start", "amount": amt, "ledger": list(ledger), "result": t[0], "script": h.end()}
    ncb, nmb = ledger[0] - amt, ledger[1] + amt
    fits = 0 <= ncb <= 2 ** 63 - 1 and 0 <= nmb <= 2 ** 63 - 1
    run.case(case, nontrivial=not fits)
    run.count("start " + ("ok" if fits else "refused"))
    run.check_monitor("payment_started_iff_balances_stay_in_range", (t[0] == "ok") == fits, case)
    pre = cust.coq()
    if t[0] != "ok":
        run.check_monitor("refusal_leaves_state_bytes_unchanged", t[1] == cust.hex, case)
        batch.add("r_step pk0 %s (EvStart %s (fq 1) (fq 2) (fq 3) (fq 4) (fq 5))" % (pre, zlit(amt)),
                  lambda r, case=case: run.check_corr("corr.customer_step", r[0] in (4, 5), dict(case, model=r[:2])))
        close_on_copy(run, h, batch, rng, cust, ledger, disclosed, cid, tag)
        return cust
    started_hex, nonce_hex, proof_hex = t[1], t[2], t[3]
    st = parse_started(started_hex)
    run.check_monitor("fresh_lock_is_new", st["new"]["lock"] not in disclosed and st["new"]["lock"] != st["old"]["lock"], case)

    def cmp(r, case=case, st=st):
        ok = r[0] == 2 and r[1] == st["old"]["nonce"] and r[2] == 3 and r[6] == st["new"]["cb"] and r[7] == st["new"]["mb"]
        run.check_corr("corr.customer_step", ok, dict(case, model=r[:9]))
    batch.add("r_step pk0 %s (EvStart %s (fq %s) (fq %s) (fq %s) (fq %s) (fq %s))" % (
        pre, zlit(amt), zlit(st["new"]["nonce"]), zlit(st["new"]["lock"]), zlit(st["bf_rev"]), zlit(st["bf_token"]), zlit(st["bf_close"])), cmp)
    started = Cust(M, "started", started_hex, csig=cust.csig)
    close_on_copy(run, h, batch, rng, started, ledger, disclosed, cid, tag)      # pre-payment balances while only started
    u1, u2 = rand_nz(rng), rand_nz(rng)
    a = merchant_allow(h, M, amt, unsc(nonce_hex), proof_hex, pctx, u=u1)
    if not run.check_monitor("honest_payment_accepted", a["ok"], case):
        return None
    _, msg, bf = started.expected_reply()
    honest = bsign_dl(M, u1, commit_msg_dl(M, msg, bf))
    pool.append(("closing_signature_of_earlier_payment", honest))
    z = merchant_allow(h, M, amt, unsc(nonce_hex), proof_hex, pctx, u=0)
    if z["ok"]:
        feed(run, h, batch, started, "merchant_randomiser_zero", z["closing"], (0, 0), False, tag)
        close_on_copy(run, h, batch, rng, started, ledger, disclosed, cid, tag)
    inject(run, h, batch, rng, M, M2, started, pool[:-1], ledger, disclosed, cid, tag)
    t = feed(run, h, batch, started, "honest", a["closing"], honest, True, tag)
    if t[0] != "ok":
        return None
    lock_released = unsc(t[2][:64])
    run.check_monitor("released_secret_belongs_to_old_state", lock_released == st["old"]["lock"], case)
    disclosed.add(lock_released)
    ledger[0], ledger[1] = ncb, nmb
    locked = Cust(M, "locked", t[1], csig=unblind_dl(honest, bf))
    close_on_copy(run, h, batch, rng, locked, ledger, disclosed, cid, tag)       # post-payment balances once locked
    h.rng(4, [u2])
    cp = h.call("u_complete", a["unrev"], t[2], t[3])
    if not run.check_monitor("honest_payment_accepted", cp[0] == "ok", case):
        return None
    _, msg, bf = locked.expected_reply()
    honest = bsign_dl(M, u2, commit_msg_dl(M, msg, bf))
    pool.append(("pay_token_of_earlier_payment", honest))
    if z["ok"]:
        # the pending payment of the second allow_payment call, completed with the randomiser drawn as 0
        h.rng(4, [0])
        zp = h.call("u_complete", z["unrev"], t[2], t[3])
        if zp[0] == "ok":
            feed(run, h, batch, locked, "merchant_randomiser_zero", zp[1], (0, 0), False, tag)
            close_on_copy(run, h, batch, rng, locked, ledger, disclosed, cid, tag)
    inject(run, h, batch, rng, M, M2, locked, pool[:-1], ledger, disclosed, cid, tag)
    t = feed(run, h, batch, locked, "honest", cp[1], honest, True, tag)
    if t[0] != "ok":
        return None
    ready = Cust(M, "ready", t[1], csig=locked.csig, tok=unblind_dl(honest, bf))
    close_on_copy(run, h, batch, rng, ready, ledger, disclosed, cid, tag)
    return ready
