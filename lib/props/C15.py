"""C15 - wire round-trips are lossless and decoded values satisfy every type invariant."""
from core import *
from wirelib import *

RULE = ("every serialisable type of both crates (N in {1,2,3,5}; protocol messages and customer states taken from a real "
        "establish + pay run): (1) decode / re-encode of the honest value; (2) the honest encoding with ONE atom replaced "
        "by each class: identity, x not on the curve, point outside the prime-order subgroup, another valid point; scalar "
        ">= q (q and 2^256-1), the close tag, zero, another valid scalar; balance 2^63 and 2^64-1; length prefix n-1, n+1, "
        "0, 2^32; revocation index + 1 - at every atom position (types with more than 40 atoms: 24 sampled positions in "
        "quick, all in thorough); ChannelId printing / parsing. Non-trivial = every replacement; distinct = (type, "
        "position, class).")
TRUSTED = ["theorems C15_* (codec_ok for every composition; scalar codec proved for q_bls; point codec laws are hypotheses = "
           "bls12_381's canonical injective compressed encodings)", "point tables for the model are built per run with "
           "bls12_381's decoder (labels, not discrete logs)"]
ASSUMPTIONS = ["'behaves identically in every subsequent operation': every harness op of every check passes its objects as "
               "bytes and decodes them again, so all other properties' runs exercise decoded values; C20 does it for "
               "customer states explicitly"]


def classes_for(kind, flags, h, rng, pts):
    if kind in ("g1", "g2"):
        g = 1 if kind == "g1" else 2
        w = 48 if g == 1 else 96
        bad = None
        while bad is None:
            x = bytearray(rng.randbytes(w))
            x[0] = (x[0] & 0x1f) | 0x80
            if h.call("classify", x.hex())[0] == "bad":
                bad = x.hex()
        return [("identity", G1_ID if g == 1 else G2_ID, bool(flags.get("nonid"))),
                ("not_on_curve_or_invalid", bad, True),
                ("outside_subgroup", h.call("offsub", g, rng.randrange(2 ** 31))[0], True),
                ("other_valid_point", pts.g(g, rand_nz(rng)), False),
                ("infinity_flag_with_garbage", ("c0" + "00" * (w - 2) + "01"), True)]
    if kind == "s":
        linked = bool(flags.get("lock") or flags.get("secret"))
        return [("scalar_q", sc_raw(Q), True), ("scalar_2^256-1", sc_raw(2 ** 256 - 1), True),
                # non-canonical aliases of valid-looking values (what a reducing conversion would accept): 1 + q, close tag + q
                ("scalar_1_plus_q", sc_raw(1 + Q), True), ("scalar_close_tag_plus_q", sc_raw(CLOSE + Q), True),
                ("close_tag", sc(CLOSE), bool(flags.get("nonce")) or linked),
                ("zero", sc(0), bool(flags.get("nonzero")) or linked),
                ("other_valid_scalar", sc(rand_nz(rng)), linked)]
    if kind == "u64":
        return [("2^63", (2 ** 63).to_bytes(8, "little").hex(), bool(flags.get("balance"))),
                ("2^64-1", (2 ** 64 - 1).to_bytes(8, "little").hex(), bool(flags.get("balance"))),
                ("2^63-1", (2 ** 63 - 1).to_bytes(8, "little").hex(), False), ("zero", "00" * 8, False)]
    if kind == "len":
        n = flags["n"]
        return [("len-1", le8(n - 1), True), ("len+1", le8(n + 1), True), ("len0", le8(0), True), ("len2^32", le8(2 ** 32), True)]
    if kind == "u8":
        return [("index+1", None, bool(flags.get("index"))), ("index_255", "ff", bool(flags.get("index"))),
                ("index_254", "fe", bool(flags.get("index")))]
    if kind == "i64":
        return [("i64_min", (2 ** 63).to_bytes(8, "little").hex(), False), ("minus1", "ff" * 8, False)]
    return [("other_bytes", rng.randbytes(WIDTH[kind]).hex(), False)]


def run(run, h):
    pts = Points(h)
    rng = run.rng
    batch = Batch("C15")
    ns = (1, 2, 3, 5) if run.tier == "quick" else (1, 2, 3, 5, 8, 13)
    S, M = samples(h, pts, rng, ns)
    if "_stopped" in S:
        run.check_corr("corr.C15.honest_flows_complete_as_in_the_model", False, {"stopped": S.pop("_stopped")})
    T = type_table(ns)
    names = [n for n in T if n in S]
    for ti, name in enumerate(names):
        layout, coq = T[name]
        base = S[name]
        offs, total = offsets(layout)
        case0 = {"type": name, "bytes": total}
        if not run.check_corr("corr.C15.layout_size", total == len(base) // 2, dict(case0, actual=len(base) // 2)):
            continue
        r = h.call("decode", name, base)
        run.case(dict(case0, op="roundtrip"), nontrivial=False)
        run.count("type " + name.split("@")[0])
        run.check_monitor("honest_value_round_trips", r[0] == "ok" and r[1] == base, dict(case0, result=r[0]))
        atoms = list(enumerate(offs))
        if run.tier == "quick" and len(atoms) > 40:
            atoms = rng.sample(atoms, 24)
        muts = []
        for ai, (o, w, kind, fl) in atoms:
            for cls, repl, invalid in classes_for(kind, fl, h, rng, pts):
                if repl is None:
                    repl = "%02x" % ((int(base[2 * o:2 * o + 2], 16) + 1) % 256)
                if repl == base[2 * o:2 * (o + w)]:
                    continue
                mutated = base[:2 * o] + repl + base[2 * (o + w):]
                muts.append((ai, kind, cls, invalid, mutated))
        # model tables: all point atoms of the sample and of the mutated encodings
        t1, t2 = point_tables(h, [base] + [m[4] for m in muts], [layout] * (len(muts) + 1))
        if coq:
            batch.define("t1_%d" % ti, coq_table(t1))
            batch.define("t2_%d" % ti, coq_table(t2))
            batch.define("cg1_%d" % ti, "c_point 48 t1_%d" % ti)
            batch.define("cg2_%d" % ti, "c_point 96 t2_%d" % ti)
            cexpr = coq.replace("cg1", "cg1_%d" % ti).replace("cg2", "cg2_%d" % ti).replace("cs", "c_scalar_q")

            def cmp0(rr, case0=case0, base=base):
                ok = rr[0] == 1 and bytes(rr[3:]).hex() == base and rr[2] == 0
                run.check_corr("corr.C15.decode", ok, dict(case0, op="roundtrip", model=rr[:3]))
            batch.add("run_codec %s %s" % (cexpr, zlist(list(bytes.fromhex(base)))), cmp0)
        for ai, kind, cls, invalid, mutated in muts:
            r = h.call("decode", name, mutated)
            got = r[0] == "ok"
            case = dict(case0, atom=ai, kind=kind, cls=cls, impl=got)
            run.case(case)
            run.count("class " + cls)
            if invalid:
                run.check_monitor("invalid_atom_never_decodes", not got, case)
            else:
                run.check_monitor("valid_replacement_decodes_canonically", got and r[1] == mutated, case)
            if coq:
                def cmp(rr, case=case, got=got, mutated=mutated):
                    ok = (rr[0] == 1) == got and (not got or bytes(rr[3:]).hex() == mutated)
                    run.check_corr("corr.C15.decode", ok, dict(case, model=rr[:3]))
                batch.add("run_codec %s %s" % (cexpr, zlist(list(bytes.fromhex(mutated)))), cmp)
    # channel id text form
    for _ in range(4 if run.tier == "quick" else 40):
        cid = rng.randbytes(32)
        txt = bytes.fromhex(h.call("cid_print", cid.hex())[0])
        back = h.call("cid_parse", txt.hex())
        import base64
        case = {"type": "ChannelId text", "cid": cid.hex()}
        run.case(case)
        run.count("channel id text")
        run.check_monitor("channel_id_text_round_trips", back == ["ok", cid.hex()] and txt == base64.b64encode(cid), case)
        # only what the property and the documented parse errors state: a text of another decoded length is refused
        for b in [base64.b64encode(cid + b"\x00"), base64.b64encode(cid[:31]), b"", b"!" + txt[1:]]:
            rb = h.call("cid_parse", hx(b))
            run.check_monitor("channel_id_text_of_wrong_length_or_alphabet_refused", rb[0] == "error", dict(case, text=b.decode("latin1")))
        # the Gallina printer / parser (Model/Base64.v) against the implementation: print; parse of the printed text; parse of
        # encodings of other lengths (0..40 bytes), of a text with a foreign first character and of a text with non-zero
        # unused bits in front of the padding (all refused by both)
        def cmp_print(rr, case=case, txt=txt):
            run.check_corr("corr.C15.channel_id_print", bytes(rr) == txt, dict(case, model=bytes(rr).decode("latin1")))
        batch.add("r_cid_print %s" % zlist(list(cid)), cmp_print)
        ln = rng.choice([0, 1, 2, 3, 30, 31, 33, 34, 40])
        other = rng.randbytes(ln)
        alphabet = b"ABCDEFGHIJKLMNOPQRSTUVWXYZabcdefghijklmnopqrstuvwxyz0123456789+/"
        last = alphabet.index(txt[42:43])
        texts = [("printed", txt), ("other_length_%d" % ln, base64.b64encode(other)), ("foreign_first_character", b"!" + txt[1:]),
                 ("foreign_first_character_2", bytes([rng.choice([32, 45, 95])]) + txt[1:]),
                 ("nonzero_unused_bits", txt[:42] + alphabet[last + 1:last + 2] + b"=")]
        for nm, t in texts:
            rb = h.call("cid_parse", hx(t))

            def cmp_parse(rr, case=case, rb=rb, nm=nm, t=t):
                if rr[0] == 1:
                    ok = rb == ["ok", bytes(rr[1:]).hex()]
                else:
                    ok = rb == (["error", "length", str(rr[1])] if rr[0] == 2 else ["error", "decode"])
                run.check_corr("corr.C15.channel_id_parse", ok, dict(case, text=t.decode("latin1"), kind=nm, model=rr[:2], impl=rb[:2]))
            batch.add("r_cid_parse %s" % zlist(list(t)), cmp_parse)
    batch.flush()
