"""C19 - generated keys and parameters are well-formed for every randomness stream."""
from core import *
from pslib import *

RULE = ("KeyPair::new for N in {1,2,3,5,8,13,17,34}, PedersenParameters::new (G1, G2), RangeConstraintParameters::new and "
        "merchant::Config::new under uniformly random streams and under streams whose scalar draws contain an all-zero "
        "window at every draw index (0..N+1) with widths 1-3 (the scripted RNG serves whole 64-byte scalar requests, so "
        "windows align with draws). Outputs are related to the stream order-free, re-decoded (runs the library's own "
        "validators), checked with pairings between the G1 and G2 halves, and used to sign and verify. Non-trivial = "
        "streams containing at least one zero draw; distinct = distinct (N, window).")
TRUSTED = ["theorems C19_* for every stream; correspondence ops: kp_new, ped_new, rp_new, m_new, decode, sign, sig_verify"]
ASSUMPTIONS = ["G::random of bls12_381 0.4 never returns the identity, so the identity retry loop cannot be driven from "
               "outside; it is covered by the theorem and by re-decoding only (a mutation removing it is behaviourally "
               "invisible with this dependency)"]
NS = [1, 2, 3, 5, 8, 13, 17, 34]
G1_ID_HEX = "c0" + "00" * 47


def run(run, h):
    pts = Points(h)
    rng = run.rng
    batch = Batch("C19")
    for n in NS:
        windows = [(None, 0)]
        for idx in range(n + 2):
            for w in (1, 2, 3):
                windows.append((idx, w))
        if run.tier == "quick" and len(windows) > 10:
            windows = [windows[0]] + rng.sample(windows[1:], 9)
        for idx, w in windows:
            key_case(run, h, pts, batch, rng, n, idx, w)
    for grp in (1, 2):
        for n in NS:
            h.rng(rng.randrange(2 ** 31))
            p = h.call("ped_new", grp, n)[0]
            b = bytes.fromhex(p)
            l = 48 if grp == 1 else 96
            atoms = [b[:l].hex()] + [b[l + 8 + i * l:l + 8 + (i + 1) * l].hex() for i in range(n)]
            case = {"op": "pedersen_new", "G": grp, "N": n}
            run.case(case, nontrivial=False)
            run.count("pedersen_new")
            run.check_monitor("generated_parameters_have_no_identity", all(h.call("classify", a)[0] == "ok" for a in atoms), case)
            run.check_monitor("generated_values_pass_decode_validation", h.call("decode", "PedersenG%d@%d" % (grp, n), p) == ["ok", p], case)
    for i in range(1 if run.tier == "quick" else 3):
        # zero windows inside the range-parameter key generation
        tape = [0] * i + [rand_nz(rng)] + [0] * (i + 1) + [rand_nz(rng)]
        h.rng(rng.randrange(2 ** 31), tape)
        rp = h.call("rp_new")[0]
        case = {"op": "range_params_new", "zero_prefix": i}
        run.case(case)
        run.count("range_params_new")
        run.check_monitor("range_parameters_validate", (h.try_call("rp_validate", rp) or ["0"])[0] == "1", case)
        # each digit signature is made with its own fresh non-identity base: 128 pairwise different first elements (signatures
        # sharing a base are linearly related - from two of them a signature on any value follows)
        s1 = [rp[192 * k:192 * k + 96] for k in range(128)]
        run.check_monitor("digit_signatures_have_independent_bases", len(set(s1)) == 128 and G1_ID_HEX not in s1, case)
        run.check_monitor("generated_values_pass_decode_validation", h.call("decode", "RangeConstraintParameters", rp) == ["ok", rp], case)
    h.rng(rng.randrange(2 ** 31), [0, 0, rand_nz(rng), 0])
    t = h.call("m_new")
    case = {"op": "merchant_config_new"}
    run.case(case)
    run.check_monitor("generated_values_pass_decode_validation",
                      h.call("decode", "KeyPair@5", t[1])[0] == "ok" and h.call("decode", "PedersenG1@1", t[2])[0] == "ok"
                      and (h.try_call("rp_validate", t[3]) or ["0"])[0] == "1", case)
    batch.flush()


def key_case(run, h, pts, batch, rng, n, idx, w):
    nz = [rand_nz(rng) for _ in range(n + 1)]
    if idx is None:
        tape = list(nz)
    else:
        tape = nz[:idx] + [0] * w + nz[idx:]
    seed = rng.randrange(2 ** 31)
    h.begin()
    # the window's draws reduce to the zero scalar; the 64-byte blocks behind them are all-zero or - every other run - non-zero
    # multiples of q (q, 2q in the low half; q * 2^256 with an all-zero low half; a random multiple below 2^512)
    blocks = None
    if idx is not None and rng.random() < 0.5:
        zero_like = [Q, 2 * Q, Q << 256, Q * rng.randrange(1, 2 ** 256), 0]
        blocks = nz[:idx] + [rng.choice(zero_like) for _ in range(w)] + nz[idx:]
    key = generated_key(h, pts, n, seed, tape, blocks=blocks)
    served, _ = h.served()
    a = key["atoms"]
    case = {"op": "keygen", "N": n, "zero_window": [idx, w], "tape": tape, "blocks": [hex(b) for b in blocks] if blocks else None,
            "script": h.end()}
    run.case(case, nontrivial=(idx is not None))
    run.count("keygen N%d" % n)
    run.count("window width %d" % w)
    run.count("window blocks: " + ("non-zero multiples of q" if blocks else "all-zero"))
    sk = [a["x"]] + a["ys"]
    run.check_monitor("secret_scalars_nonzero", all(s != 0 for s in sk), dict(case, sk=sk))
    # order-free relation to the stream: the secret scalars are exactly the non-zero draws that were served
    nonzero_served = [s for s in served if s != 0]
    run.check_corr("corr.C19.secret_scalars_are_the_nonzero_draws", set(sk) <= set(nonzero_served) and len(set(sk)) == n + 1,
                   dict(case, served=served))
    # the stream given to the model: the served scalars with the draws that did not end up in the key dropped (a harmless
    # extra draw) and the others NAMED by their role (x, y_1, ..), zeros kept where they were served - so the order in which
    # the code draws x and the y_i does not matter, while every zero the code had to skip is still in front of the model
    it = iter(sk)
    in_key = set(sk)
    model_stream = [0 if v == 0 else next(it, 0) for v in served if v == 0 or v in in_key][: len(served)]
    elems = [a["g1"], a["g2"], a["x2"], a["x1"]] + a["y1s"] + a["y2s"]
    run.check_monitor("public_elements_not_identity", all(h.call("classify", e)[0] == "ok" for e in elems), case)
    ok = h.call("pair_eq", a["x1"], a["g2"], a["g1"], a["x2"])[0] == "1"
    for y1, y2 in zip(a["y1s"], a["y2s"]):
        ok = ok and h.call("pair_eq", y1, a["g2"], a["g1"], y2)[0] == "1"
    run.check_monitor("g1_and_g2_halves_share_discrete_logs", ok, case)
    run.check_monitor("generated_values_pass_decode_validation", h.call("decode", "KeyPair@%d" % n, key["kp_hex"]) == ["ok", key["kp_hex"]], case)
    ms = [rand_scalar(rng, 0.5) for _ in range(n)]
    h.rng(4)
    s = h.try_call("sign", n, key["kp_hex"], scs(ms))
    sv = h.try_call("sig_verify", n, key["pk_hex"], scs(ms), s[1]) if s else None
    run.check_monitor("signature_with_generated_key_verifies", bool(sv) and sv[0] == "1", case)
    basis = key["basis"]

    def cmp(r, case=case, a=a, n=n):
        ok = r[0] == 1 and r[1] == a["x"] and r[2:2 + n] == a["ys"]
        o = 2 + n
        ok = ok and basis.g1(r[o]) == a["x1"] and basis.g2(r[o + 1]) == a["x2"]
        o += 2
        ok = ok and all(basis.g1(r[o + i]) == a["y1s"][i] for i in range(n))
        o += n
        ok = ok and all(basis.g2(r[o + i]) == a["y2s"][i] for i in range(n))
        o += n
        ok = ok and r[o:] == [1, 1]
        run.check_corr("corr.C19.keygen_stream", ok, dict(case, model=r[:3]))
    batch.add("r_keygen_stream %d %s" % (n, zlist(model_stream)), cmp)
