"""C13 - range constraints accept exactly values in [0, 2^63) linked to the message."""
from core import *
from pslib import *
from schnorrlib import *
from rangelib import *

RULE = ("range prover over the i64 lattice {i64::MIN, -2^62, -1, 0, 1, 127, 128, 128^k +- 1, 2^62, 2^63-1} and random; "
        "honest constraints checked with right / wrong link, parameters and challenge; constraints assembled from bytes "
        "out of the published digit signatures with known discrete logs: arbitrary digit choices (all-maximal, swapped, "
        "random), a digit signature claimed for another digit, linked values outside the range, 8 / 10 proofs on the "
        "wire, errors in two digit proofs that cancel in an unweighted combination, a digit proof under an attacker's key, a later "
        "position repeating an earlier position's blinded signature (with a foreign commitment / as a whole copy); parameter sets under single-signature substitutions (another digit's signature, re-randomised, foreign "
        "key, tampered). Non-trivial = every case other than the plain honest one; distinct = distinct input digest.")
TRUSTED = ["theorems C13_* (digit arithmetic over Z by lia, relations over an arbitrary field); correspondence ops: rc_prove, "
           "rc_verify, rp_validate"]
ASSUMPTIONS = ["'no constraint verifies outside the range' = special soundness (proved) + only the 128 published signatures "
               "exist for the discarded range key (PS unforgeability; named, not proved)"]
I64_MIN = -2 ** 63
LATTICE = [I64_MIN, I64_MIN + 1, -2 ** 62, -129, -128, -1, 0, 1, 127, 128, 129, 128 ** 2 - 1, 128 ** 2, 128 ** 2 + 1,
           128 ** 5 - 1, 128 ** 5, 128 ** 8 - 1, 128 ** 8 + 1, 2 ** 62, 2 ** 63 - 2, 2 ** 63 - 1]


def run(run, h):
    pts = Points(h)
    rng = run.rng
    batch = Batch("C13")
    rp = make_rparams(h, pts, rng)
    rp2 = make_rparams(h, pts, rng)
    batch.define("rp0", coq_rp(rp))
    batch.define("rp1", coq_rp(rp2))
    vals = LATTICE + [rng.randrange(-2 ** 63, 2 ** 63) for _ in range(4 if run.tier == "quick" else 60)]
    for v in vals:
        prover_case(run, h, pts, batch, rng, rp, rp2, v)
    k = 14 if run.tier == "quick" else 140
    for i in range(k):
        assembled_case(run, h, pts, batch, rng, rp, i)
    # a forged digit proof at EVERY digit position (the verifier must look at all nine)
    for j in range(9):
        assembled_case(run, h, pts, batch, rng, rp, 3, pos=j)
        assembled_case(run, h, pts, batch, rng, rp, 7, pos=j)
        assembled_case(run, h, pts, batch, rng, rp, 8, pos=j)
        if j > 0:
            assembled_case(run, h, pts, batch, rng, rp, 12, pos=j)
    validate_cases(run, h, pts, batch, rng, rp, rp2)
    generated_params_case(run, h, rng)
    batch.flush()


def rc_verify(h, rc_hex, rp_hex, mode, ctx, e):
    st, t = h.raw("rc_verify", rc_hex, rp_hex, mode, hx(ctx), sc(e))
    if st == "err":
        return "undecodable"
    if st == "panic":
        raise Panic(t[0])
    return t[0] == "1"


def coq_ps(dps_dl):
    return "[" + "; ".join(zlist([d["s1"], d["s2"], d["C"], d["T"], d["rbf"]] + d["rs"]) for d in dps_dl) + "]"


def prover_case(run, h, pts, batch, rng, rp, rp2, v):
    ctx = rng.randbytes(6)
    draws = [(rand_scalar(rng, 0.1), rand_scalar(rng, 0.1), rand_scalar(rng, 0.1), rand_nz(rng)) for _ in range(9)]
    tape = [x for d in draws for x in d]
    h.begin()
    h.rng(4, tape)
    t = h.call("rc_prove", v, rp["hex"], hx(ctx))
    served, _ = h.served()
    case = {"op": "prove", "value": v, "tape": tape}
    run.count("prove %s" % ("negative" if v < 0 else "nonnegative"))
    run.check_monitor("prover_accepts_exactly_nonnegative", (t[0] == "ok") == (v >= 0), dict(case, impl=t[0], script=h.end() if v < 0 else None))
    if t[0] != "ok":
        run.case(case)

        def cmp0(r, case=case):
            run.check_corr("corr.C13.range_prove", r == [0], dict(case, model=r))
        batch.add("r_range_prove rp0 %s [] 0" % zlit(v), cmp0)
        return
    rc_hex, cs, c = t[1], unsc(t[2]), unsc(t[3])
    e = (c * v + cs) % Q
    # honest constraint x {right, wrong} x {link, parameters, challenge}
    res = {
        "right": rc_verify(h, rc_hex, rp["hex"], "p", ctx, e),
        "wrong_link": rc_verify(h, rc_hex, rp["hex"], "p", ctx, (e + rng.choice([1, c, rand_nz(rng)])) % Q),
        "wrong_params": rc_verify(h, rc_hex, rp2["hex"], "p", ctx, e),
        "wrong_challenge": rc_verify(h, rc_hex, rp["hex"], "p", rng.randbytes(7), e),
    }
    case["script"] = h.end()
    run.case(case)
    run.check_monitor("honest_constraint_verifies", res["right"] is True, dict(case, res=res))
    run.check_monitor("honest_constraint_rejects_mismatch",
                      res["wrong_link"] is False and res["wrong_params"] is False and res["wrong_challenge"] is False,
                      dict(case, res=res))
    dps = parse_rc(rc_hex)
    ds = digits(v)
    rec = [recover_digit_draws(pts, rp, served, dps[j], ds[j], c) for j in range(9)]
    if not run.check_corr("corr.C13.randomness_is_fresh_draws", all(r is not None for r in rec), dict(case, served=served)):
        return

    def cmp(r, case=case, dps=dps, cs=cs):
        ok = r[0] == 1 and r[1] == cs
        body = r[2:]
        for j in range(9):
            a = body[j * 6:(j + 1) * 6]
            d = dps[j]
            ok = ok and (pts.g1(a[0]) == d["s1"] and pts.g1(a[1]) == d["s2"] and pts.g2(a[2]) == d["C"]
                         and pts.g2(a[3]) == d["T"] and a[4] == d["rbf"] and a[5:] == d["rs"])
        run.check_corr("corr.C13.range_prove", ok, dict(case, model=r[:4]))
    batch.add("r_range_prove rp0 %s [%s] %s" % (zlit(v), "; ".join("(%s, %s, %s, %s)" % tuple(zlit(x) for x in d) for d in rec),
                                               zlit(c)), cmp)


def craft_digit_proof(rp, d_msg, d_sig, c, rng):
    """a signature proof for message d_msg around the published signature on digit d_sig (dls)"""
    pk = rp["pk"]
    s1, s2 = rp["sigs"][d_sig]
    bf, kbf, k, r = rand_scalar(rng, 0.1), rand_scalar(rng, 0.1), rand_scalar(rng, 0.1), rand_nz(rng)
    cp = craft_cp(pk["g2"], pk["y2s"], [d_msg], bf, kbf, [k], c)
    return dict(cp, s1=s1 * r % Q, s2=(s2 + s1 * bf) * r % Q, k=k)


def wire_of(pts, dps):
    return "".join(sp_bytes(pts.g1(d["s1"]), pts.g1(d["s2"]), pts.g2(d["C"]), pts.g2(d["T"]), d["rbf"], d["rs"]) for d in dps)


def assembled_case(run, h, pts, batch, rng, rp, i, pos=None):
    ctx = rng.randbytes(6)
    c = ctx_chal(ctx)
    KINDS = ["all_max", "swapped", "random_digits", "foreign_digit_signature", "outside_range_link", "ten_proofs",
             "eight_proofs", "digit_128_claim", "proof_under_attacker_key", "cancelling_sigma2_pair", "cancelling_claims",
             "cancelling_scalar_commitments", "repeated_blinded_signature", "repeated_digit_proof"]
    kind = KINDS[i % len(KINDS)]
    ds = [rng.randrange(128) for _ in range(9)]
    if kind == "all_max":
        ds = [127] * 9
    claim = list(ds)          # messages the proofs are about
    sigidx = list(ds)         # which published signature each proof is built around
    if kind == "foreign_digit_signature":
        j = rng.randrange(9) if pos is None else pos
        sigidx[j] = (ds[j] + rng.randrange(1, 128)) % 128
    if kind == "digit_128_claim":
        j = rng.randrange(9) if pos is None else pos
        claim[j] = 128          # no signature on 128 was published: use the one on 0 (128 mod 128)
        sigidx[j] = 0
    dps = [craft_digit_proof(rp, claim[j], sigidx[j], c, rng) for j in range(9)]
    attacker_pos = None
    if kind == "proof_under_attacker_key":
        # one digit position carries a proof that is perfectly valid - under a key the attacker generated - on an
        # arbitrary scalar D (e.g. 128 in the top position gives the value 2^63)
        attacker_pos = rng.randrange(9) if pos is None else pos
        D = rng.choice([128, Q - 1, rand_nz(rng)])
        ax, ay, ag2 = rand_nz(rng), rand_nz(rng), rand_nz(rng)
        a = rand_nz(rng)
        bf, kbf, k, r = rand_nz(rng), rand_nz(rng), rand_nz(rng), rand_nz(rng)
        cp = craft_cp(ag2, [ag2 * ay % Q], [D], bf, kbf, [k], c)
        s1, s2 = a, a * (ax + ay * D) % Q
        dps[attacker_pos] = dict(cp, s1=s1 * r % Q, s2=(s2 + s1 * bf) * r % Q, k=k)
        claim[attacker_pos] = D
    if kind in ("repeated_blinded_signature", "repeated_digit_proof"):
        # a later digit position shows the SAME blinded signature as an earlier one: with the same commitment proof it is the
        # same (genuine) digit twice; with a commitment to another scalar D the pairing equation of that position fails - each
        # position's pairing check is about its own commitment, whatever was checked before
        a, b = sorted(rng.sample(range(9), 2))
        if pos is not None and pos > 0:
            a, b = rng.randrange(pos), pos
        if kind == "repeated_digit_proof":
            dps[b] = dict(dps[a])
            claim[b], sigidx[b] = claim[a], sigidx[a]
        else:
            D = rng.choice([128, 255, rand_nz(rng)])
            bf, kbf, k = rand_nz(rng), rand_nz(rng), rand_nz(rng)
            cp = craft_cp(rp["pk"]["g2"], rp["pk"]["y2s"], [D], bf, kbf, [k], c)
            dps[b] = dict(cp, s1=dps[a]["s1"], s2=dps[a]["s2"], k=k)
            claim[b] = D
    cancelling = kind.startswith("cancelling")
    if cancelling:
        # errors in TWO digit proofs that cancel when the nine relations are multiplied / added together without random
        # weights; each digit proof alone is invalid
        a, b = sorted(rng.sample(range(9), 2)) if pos is None else (pos, (pos + 1 + rng.randrange(8)) % 9)
        if kind == "cancelling_sigma2_pair":
            d_ = rand_nz(rng)
            dps[a]["s2"] = (dps[a]["s2"] + d_) % Q
            dps[b]["s2"] = (dps[b]["s2"] - d_) % Q
        elif kind == "cancelling_scalar_commitments":
            d_ = rand_nz(rng)
            dps[a]["T"] = (dps[a]["T"] + d_) % Q
            dps[b]["T"] = (dps[b]["T"] - d_) % Q
        else:
            # both proofs around the published signature on 0 with the SAME randomiser, claiming D and -D: the two pairing
            # equations are off by opposite factors
            D = rng.choice([1, 5, rand_nz(rng)])
            pk = rp["pk"]
            s1, s2 = rp["sigs"][0]
            r = rand_nz(rng)
            for j, m in ((a, D), (b, (Q - D) % Q)):
                bf, kbf, k = rand_nz(rng), rand_nz(rng), rand_nz(rng)
                cp = craft_cp(pk["g2"], pk["y2s"], [m], bf, kbf, [k], c)
                dps[j] = dict(cp, s1=s1 * r % Q, s2=(s2 + s1 * bf) * r % Q, k=k)
                claim[j], sigidx[j] = m, 0
    value = sum(claim[j] * 128 ** j for j in range(9))
    ksum = sum(dps[j]["k"] * pow(128, j, Q) for j in range(9)) % Q
    e = (c * value + ksum) % Q
    wire = wire_of(pts, dps)
    n_wire = 9
    if kind == "swapped":
        # present the digits in another order but claim the link of the original value
        perm = list(range(9))
        a, b = rng.sample(range(9), 2)
        perm[a], perm[b] = perm[b], perm[a]
        dps = [dps[p] for p in perm]
        wire = wire_of(pts, dps)
    if kind == "outside_range_link":
        e = (c * (value + 2 ** 63) + ksum) % Q
    if kind == "ten_proofs":
        wire = wire + wire_of(pts, [craft_digit_proof(rp, 1, 1, c, rng)])
        n_wire = 10
    if kind == "eight_proofs":
        wire = wire_of(pts, dps[:8])
        n_wire = 8
    h.begin()
    got = rc_verify(h, wire, rp["hex"], "b", ctx, e)
    case = {"op": "assembled", "kind": kind, "claim": claim, "sigidx": sigidx, "e": e, "c": c, "proofs_on_wire": n_wire,
            "script": h.end()}
    run.case(case)
    run.count("assembled " + kind)
    if kind == "eight_proofs":
        run.check_monitor("short_constraint_undecodable", got == "undecodable", dict(case, impl=got))
        return
    # the property's predicate: accepted => every digit proof is about a published digit with its own signature,
    # and e is the response for a value in [0, 2^63)
    presented = [(claim[j], sigidx[j]) for j in range(9)] if kind != "swapped" else None
    genuine = all(claim[j] == sigidx[j] and 0 <= claim[j] < 128 for j in range(9)) and attacker_pos is None and not cancelling
    if kind == "swapped":
        v_presented = sum(dps[j]["rs"][0] * pow(128, j, Q) for j in range(9)) % Q
        expect = genuine and v_presented == e
    else:
        expect = genuine and kind != "outside_range_link"
    run.check_monitor("accepts_exactly_nine_genuine_digits_summing_to_link", got == expect, dict(case, impl=got, expect=expect))
    if expect and kind in ("all_max", "random_digits", "ten_proofs"):
        run.check_monitor("accepted_value_within_range", 0 <= value <= 2 ** 63 - 1, case)

    def cmp(r, case=case, got=got):
        run.check_corr("corr.C13.range_verify", bool(r[0]) == got, dict(case, model=r[0], impl=got))
    batch.add("r_range_verify rp0 %s %s %s" % (coq_ps(dps[:9]), zlit(c), zlit(e)), cmp)


def validate_cases(run, h, pts, batch, rng, rp, rp2):
    kinds = ["honest", "other_digit", "rerandomised", "foreign_key", "tampered_s2", "swap_two"]
    reps = 1 if run.tier == "quick" else 6
    for kind in kinds:
        for _ in range(reps):
            sigs = list(rp["sigs"])
            i = rng.randrange(128)
            if kind == "other_digit":
                j = (i + rng.randrange(1, 128)) % 128
                sigs[i] = rp["sigs"][j]
            elif kind == "rerandomised":
                r = rand_nz(rng)
                sigs[i] = (sigs[i][0] * r % Q, sigs[i][1] * r % Q)
            elif kind == "foreign_key":
                sigs[i] = rp2["sigs"][i]
            elif kind == "tampered_s2":
                sigs[i] = (sigs[i][0], (sigs[i][1] + 1) % Q)
            elif kind == "swap_two":
                j = (i + 1) % 128
                sigs[i], sigs[j] = sigs[j], sigs[i]
            body = "".join(pts.many(1, [d for s in sigs for d in s]))
            h.begin()
            got = h.call("rp_validate", body + rp["key"]["pk_hex"])[0] == "1"
            case = {"op": "validate", "kind": kind, "i": i, "script": None}
            h.end()
            run.case(case)
            run.count("validate " + kind)
            run.check_monitor("validate_accepts_exactly_valid_sets", got == (kind in ("honest", "rerandomised")), dict(case, impl=got))
            rpx = dict(rp, sigs=sigs)

            def cmp(r, case=case, got=got):
                run.check_corr("corr.C13.validate", bool(r[0]) == got, dict(case, model=r[0], impl=got))
            batch.add("r_validate %s" % coq_rp(rpx), cmp)


def generated_params_case(run, h, rng):
    """parameters from RangeConstraintParameters::new: honest constraint verifies, extremes included"""
    h.rng(rng.randrange(2 ** 32))
    rph = h.call("rp_new")[0]
    s1 = [rph[192 * k:192 * k + 96] for k in range(128)]
    run.check_monitor("digit_signatures_have_independent_bases", len(set(s1)) == 128, {"op": "generated_params"})
    for v in (0, 2 ** 63 - 1, rng.randrange(2 ** 63)):
        ctx = rng.randbytes(5)
        t = h.call("rc_prove", v, rph, hx(ctx))
        c, cs = unsc(t[3]), unsc(t[2])
        ok = rc_verify(h, t[1], rph, "p", ctx, (c * v + cs) % Q)
        bad = rc_verify(h, t[1], rph, "p", ctx, (c * (v + 1) + cs) % Q)
        case = {"op": "generated_params", "value": v}
        run.case(case)
        run.count("generated params")
        run.check_monitor("honest_constraint_verifies", ok is True, case)
        run.check_monitor("honest_constraint_rejects_mismatch", bad is False, case)
