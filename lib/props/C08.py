"""C08 - blind signing yields a signature on exactly the message proven in the request."""
from core import *
from pslib import *
from schnorrlib import *

RULE = ("for N in {1,2,3,5,8,13,17,34}, a key with chosen discrete logs and a key from KeyPair::new: honest signature "
        "requests from the library prover (messages over the edge set and random), verified, blind-signed (u random / 1 "
        "/ 0), unblinded with the requester's factor and verified on the message and on every single-coordinate "
        "change; every single-field tamper of the request (C, T, blinding-factor response, each response scalar) and a "
        "changed challenge. Non-trivial = every case; distinct = distinct input digest.")
TRUSTED = ["theorems C08_* over an arbitrary field; correspondence ops: srp_prove, srp_verify, vbm_sign, bsig_unblind, sig_verify"]
ASSUMPTIONS = ["'on no tuple differing in any coordinate': proved for single-coordinate differences; a multi-coordinate "
               "difference is accepted iff <Y~, m - m'> = 0 (theorem), which needs a discrete log of the key (not proved)"]
NS = [1, 2, 3, 5, 8, 13, 17, 34]
G1_COFACTOR = 0x396c8c005555e1568c00aaab0000aaab
G1_ID_HEX = "c0" + "00" * 47


def run(run, h):
    pts = Points(h)
    rng = run.rng
    batch = Batch("C08")
    std = Basis(h, pts)
    rounds = 1 if run.tier == "quick" else 8
    for n in NS:
        keys = [make_key(std, rng, n), generated_key(h, pts, n, rng.randrange(2 ** 32))]
        for key in keys:
            for _ in range(rounds):
                one(run, h, batch, rng, key)
            for shape in rng.sample(SHAPES, 2 if run.tier == "quick" else len(SHAPES)):
                one(run, h, batch, rng, key, shape)
    batch.flush()


def one(run, h, batch, rng, key, shape=None):
    n, pk, basis = key["n"], key["pk"], key["basis"]
    ms = [rand_scalar(rng, 0.5) for _ in range(n)]
    bf, kbf = rand_scalar(rng, 0.15), rand_scalar(rng, 0.15)
    if shape:
        ms = shaped_tuple(rng, n, shape)
        bf = rng.choice([bf, rng.randrange(2 ** 63, 2 ** 64), 0])
        run.count("shape " + shape)
    ks = [rand_scalar(rng, 0.15) for _ in range(n)]
    u = rng.choice([rand_nz(rng), rand_nz(rng), 1, 0])
    ctx = rng.randbytes(6)
    h.begin()
    h.rng(5, [bf, kbf] + ks)
    proof, bf_o, cs, chal, chal2, rs = h.call("srp_prove", n, key["pk_hex"], scs(ms), "0" * n, "-", hx(ctx))
    served, _ = h.served()
    c = unsc(chal)
    p = parse_cp(1, n, proof)
    t = h.call("srp_verify", n, key["pk_hex"], proof, "p", hx(ctx))
    case = {"N": n, "key": "generated" if basis.b1 else "known", "pk": pk, "sk": key["sk"], "ms": ms, "u": u,
            "tape": [bf, kbf] + ks}
    run.count("request key=%s" % case["key"])
    if not run.check_monitor("honest_request_yields_blind_signable_value", t[0] == "1", dict(case, script=h.end())):
        run.case(case)
        return
    h.rng(6, [u])
    bs_hex, bs_tok = h.call("vbm_sign", n, key["kp_hex"], t[2])
    sg_hex, sg_tok = h.call("bsig_unblind", bs_tok, bf_o)
    ver = h.call("sig_verify", n, key["pk_hex"], scs(ms), sg_tok)[0] == "1"
    script = h.end()
    case["script"] = script
    run.case(case)
    run.count("u=%s" % ("0" if u == 0 else "nz"))
    run.check_monitor("unblinded_signature_verifies_on_requested_message", ver == (u != 0), dict(case, impl=ver))
    for j in pick_coords(rng, n, 3, run.tier == "thorough"):
        ms2 = list(ms)
        ms2[j] = (ms[j] + rng.choice([1, Q - 1, rand_nz(rng)])) % Q
        got = h.call("sig_verify", n, key["pk_hex"], scs(ms2), sg_tok)[0] == "1"
        run.check_monitor("unblinded_signature_rejects_other_message", not got, dict(case, ms2=ms2))
    # ... and on no tuple differing in SEVERAL coordinates either: two coordinates exchanged, and value moved from one coordinate
    # to another with the sum preserved (a key whose exponents y_i are not independent would let these through)
    if n >= 2 and u != 0:
        cs_ = pick_coords(rng, n, 3, False)
        pairs = [(i, j) for i in cs_ for j in cs_ if i < j] if n <= 5 else [tuple(rng.sample(cs_, 2)) for _ in range(3)]
        for i, j in pairs:          # short tuples: EVERY pair of coordinates
            dlt = rng.choice([1, rand_nz(rng)])
            moved = list(ms)
            moved[i], moved[j] = (ms[i] + dlt) % Q, (ms[j] - dlt) % Q
            swapped = list(ms)
            swapped[i], swapped[j] = ms[j], ms[i]
            for nm, ms2 in (("sum_preserving_move", moved), ("two_coordinates_exchanged", swapped)):
                if ms2 == ms:
                    continue
                got = h.call("sig_verify", n, key["pk_hex"], scs(ms2), sg_tok)[0] == "1"
                run.count("other message: " + nm)
                run.check_monitor("unblinded_signature_rejects_other_message", not got, dict(case, ms2=ms2, kind=nm, coordinates=[i, j]))
    bf_r = unsc(bf_o)
    kbf_r = (p["rbf"] - c * bf_r) % Q
    ks_r = unscs(cs)
    run.check_corr("corr.C08.randomness_is_fresh_draws", bf_r in served and kbf_r in served and all(k in served for k in ks_r),
                   dict(case, served=served))
    cdl = (pk["g1"] * bf_r + ipq(pk["y1s"], ms)) % Q

    def cmp_v(r, case=case, p=p):
        # Some C, with C the proof's own commitment
        ok = r[0] == 1 and basis.g1(r[1]) == p["C"]
        run.check_corr("corr.C08.req_verify", ok, dict(case, model=r))
    tdl = (pk["g1"] * kbf_r + ipq(pk["y1s"], ks_r)) % Q
    pdl = {"C": cdl, "T": tdl, "rbf": p["rbf"], "rs": p["rs"]}
    batch.add("r_req_verify %s %s %s" % (coq_pk(pk), coq_cp(pdl), zlit(c)), cmp_v)

    def cmp_bs(r, case=case, bs_hex=bs_hex):
        run.check_corr("corr.C08.blind_sign_of_proven_commitment",
                       basis.g1(r[0]) == bs_hex[:96] and basis.g1(r[1]) == bs_hex[96:], dict(case, model=r, impl=bs_hex))
    batch.add("r_blind_sign %s %s %s %s" % (coq_sk(key["sk"]), coq_pk(pk), zlit(u), zlit(cdl)), cmp_bs)
    # tampered requests
    def tamper(kind, wire, cx):
        h.begin()
        tt = h.try_call("srp_verify", n, key["pk_hex"], wire, "p", hx(cx))     # None: the request does not even decode
        tc = dict(case, tamper=kind, script=h.end())
        run.case(tc)
        run.count("tamper " + kind.split(":")[0])
        run.check_monitor("tampered_request_yields_nothing", tt is None or tt[0] == "0", tc)

    def pt_add(hexpt, d):
        return h.call("g1lin", hexpt, sc(1), basis.g1(d), sc(1))[0]
    tamper("C", cp_bytes(pt_add(p["C"], 1), p["T"], p["rbf"], p["rs"]), ctx)
    tamper("T", cp_bytes(p["C"], pt_add(p["T"], rand_nz(rng)), p["rbf"], p["rs"]), ctx)
    tamper("rbf", cp_bytes(p["C"], p["T"], (p["rbf"] + 1) % Q, p["rs"]), ctx)
    for j in pick_coords(rng, n, 3, run.tier == "thorough"):
        rs2 = list(p["rs"])
        rs2[j] = (rs2[j] + rng.choice([1, Q - 1, rand_nz(rng)])) % Q
        tamper("r:%d" % j, cp_bytes(p["C"], p["T"], p["rbf"], rs2), ctx)
    # another challenge: refused - unless the commitment is the identity element (message and blinding factor all zero), where
    # T + c*C does not depend on c and the request verifies under every challenge (theorem C11_change_challenge_rejects has the
    # hypothesis C <> 1 for exactly this reason)
    if cdl % Q != 0:
        tamper("challenge", proof, rng.randbytes(7))
    else:
        run.count("challenge tamper skipped: commitment is the identity")
    # a field replaced by a curve point outside the prime-order subgroup (not a group element at all)
    tamper("C_outside_subgroup", cp_bytes(h.call("offsub", 1, rng.randrange(2 ** 31))[0], p["T"], p["rbf"], p["rs"]), ctx)
    tamper("T_outside_subgroup", cp_bytes(p["C"], h.call("offsub", 1, rng.randrange(2 ** 31))[0], p["rbf"], p["rs"]), ctx)
    # the commitment plus a point of small order (3 or 11: the cofactor of G1 is 3 * (11 * 10177 * 859267 * 52437899)^2 and the
    # curve's 11-torsion is Z_11 x Z_11, hence the exponents q*h/3 and q*h/121), with responses made for a challenge
    # that the small order divides: if such an encoding decoded at all, the Schnorr equation would hold for a value that is
    # not the commitment the proof is about
    for order in (3, 11):
        small = None
        for _ in range(6):
            cand = h.call("g1_curve_mul", rng.randrange(2 ** 31), hx((Q * G1_COFACTOR // (3 if order == 3 else 121)).to_bytes(49, "big")))[0]
            if cand != G1_ID_HEX:
                small = cand
                break
        if small is None:
            continue
        c_bad = h.call("g1_add_unchecked", p["C"], small)[0]
        for _ in range(16):
            cx = rng.randbytes(7)
            t0 = h.try_call("srp_verify", n, key["pk_hex"], cp_bytes(c_bad, p["T"], 0, [0] * n), "p", hx(cx))
            if t0 is None:
                break                                   # does not decode: nothing to obtain
            cc = unsc(t0[1])
            if cc % order == 0:
                rs2 = [(cc * m + k) % Q for m, k in zip(ms, ks_r)]
                tamper("C_plus_point_of_order_%d" % order, cp_bytes(c_bad, p["T"], (cc * bf_r + kbf_r) % Q, rs2), cx)
                break
        else:
            continue
        if t0 is None:
            tamper("C_plus_point_of_order_%d" % order, cp_bytes(c_bad, p["T"], p["rbf"], p["rs"]), ctx)
    if p["C"] != p["T"]:
        tamper("swapped_C_T", cp_bytes(p["T"], p["C"], p["rbf"], p["rs"]), ctx)
