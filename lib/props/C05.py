"""C05 - a new pay token is issued only against a valid revocation of the previous state."""
from core import *
from abacuslib import *

RULE = ("for accepted payments on channels with histories of 0-2 payments: the merchant's complete_payment is offered, "
        "in random order before the right one, a pair from another state, a pair from another channel, the right pair "
        "with a wrong blinding factor, a wrong pair with the right factor; then the right (pair, factor), which must still "
        "succeed on the handed-back pending payment. Revocation pairs: generated under scripted secrets (index search "
        "recomputed with the Gallina SHA3), decoded from valid bytes and with lock / secret / index altered and with a "
        "secret whose digest is not a canonical scalar. Non-trivial = every candidate; distinct = distinct digest.")
TRUSTED = ["theorems C05_* for every field / hash; correspondence ops: u_complete, started_lock, locked_unlock, revpair_new, "
           "decode RevocationPair"]
ASSUMPTIONS = ["'contains the preimage' is exact: lock = canonical scalar of SHA3(secret || index); that nobody else can find "
               "a preimage is SHA3 preimage resistance, not proved"]


def pair_bytes(lock, secret, index):
    return sc(lock) + sc(secret) + "%02x" % index


def canonical_lock(secret, index):
    d = int.from_bytes(sha3(secret.to_bytes(32, "little") + bytes([index])), "little")
    return d if d < Q else None


def run(run, h):
    pts = Points(h)
    rng = run.rng
    batch = Batch("C05")
    M = make_merchant(h, pts, rng)
    other = full_establish(h, M, rng, rng.randbytes(32), 100, 100, b"o")
    op = pay_once(h, M, rng, other["ready"], 1, b"o")     # a lock message from another channel
    nch = 2 if run.tier == "quick" else 6
    for _ in range(nch):
        est = full_establish(h, M, rng, rng.randbytes(32), rng.randrange(5, 1000), rng.randrange(5, 1000), b"e")
        if not run.check_monitor("honest_establish_accepted", est["ok"] and op["ok"], {}):
            return
        ready = est["ready"]
        prev_pair = None
        for pi in range(rng.randrange(1, 4)):
            ready, prev_pair = payment(run, h, pts, batch, rng, M, ready, op, prev_pair)
            if ready is None:
                break
    pair_codec(run, h, batch, rng)
    batch.flush()


def payment(run, h, pts, batch, rng, M, ready, op, prev_pair):
    amt = rng.choice([1, 0, -1, 2])
    ctx = rng.randbytes(4)
    # every other payment: the customer's draws are all SHORT scalars (below 2^62) - legal randomness under which a blinding
    # factor and its neighbours at word boundaries (factor + 2^63, + 2^64, + 2^32) are all word-sized values
    short = rng.random() < 0.5
    if short:
        h.rng(rng.randrange(2 ** 31), [rng.randrange(1, 2 ** 62) for _ in range(89)])
    else:
        h.rng(rng.randrange(2 ** 31))
    t = h.call("ready_start", ready, amt, hx(ctx), M.cconfig)
    if t[0] != "ok":
        return None, None
    started, nonce_hex, proof_hex = t[1], t[2], t[3]
    a = merchant_allow(h, M, amt, unsc(nonce_hex), proof_hex, ctx, u=rand_nz(rng))
    if not run.check_monitor("honest_payment_accepted", a["ok"], {"amount": amt}):
        return None, None
    l = h.call("started_lock", started, a["closing"], M.cconfig)
    locked, pair, revbf = l[1], l[2], l[3]
    stt = parse_started(started)
    pp = parse_pproof(proof_hex)
    lock, secret, index = unsc(pair[:64]), unsc(pair[64:128]), int(pair[128:130], 16)
    bf = unsc(revbf)
    case0 = {"amount": amt, "lock": lock, "bf": bf, "short_randomness": short}
    run.check_monitor("released_pair_is_preimage_of_old_lock", lock == stt["old"]["lock"] and canonical_lock(secret, index) == lock, case0)
    # wrong candidates, in random order
    h.rng(7)
    foreign = h.call("revpair_new")[0]
    cands = [("pair_of_other_channel", op["pair"], revbf), ("fresh_foreign_pair", foreign, revbf),
             ("right_pair_wrong_factor", pair, sc(bf + 1)), ("right_pair_other_factor", pair, op["revbf"]),
             ("pair_and_factor_of_other_channel", op["pair"], op["revbf"])]
    for nm, d in (("plus_2^63", 2 ** 63), ("plus_2^64", 2 ** 64), ("plus_2^32", 2 ** 32), ("minus_1", Q - 1), ("plus_2^128", 2 ** 128)):
        cands.append(("right_pair_factor_" + nm, pair, sc((bf + d) % Q)))
    if prev_pair:
        cands.append(("pair_of_earlier_payment", prev_pair[0], prev_pair[1]))
        cands.append(("earlier_pair_right_factor", prev_pair[0], revbf))
    rng.shuffle(cands)
    com_dl = commit_dl(M.hr, [M.gr], [lock], bf)
    st_dl = commit_dl(M.pk["g1"], M.pk["y1s"], state_msg(stt["new"]), stt["bf_token"])
    for name, pr, fb in cands:
        h.begin()
        h.rng(8, [rand_nz(rng)])
        r = h.call("u_complete", a["unrev"], pr, fb)
        case = dict(case0, candidate=name, result=r[0], script=h.end())
        run.case(case)
        run.count("candidate " + name)
        run.check_monitor("wrong_revocation_refused", r[0] == "refused", case)
        lk, bb = unsc(pr[:64]), unsc(fb)
        batch.add("r_complete_payment %s %s %s %s %s %s 5 %s %s" % (coq_sk(M.key["sk"]), coq_pk(M.pk), zlit(M.hr), zlit(M.gr),
                                                                   zlit(com_dl), zlit(st_dl), zlit(lk), zlit(bb)),
                  lambda rr, r=r, case=case: run.check_corr("corr.C05.complete_payment", (rr[0] == 1) == (r[0] == "ok"), dict(case, model=rr[:1])))
    # the right one still succeeds on the handed-back pending payment
    u2 = rand_nz(rng)
    h.rng(9, [u2])
    r = h.call("u_complete", a["unrev"], pair, revbf)
    case = dict(case0, candidate="right_pair_right_factor", result=r[0])
    run.case(case)
    run.count("candidate right")
    if not run.check_monitor("right_revocation_accepted_after_refusals", r[0] == "ok", case):
        return None, None
    token = r[1]

    def cmp(rr, token=token, case=case):
        ok = rr[0] == 1 and pts.g1(rr[1]) == token[:96] and pts.g1(rr[2]) == token[96:]
        run.check_corr("corr.C05.complete_payment", ok, dict(case, model=rr))
    batch.add("r_complete_payment %s %s %s %s %s %s %s %s %s" % (coq_sk(M.key["sk"]), coq_pk(M.pk), zlit(M.hr), zlit(M.gr),
                                                               zlit(com_dl), zlit(st_dl), zlit(u2), zlit(lock), zlit(bf)), cmp)
    run.check_corr("corr.C05.commitment_in_proof_is_commitment_to_old_lock", pts.g1(com_dl) == pp["rev"]["C"], case)
    ul = h.call("locked_unlock", locked, token, M.cconfig)
    run.check_monitor("issued_token_unlocks_customer", ul[0] == "ok", case)
    return (ul[1] if ul[0] == "ok" else None), (pair, revbf)


def pair_codec(run, h, batch, rng):
    n = 6 if run.tier == "quick" else 40
    for i in range(n):
        secret = rand_scalar(rng, 0.3)
        h.begin()
        h.rng(1, [secret])
        pb = h.call("revpair_new")[0]
        lock, sec, index = unsc(pb[:64]), unsc(pb[64:128]), int(pb[128:130], 16)
        case = {"op": "revpair_new", "secret": secret, "script": h.end()}
        run.case(case)
        run.count("revpair_new index %d" % min(index, 3))
        first = next(j for j in range(256) if canonical_lock(secret, j) is not None)
        run.check_monitor("generated_pair_is_hash_lock", sec == secret and index == first and canonical_lock(secret, index) == lock, dict(case, impl=[lock, sec, index]))
        batch.add("r_revpair_new %d" % secret, lambda r, case=case, e=[1, lock, sec, index]: run.check_corr("corr.C05.revpair_new", r == e, dict(case, model=r)))
        variants = [("valid", lock, sec, index, True),
                    ("lock_altered", (lock + 1) % Q, sec, index, False),
                    ("secret_altered", lock, (sec + 1) % Q, index, False),
                    ("index_altered", lock, sec, (index + 1) % 256, False)]
        for nm, lk, sx, ix, exp in variants:
            exp = canonical_lock(sx, ix) == lk
            got = h.call("decode", "RevocationPair", pair_bytes(lk, sx, ix))[0] == "ok"
            cc = {"op": "revpair_decode", "kind": nm, "lock": lk, "secret": sx, "index": ix}
            run.case(cc)
            run.count("decode " + nm)
            run.check_monitor("decoded_pair_is_hash_lock", got == exp, dict(cc, impl=got))
            if i < 3 or run.tier == "thorough":
                batch.add("r_revpair_decode %d %d %d" % (lk, sx, ix), lambda r, got=got, cc=cc: run.check_corr("corr.C05.revpair_decode", bool(r[0]) == got, dict(cc, model=r[:1])))
    # secrets that need many retries of the index loop (10, 19, 27 and 38 non-canonical digests in a row)
    for want, secret in LONG_INDEX_SECRETS:
        h.begin()
        h.rng(1, [secret])
        pb = h.call("revpair_new")[0]
        lock, sec, index = unsc(pb[:64]), unsc(pb[64:128]), int(pb[128:130], 16)
        first = next(j for j in range(256) if canonical_lock(secret, j) is not None)
        case = {"op": "revpair_new", "kind": "long_index_search", "secret": secret, "expected_index": first, "script": h.end()}
        run.case(case)
        run.count("revpair_new long index search")
        run.check_monitor("generated_pair_is_hash_lock", first == want and sec == secret and index == first and canonical_lock(secret, index) == lock,
                          dict(case, impl=[lock, sec, index]))
        run.check_monitor("decoded_pair_is_hash_lock", h.call("decode", "RevocationPair", pb) == ["ok", pb], dict(case, what="the generated pair decodes"))
        batch.add("r_revpair_new %d" % secret, lambda r, case=case, e=[1, lock, sec, index]: run.check_corr("corr.C05.revpair_new", r == e, dict(case, model=r)))
    # a secret whose digest (index 0) is not a canonical scalar; any lock must be refused
    s = next(x for x in (rand_nz(rng) for _ in range(1000)) if canonical_lock(x, 0) is None)
    d = int.from_bytes(sha3(s.to_bytes(32, "little") + b"\x00"), "little")
    for lk in (d % Q, rand_nz(rng)):
        got = h.call("decode", "RevocationPair", pair_bytes(lk, s, 0))[0] == "ok"
        cc = {"op": "revpair_decode", "kind": "digest_not_canonical", "secret": s, "lock": lk}
        run.case(cc)
        run.count("decode noncanonical digest")
        run.check_monitor("decoded_pair_is_hash_lock", not got, dict(cc, impl=got))
        batch.add("r_revpair_decode %d %d 0" % (lk, s), lambda r, got=got, cc=cc: run.check_corr("corr.C05.revpair_decode", bool(r[0]) == got, dict(cc, model=r[:1])))
    # digests in the narrow bands around the modulus (found by search: about 3600 hashes for the first band): just above q
    # with q's own top byte 0x73 (not canonical - must be refused by the decoder and skipped by the generator), just below q
    # with the same top byte (canonical), and top byte 0x74 (not canonical)
    def digest0(x):
        return int.from_bytes(sha3(x.to_bytes(32, "little") + b"\x00"), "little")
    bands = [("just_above_q_same_top_byte", lambda d: Q <= d < (0x74 << 248), False),
             ("just_below_q_same_top_byte", lambda d: (0x73 << 248) <= d < Q, True),
             ("top_byte_0x74", lambda d: (0x74 << 248) <= d < (0x75 << 248), False)]
    for bname, inband, canonical in bands:
        s = None
        for _ in range(200000):
            x = rand_nz(rng)
            if inband(digest0(x)):
                s = x
                break
        if s is None:
            run.notes.append("no secret found for digest band " + bname)
            continue
        d = digest0(s)
        got = h.call("decode", "RevocationPair", pair_bytes(d % Q, s, 0))[0] == "ok"
        cc = {"op": "revpair_decode", "kind": "digest_band_" + bname, "secret": s, "lock": d % Q}
        run.case(cc)
        run.count("decode digest band " + bname)
        run.check_monitor("decoded_pair_is_hash_lock", got == canonical, dict(cc, impl=got))
        batch.add("r_revpair_decode %d %d 0" % (d % Q, s), lambda r, got=got, cc=cc: run.check_corr("corr.C05.revpair_decode", bool(r[0]) == got, dict(cc, model=r[:1])))
        h.begin()
        h.rng(1, [s])
        pb = h.call("revpair_new")[0]
        lock, sec, index = unsc(pb[:64]), unsc(pb[64:128]), int(pb[128:130], 16)
        first = next(j for j in range(256) if canonical_lock(s, j) is not None)
        gc = {"op": "revpair_new", "kind": "digest_band_" + bname, "secret": s, "script": h.end()}
        run.case(gc)
        run.check_monitor("generated_pair_is_hash_lock", sec == s and index == first and canonical_lock(s, index) == lock and (index == 0) == canonical,
                          dict(gc, impl=[lock, sec, index]))
        batch.add("r_revpair_new %d" % s, lambda r, gc=gc, e=[1, lock, sec, index]: run.check_corr("corr.C05.revpair_new", r == e, dict(gc, model=r)))
    # a NON-CANONICAL secret encoding (an integer in [q, 2^256)) whose raw bytes hash to a canonical digest, with that digest as
    # the lock: consistent as bytes, but the secret is not a scalar encoding - must be refused (a decoder that hashes the raw
    # bytes and then reduces the secret modulo q would hand out a pair whose lock is not the hash of its secret)
    for _ in range(2):
        while True:
            raw = rng.randrange(Q, 2 ** 256)
            idx = rng.randrange(0, 3)
            dgt = int.from_bytes(sha3(raw.to_bytes(32, "little") + bytes([idx])), "little")
            if dgt < Q:
                break
        enc = dgt.to_bytes(32, "little").hex() + raw.to_bytes(32, "little").hex() + "%02x" % idx
        got = h.call("decode", "RevocationPair", enc)[0] == "ok"
        cc = {"op": "revpair_decode", "kind": "secret_encoding_not_canonical_lock_is_digest_of_raw_bytes", "raw_secret": raw, "index": idx}
        run.case(cc)
        run.count("decode noncanonical secret")
        run.check_monitor("decoded_pair_is_hash_lock", not got, dict(cc, impl=got))
    # non-canonical scalar encodings inside the pair
    raw = (Q + 1).to_bytes(32, "little").hex()
    got = h.call("decode", "RevocationPair", raw + sc(5) + "00")[0] == "ok"
    run.check_monitor("decoded_pair_is_hash_lock", not got, {"kind": "lock_encoding_not_canonical"})
