"""C01 - merchant establishes only channels whose hidden state matches the agreed values."""
from core import *
from pslib import *
from schnorrlib import *
from abacuslib import *

RULE = ("a merchant configuration with known discrete logs; agreed (channel id, balances, context) tuples on the balance "
        "lattice; honest establishment through customer::Requested::new / merchant::initialize / activate with every "
        "random value named and recovered; then the forger family against the real merchant: for every hidden (state, "
        "close state) pair that breaks one of the nine statement relations (and some combinations, e.g. (cb+d, mb-d)), "
        "strategies (a) honest algorithm on the hidden messages, (c) independent commitment scalar so that exactly one "
        "relation fails, (d) post-challenge choice - draft, read the verifier's challenge through the hook, solve the "
        "revealed commitment scalars (k := r - c*v) or the scalar commitments T, resubmit, (e) compensating errors: "
        "responses for the agreed values, with errors in the two commitments (or scalar commitments) that cancel in the sum / "
        "difference of the two Schnorr relations; proofs of TRUE statements whose response scalars vanish (which must be accepted); a "
        "merchant from merchant::Config::new. Non-trivial = every forged "
        "proof and every honest run; distinct = distinct input digest.")
TRUSTED = ["theorems C01_* over an arbitrary field and an arbitrary hash; correspondence ops: req_new, m_init, m_activate, "
           "req_complete, inactive_activate, sig_verify; the verifier's challenge is read through the verif-hooks recorder"]
ASSUMPTIONS = ["from special soundness + transcript binding to 'no efficient prover succeeds': rewinding in the random-oracle "
               "model and discrete-log hardness (uniqueness of openings) - not formalised",
               "the forger family is a search for failing inputs, not a proof"]

LATTICE = [0, 1, 2, 10, 1000, 2 ** 31, 2 ** 62, 2 ** 63 - 2, 2 ** 63 - 1]


def agreed_tuples(run, rng):
    n = 3 if run.tier == "quick" else 12
    out = [(10, 1000)]
    for _ in range(n - 1):
        out.append((rng.choice(LATTICE + [rng.randrange(2 ** 63)]), rng.choice(LATTICE + [rng.randrange(2 ** 63)])))
    return out


def run(run, h):
    pts = Points(h)
    rng = run.rng
    batch = Batch("C01")
    M = make_merchant(h, pts, rng)
    for cb, mb in agreed_tuples(run, rng):
        cid = rng.randbytes(32)
        ctx = rng.randbytes(rng.choice([0, 5, 40]))
        honest_case(run, h, pts, batch, rng, M, cid, cb, mb, ctx)
        forger_family(run, h, pts, batch, rng, M, cid, cb, mb, ctx)
        compensating_family(run, h, pts, batch, rng, M, cid, cb, mb, ctx)
        degenerate_true_statements(run, h, pts, batch, rng, M, cid, cb, mb, ctx)
    generated_merchant_case(run, h, rng)
    batch.flush()


def honest_case(run, h, pts, batch, rng, M, cid, cb, mb, ctx):
    pk = M.pk
    tape = distinct_scalars(rng, 12, 0.1, avoid=(CLOSE,))
    h.begin()
    e = establish_request(h, M, cid, cb, mb, ctx, tape)
    u1, u2 = rng.choice([rand_nz(rng), 1]), rand_nz(rng)
    mi = merchant_init(h, M, cid, cb, mb, e["proof_hex"], ctx, u=u1)
    case = {"op": "honest", "cid": cid.hex(), "cb": cb, "mb": mb, "ctx": ctx.hex(), "tape": tape, "u": [u1, u2]}
    run.count("honest establish")
    if not run.check_monitor("honest_establish_accepted", mi["ok"], dict(case, script=h.end())):
        run.case(case)
        return
    st, ep = e["req"]["state"], e["proof"]
    c = e["chal"]["c"]
    run.check_corr("corr.C01.prover_and_verifier_hash_the_same_transcript",
                   "".join(mi["chal"]["chunks"]) == "".join(e["chal"]["chunks"]) and e["chal"]["digest_ok"], case)
    dl, rec = establish_dls(M, st, e["req"]["bf_token"], e["req"]["bf_close"], ep, c)
    named = [st["nonce"], st["secret"], e["req"]["bf_token"], e["req"]["bf_close"], rec["kbf_s"], rec["kbf_c"]] + rec["ks"] + [rec["kc"][1]]
    run.check_corr("corr.C01.randomness_is_fresh_draws", all(x in e["served"] for x in named) and len(set(named)) == len(named),
                   dict(case, served=e["served"], named=named))
    ms, mc = state_msg(st), close_msg(st)
    # the merchant's replies
    closing = mi["closing"]
    h.rng(13, [u2])
    token = h.call("m_activate", M.handle, mi["vbs"])[0]
    # customer side: unblind and verify, on the exact messages and on every single-slot change
    cs_hex, cs_tok = h.call("bsig_unblind", closing, sc(e["req"]["bf_close"]))
    tk_hex, tk_tok = h.call("bsig_unblind", token, sc(e["req"]["bf_token"]))
    ok_c = h.call("sig_verify", 5, M.key["pk_hex"], scs(mc), cs_tok)[0] == "1"
    ok_t = h.call("sig_verify", 5, M.key["pk_hex"], scs(ms), tk_tok)[0] == "1"
    agreed_c = [cid_scalar(cid), CLOSE, st["lock"], cb, mb]
    run.check_monitor("signatures_cover_exactly_the_agreed_values", ok_c and ok_t and mc == agreed_c and ms[0] == agreed_c[0]
                      and ms[3] == cb and ms[4] == mb, dict(case, ok_c=ok_c, ok_t=ok_t))
    for j in range(5):
        for (msg, tok, nm) in ((mc, cs_tok, "close"), (ms, tk_tok, "state")):
            m2 = list(msg)
            m2[j] = (m2[j] + rng.choice([1, Q - 1, rand_nz(rng)])) % Q
            bad = h.call("sig_verify", 5, M.key["pk_hex"], scs(m2), tok)[0] == "1"
            run.check_monitor("signatures_reject_any_other_slot_value", not bad, dict(case, which=nm, slot=j))
    # the closing signature must not verify as a pay token and vice versa (second slot)
    x1 = h.call("sig_verify", 5, M.key["pk_hex"], scs(ms), cs_tok)[0] == "1"
    x2 = h.call("sig_verify", 5, M.key["pk_hex"], scs(mc), tk_tok)[0] == "1"
    run.check_monitor("signatures_reject_any_other_slot_value", not x1 and not x2, dict(case, which="cross"))
    case["script"] = h.end()
    run.case(case)
    # model: prover
    def cmp_prove(r, case=case, ep=ep):
        ok = r[:4] == ep["ks"]
        o = 4
        for sub in ("sp", "csp"):
            a = r[o:o + 8]; o += 8
            ok = ok and pts.g1(a[0]) == ep[sub]["C"] and pts.g1(a[1]) == ep[sub]["T"] and a[2] == ep[sub]["rbf"] and a[3:] == ep[sub]["rs"]
        run.check_corr("corr.C01.establish_prove", ok, dict(case, model=r[:6]))
    batch.add("r_establish_prove %s %s %s %s %s %s %s %s %s %s %s %s %s" % (
        coq_pk(pk), zlit(ms[0]), zlit(st["nonce"]), zlit(st["lock"]), zlit(cb), zlit(mb), zlit(e["req"]["bf_token"]),
        zlit(rec["kbf_s"]), zlist(rec["ks"]), zlit(e["req"]["bf_close"]), zlit(rec["kbf_c"]), zlit(rec["kc"][1]), zlit(c)), cmp_prove)
    # model: transcript
    def cmp_tr(r, case=case, chunks=mi["chal"]["chunks"]):
        run.check_corr("corr.C01.establish_transcript", "".join(concretize_atoms(pts, r)) == "".join(chunks), dict(case, n_chunks=len(chunks)))
    batch.add("r_establish_transcript %s %s %s %s %s %s" % (coq_pk(pk), zlit(ms[0]), zlit(cb), zlit(mb), coq_eproof_args(dl),
                                                          zlist(list(sha3(ctx)))), cmp_tr)
    # model: verifier + blind signatures
    def cmp_ver(r, case=case):
        ok = r[0] == 1 and pts.g1(r[1]) == ep["sp"]["C"] and pts.g1(r[2]) == ep["csp"]["C"]
        run.check_corr("corr.C01.establish_verify", ok, dict(case, model=r))
    batch.add("r_establish_verify %s %s %s %s %s %s" % (coq_pk(pk), zlit(ms[0]), zlit(cb), zlit(mb), coq_eproof_args(dl), zlit(c)), cmp_ver)

    def cmp_bs(r, case=case, closing=closing):
        run.check_corr("corr.C01.closing_signature_is_blind_signature_on_close_commitment",
                       pts.g1(r[0]) == closing[:96] and pts.g1(r[1]) == closing[96:], dict(case, model=r))
    batch.add("r_blind_sign %s %s %s %s" % (coq_sk(M.key["sk"]), coq_pk(pk), zlit(u1), zlit(dl["csp"]["C"])), cmp_bs)

    def cmp_tk(r, case=case, token=token):
        run.check_corr("corr.C01.pay_token_is_blind_signature_on_state_commitment",
                       pts.g1(r[0]) == token[:96] and pts.g1(r[1]) == token[96:], dict(case, model=r))
    batch.add("r_blind_sign %s %s %s %s" % (coq_sk(M.key["sk"]), coq_pk(pk), zlit(u2), zlit(dl["sp"]["C"])), cmp_tk)


# ---------------------------------------------------------------------------------------------
def build(M, ms, mc, rnd, c, share=(0, 2, 3, 4)):
    """an establish proof (discrete logs) for hidden messages ms / mc with randomness rnd and challenge c.
    Slots in `share` use the state proof's commitment scalar in the close-state proof as the honest prover does."""
    pk = M.pk
    ks, kc = list(rnd["ks"]), list(rnd["kc"])
    for j in share:
        kc[j] = ks[j]
    sp = craft_cp(pk["g1"], pk["y1s"], ms, rnd["bf_s"], rnd["kbf_s"], ks, c)
    csp = craft_cp(pk["g1"], pk["y1s"], mc, rnd["bf_c"], rnd["kbf_c"], kc, c)
    return {"ks": [kc[0], kc[1], kc[3], kc[4]], "sp": sp, "csp": csp}


def wire(pts, dl):
    def w(p):
        return {"C": pts.g1(p["C"]), "T": pts.g1(p["T"]), "rbf": p["rbf"], "rs": p["rs"]}
    return eproof_bytes(dl["ks"], w(dl["sp"]), w(dl["csp"]))


def statement_true(agreed, ms, mc):
    cidq, cb, mb = agreed
    return (ms[0] == cidq and mc[0] == cidq and mc[1] == CLOSE and ms[2] == mc[2] and ms[3] == cb % Q and mc[3] == cb % Q
            and ms[4] == mb % Q and mc[4] == mb % Q)


def hidden_variants(rng, agreed, nonce, lock):
    cidq, cb, mb = agreed
    base_s = [cidq, nonce, lock, cb, mb]
    base_c = [cidq, CLOSE, lock, cb, mb]
    out = []

    def both(name, f):
        s, c = list(base_s), list(base_c)
        f(s); f(c)
        out.append((name, s, c))
    d = rng.choice([1, 1000, rand_nz(rng)])
    both("cid+1", lambda m: m.__setitem__(0, (m[0] + 1) % Q))
    both("cb+1", lambda m: m.__setitem__(3, (m[3] + 1) % Q))
    both("mb-1", lambda m: m.__setitem__(4, (m[4] - 1) % Q))
    both("shift_balances", lambda m: (m.__setitem__(3, (m[3] + d) % Q), m.__setitem__(4, (m[4] - d) % Q)))
    both("swap_balances", lambda m: (m.__setitem__(3, base_s[4]), m.__setitem__(4, base_s[3])))
    for j in (0, 3, 4):
        s = list(base_s); s[j] = (s[j] + 1) % Q
        out.append(("state_only_slot%d" % j, s, list(base_c)))
        c = list(base_c); c[j] = (c[j] + 1) % Q
        out.append(("close_only_slot%d" % j, list(base_s), c))
    c = list(base_c); c[1] = nonce
    out.append(("close_tag_replaced_by_nonce", list(base_s), c))
    c = list(base_c); c[1] = (CLOSE + 1) % Q
    out.append(("close_tag_plus_1", list(base_s), c))
    c = list(base_c); c[2] = (lock + 1) % Q
    out.append(("lock_mismatch", list(base_s), c))
    s = list(base_s); s[1], s[2] = s[2], s[1]
    out.append(("state_lock_in_nonce_slot", s, list(base_c)))
    out = [v for v in out if not statement_true(agreed, v[1], v[2])]
    return out


def forger_family(run, h, pts, batch, rng, M, cid, cb, mb, ctx):
    agreed = (cid_scalar(cid), cb, mb)
    nonce, lock = rand_nz(rng), rand_nz(rng)
    variants = hidden_variants(rng, agreed, nonce, lock)
    strategies = ["a_honest_algorithm", "c_independent_scalar", "d_solve_revealed_scalars", "d_solve_T"]
    for name, ms, mc in variants:
        for strat in strategies:
            # quick: every variant with the per-relation strategy (each verifier equation violated alone) and with the
            # post-challenge choice of the revealed scalars; the other strategies on a sample
            if run.tier == "quick" and strat in ("a_honest_algorithm", "d_solve_T") and rng.random() < 0.6:
                continue
            attempt(run, h, pts, batch, rng, M, cid, cb, mb, ctx, agreed, name, ms, mc, strat)


def degenerate_true_statements(run, h, pts, batch, rng, M, cid, cb, mb, ctx):
    """proofs of TRUE statements whose response scalars vanish (hidden nonce / lock 0 with commitment scalar 0, blinding
    factors 0 with commitment scalars 0, a zero balance with commitment scalar 0): the verifier's equations hold, so they
    must be accepted; a verifier that treats a zero response specially computes another relation"""
    agreed = (cid_scalar(cid), cb, mb)
    variants = [("lock_zero", {"lock": 0}, {"ks": {2: 0}}), ("nonce_zero", {"nonce": 0}, {"ks": {1: 0}}),
                ("state_blinding_zero", {}, {"bf_s": 0, "kbf_s": 0}), ("close_blinding_zero", {}, {"bf_c": 0, "kbf_c": 0}),
                ("lock_and_nonce_zero", {"lock": 0, "nonce": 0}, {"ks": {1: 0, 2: 0}})]
    if mb == 0:
        variants.append(("merchant_balance_zero", {}, {"ks": {4: 0}}))
    if cb == 0:
        variants.append(("customer_balance_zero", {}, {"ks": {3: 0}}))
    for nm, hid, rn in variants:
        nonce, lock = hid.get("nonce", rand_nz(rng)), hid.get("lock", rand_nz(rng))
        ms = [agreed[0], nonce, lock, cb % Q, mb % Q]
        mc = [agreed[0], CLOSE, lock, cb % Q, mb % Q]
        rnd = {"bf_s": rand_nz(rng), "kbf_s": rand_nz(rng), "ks": [rand_nz(rng) for _ in range(5)],
               "bf_c": rand_nz(rng), "kbf_c": rand_nz(rng), "kc": [rand_nz(rng) for _ in range(5)]}
        for k, v in rn.items():
            if k == "ks":
                for j, x in v.items():
                    rnd["ks"][j] = x
            else:
                rnd[k] = v
        h.begin()
        r0 = merchant_init(h, M, cid, cb, mb, wire(pts, build(M, ms, mc, rnd, 1)), ctx, u=rand_nz(rng))
        if r0["chal"] is None:
            h.end()
            continue
        final = build(M, ms, mc, rnd, r0["chal"]["c"])
        r1 = merchant_init(h, M, cid, cb, mb, wire(pts, final), ctx, u=rand_nz(rng))
        case = {"op": "true_statement", "variant": nm, "cid": cid.hex(), "cb": cb, "mb": mb, "hidden_state": ms, "hidden_close": mc,
                "accepted": r1["ok"], "script": h.end()}
        run.case(case)
        run.count("degenerate true statement " + nm)
        run.check_monitor("true_statement_with_vanishing_responses_accepted", r1["ok"], case)
        if r1["chal"] is None:
            continue

        def cmp(r, case=case, ok=r1["ok"]):
            run.check_corr("corr.C01.establish_verify", bool(r[0]) == ok, dict(case, model=r[0]))
        batch.add("r_establish_verify %s %s %s %s %s %s" % (coq_pk(M.pk), zlit(agreed[0]), zlit(cb), zlit(mb), coq_eproof_args(final), zlit(r1["chal"]["c"])), cmp)


def generated_merchant_case(run, h, rng):
    """a merchant from merchant::Config::new (not one assembled from chosen discrete logs): after an honest establishment the
    closing signature and the pay token must verify on exactly the agreed close state / state - on no state with one slot
    changed, and on none in which value was MOVED between two slots (balances shifted against each other, channel id against
    lock): the latter would pass if the key's exponents were not independent"""
    for rep in range(1 if run.tier == "quick" else 3):
        h.rng(rng.randrange(2 ** 31))
        t = h.call("m_new")
        Mg = Merchant()
        Mg.handle, Mg.h = t[0], h
        kpb = bytes.fromhex(t[1])
        pk_hex = kpb[32 + 8 + 160 + 48:].hex()
        Mg.cconfig = pk_hex + t[2] + t[3]
        cid, cb, mb, ctx = rng.randbytes(32), rng.randrange(10, 2 ** 40), rng.randrange(10, 2 ** 40), rng.randbytes(7)
        est = full_establish(h, Mg, rng, cid, cb, mb, ctx)
        case = {"op": "generated_merchant", "cid": cid.hex(), "cb": cb, "mb": mb}
        run.case(case)
        run.count("generated merchant establishment")
        if not run.check_monitor("honest_establish_accepted", est["ok"], dict(case, stage=est.get("stage"))):
            continue
        req = est["e"]["req"]
        st = req["state"]
        ms, mc = state_msg(st), close_msg(st)
        cs_tok = h.call("bsig_unblind", est["mi"]["closing"], sc(req["bf_close"]))[1]
        tk_tok = h.call("bsig_unblind", est["token"], sc(req["bf_token"]))[1]
        ok = (h.call("sig_verify", 5, pk_hex, scs(mc), cs_tok)[0] == "1" and h.call("sig_verify", 5, pk_hex, scs(ms), tk_tok)[0] == "1")
        run.check_monitor("signatures_cover_exactly_the_agreed_values", ok, case)
        d = rng.choice([1, 1000, rand_nz(rng)])
        for (msg, tok, nm) in ((mc, cs_tok, "close"), (ms, tk_tok, "state")):
            for (i, j) in ((3, 4), (4, 3), (0, 2), (2, 4), (0, 3)):
                m2 = list(msg)
                m2[i], m2[j] = (m2[i] + d) % Q, (m2[j] - d) % Q
                bad = h.call("sig_verify", 5, pk_hex, scs(m2), tok)[0] == "1"
                run.check_monitor("signatures_reject_any_other_slot_value", not bad, dict(case, which=nm, moved=[j, i], delta=d))
            for j in range(5):
                m2 = list(msg)
                m2[j] = (m2[j] + 1) % Q
                bad = h.call("sig_verify", 5, pk_hex, scs(m2), tok)[0] == "1"
                run.check_monitor("signatures_reject_any_other_slot_value", not bad, dict(case, which=nm, slot=j))


def compensating_family(run, h, pts, batch, rng, M, cid, cb, mb, ctx):
    """strategy (e): transcripts and responses for the AGREED values, so that every response-scalar equation holds, but
    the two commitments (or the two scalar commitments) carry errors that cancel in a linear combination of the two
    Schnorr relations (weights (1,1) or (1,-1)): each sub-proof alone proves a false statement.  A verifier that checks
    the two relations together instead of each (a 'batched' verification without independent random weights) accepts."""
    pk = M.pk
    agreed = (cid_scalar(cid), cb, mb)
    nonce, lock = rand_nz(rng), rand_nz(rng)
    ms = [agreed[0], nonce, lock, cb % Q, mb % Q]
    mc = [agreed[0], CLOSE, lock, cb % Q, mb % Q]
    for slot in ((3,) if run.tier == "quick" else (0, 2, 3, 4)):
        for kind in ("C_opposite", "C_same", "T_opposite", "T_same"):
            delta = rng.choice([1, 990, rand_nz(rng)])
            E = pk["y1s"][slot] * delta % Q
            sgn = 1 if kind.endswith("same") else -1
            rnd = {"bf_s": rand_nz(rng), "kbf_s": rand_nz(rng), "ks": [rand_nz(rng) for _ in range(5)],
                   "bf_c": rand_nz(rng), "kbf_c": rand_nz(rng), "kc": [rand_nz(rng) for _ in range(5)]}

            def shifted(c):
                p = build(M, ms, mc, rnd, c)
                f = kind[0]
                p["sp"][f] = (p["sp"][f] + sgn * E) % Q
                p["csp"][f] = (p["csp"][f] + E) % Q
                return p
            h.begin()
            r0 = merchant_init(h, M, cid, cb, mb, wire(pts, shifted(1)), ctx, u=rand_nz(rng))
            final = shifted(r0["chal"]["c"])
            r1 = merchant_init(h, M, cid, cb, mb, wire(pts, final), ctx, u=rand_nz(rng))
            hs, hc = list(ms), list(mc)
            if kind[0] == "C":
                hs[slot] = (hs[slot] + sgn * delta) % Q
                hc[slot] = (hc[slot] + delta) % Q
            case = {"op": "forgery", "variant": "slot%d" % slot, "strategy": "e_compensating_" + kind, "cid": cid.hex(), "cb": cb,
                    "mb": mb, "ctx": ctx.hex(), "hidden_state": hs, "hidden_close": hc, "bf_state": rnd["bf_s"],
                    "bf_close": rnd["bf_c"], "accepted": r1["ok"], "script": h.end()}
            run.case(case)
            run.count("forger e_compensating_errors")
            if r1["ok"] and kind[0] == "C":
                sg = h.call("bsig_unblind", r1["closing"], sc(rnd["bf_c"]))
                case["closing_signature_valid_on_hidden_close_state"] = h.call("sig_verify", 5, M.key["pk_hex"], scs(hc), sg[1])[0] == "1"
            run.check_monitor("false_statement_rejected", not r1["ok"], case)

            def cmp(r, case=case, ok=r1["ok"]):
                run.check_corr("corr.C01.establish_verify", bool(r[0]) == ok, dict(case, model=r[0]))
            batch.add("r_establish_verify %s %s %s %s %s %s" % (coq_pk(pk), zlit(agreed[0]), zlit(cb), zlit(mb), coq_eproof_args(final),
                                                                zlit(r1["chal"]["c"])), cmp)


def attempt(run, h, pts, batch, rng, M, cid, cb, mb, ctx, agreed, vname, ms, mc, strat):
    pk = M.pk
    rnd = {"bf_s": rand_nz(rng), "kbf_s": rand_nz(rng), "ks": [rand_nz(rng) for _ in range(5)],
           "bf_c": rand_nz(rng), "kbf_c": rand_nz(rng), "kc": [rand_nz(rng) for _ in range(5)]}
    share = (0, 2, 3, 4)
    if strat == "c_independent_scalar":
        # give every slot in which state and close differ from each other its own scalar, so that the shared-slot
        # equations are the only ones to fail
        share = tuple(j for j in (0, 2, 3, 4) if ms[j] == mc[j])
    h.begin()
    # draft: first message fixed, responses for a guessed challenge; learn the verifier's challenge
    draft = build(M, ms, mc, rnd, 1, share)
    r0 = merchant_init(h, M, cid, cb, mb, wire(pts, draft), ctx, u=rand_nz(rng))
    c = r0["chal"]["c"]
    final = build(M, ms, mc, rnd, c, share)
    if strat == "d_solve_revealed_scalars":
        # choose the four revealed commitment scalars after the challenge:  k := r - c * (agreed value)
        final["ks"] = [(final["csp"]["rs"][0] - c * agreed[0]) % Q, (final["csp"]["rs"][1] - c * CLOSE) % Q,
                       (final["csp"]["rs"][3] - c * cb) % Q, (final["csp"]["rs"][4] - c * mb) % Q]
    if strat == "d_solve_T":
        # responses as if the agreed values were committed; then T := commit(responses) - c*C for both sub-proofs
        tgt_s = [agreed[0], ms[1], ms[2], cb % Q, mb % Q]
        tgt_c = [agreed[0], CLOSE, ms[2], cb % Q, mb % Q]
        ks, kc = list(rnd["ks"]), list(rnd["kc"])
        for j in (0, 2, 3, 4):
            kc[j] = ks[j]
        for sub, tgt, kk, bf, kbf in (("sp", tgt_s, ks, rnd["bf_s"], rnd["kbf_s"]), ("csp", tgt_c, kc, rnd["bf_c"], rnd["kbf_c"])):
            rs = [(c * m + k) % Q for m, k in zip(tgt, kk)]
            rbf = (c * bf + kbf) % Q
            final[sub]["rs"], final[sub]["rbf"] = rs, rbf
            final[sub]["T"] = (commit_dl(pk["g1"], pk["y1s"], rs, rbf) - c * final[sub]["C"]) % Q
        final["ks"] = [kc[0], kc[1], kc[3], kc[4]]
    u = rand_nz(rng)
    r1 = merchant_init(h, M, cid, cb, mb, wire(pts, final), ctx, u=u)
    case = {"op": "forgery", "variant": vname, "strategy": strat, "cid": cid.hex(), "cb": cb, "mb": mb, "ctx": ctx.hex(),
            "hidden_state": ms, "hidden_close": mc, "bf_state": rnd["bf_s"], "bf_close": rnd["bf_c"], "accepted": r1["ok"],
            "script": h.end()}
    run.case(case)
    run.count("forger %s" % strat)
    run.count("variant %s" % vname.split("_slot")[0])
    if r1["ok"]:
        # demonstrate: the closing signature unblinds to a valid signature on the HIDDEN close state
        sg = h.call("bsig_unblind", r1["closing"], sc(rnd["bf_c"]))
        case["closing_signature_valid_on_hidden_close_state"] = h.call("sig_verify", 5, M.key["pk_hex"], scs(mc), sg[1])[0] == "1"
    run.check_monitor("false_statement_rejected", not r1["ok"], case)
    c1 = r1["chal"]["c"]

    def cmp(r, case=case, ok=r1["ok"]):
        run.check_corr("corr.C01.establish_verify", bool(r[0]) == ok, dict(case, model=r[0]))
    batch.add("r_establish_verify %s %s %s %s %s %s" % (coq_pk(pk), zlit(agreed[0]), zlit(cb), zlit(mb), coq_eproof_args(final), zlit(c1)), cmp)
