"""C06 - an accepted proof is rejected under any other statement, key or context."""
from core import *
from pslib import *
from schnorrlib import *
from rangelib import *
from abacuslib import *

RULE = ("honest establish and pay proofs (merchant with known discrete logs) re-verified under every single-component "
        "substitution of their verification tuple: another key, the same key with ONE public element replaced (one per group of "
        "positions g1, Y_i, g~, X~, Y~_i; thorough: all thirteen), other range parameters, other revocation-commitment "
        "parameters, channel id (fresh, one bit flipped, and the alias id + q of known finding F5), balances +-1, nonce "
        "+-1 / fresh, amount +-1 / fresh, context fresh and differing in single bytes; replies (closing signatures, pay "
        "tokens) replayed between two sessions of one channel, between channels, between merchants and between "
        "payments; closing messages from every stage with one field replaced by the value from another state or "
        "channel. Non-trivial = every substitution; distinct = distinct digest.")
TRUSTED = ["theorems C06_* over an arbitrary field / hash; correspondence ops: m_init, m_allow, req_complete, "
           "inactive_activate, started_lock, locked_unlock, close, m_check_close"]
ASSUMPTIONS = ["random-oracle step: a second acceptance requires the hash of a different transcript to hit one prescribed "
               "value (theorems pin that value); probability 1/q is not formalised",
               "known finding F5 (channel ids congruent mod q) is reported as KNOWN-FINDING and excluded by class"]


def in_known_class(k, name, case):
    """the open class F5: the only substituted component is the channel id, and the substituted id is another byte string
    congruent to the original modulo q (decided on the values, not on the name of the generator)"""
    if k.get("class") != "cid-alias-mod-q" or name != "substituted_component_rejected" or "substituted" not in case:
        return False
    sub = case["substituted"]
    a, b = int.from_bytes(bytes.fromhex(case["cid"]), "little"), int.from_bytes(bytes.fromhex(sub["cid"]), "little")
    same_rest = sub["cb"] == case["cb"] and sub["mb"] == case["mb"] and sub["ctx"] == case["ctx"] and case.get("component") != "key"
    return same_rest and a != b and (a - b) % Q == 0


def small_cid(rng):
    b = bytearray(rng.randbytes(32))
    b[31] &= 0x07     # keep int(cid) + q below 2^256
    return bytes(b)


def run(run, h):
    pts = Points(h)
    rng = run.rng
    batch = Batch("C06")
    M = make_merchant(h, pts, rng)
    M2 = make_merchant(h, pts, rng)
    Mrp = h.call("m_from_parts", M.key["kp_hex"], M.rev_hex, M2.rp["hex"])[0]
    Mrev = h.call("m_from_parts", M.key["kp_hex"], M2.rev_hex, M.rp["hex"])[0]
    reps = 1 if run.tier == "quick" else 4
    M.one_element_keys = one_element_keys(run, h, rng, M, M2)
    for _ in range(reps):
        establish_substitutions(run, h, pts, batch, rng, M, M2)
        pay_substitutions(run, h, pts, batch, rng, M, M2, Mrp, Mrev)
        replays(run, h, pts, rng, M, M2)
    batch.flush()


class KeyVariant:
    pass


def one_element_keys(run, h, rng, M, M2):
    """merchants whose PUBLIC key differs from M's in exactly one element (taken from M2's key at the same position); the
    secret half and all parameters are M's. Such a configuration can only be assembled from bytes (merchant::Config::from_parts
    on a spliced KeyPair). 'Any single component of the tuple' includes every element of the key: one element from each group of
    positions (g1, Y_i, g~, X~, Y~_i) and two more (thorough: all thirteen)."""
    a, a2 = M.atoms, M2.atoms
    atoms = [a["g1"]] + list(a["y1s"]) + [a["g2"], a["x2"]] + list(a["y2s"])
    atoms2 = [a2["g1"]] + list(a2["y1s"]) + [a2["g2"], a2["x2"]] + list(a2["y2s"])
    names = ["g1"] + ["y1_%d" % i for i in range(5)] + ["g2", "x2"] + ["y2_%d" % i for i in range(5)]

    def pk_wire(at):
        return at[0] + le8(5) + "".join(at[1:6]) + at[6] + at[7] + le8(5) + "".join(at[8:13])
    kp = M.key["kp_hex"]
    if not kp.endswith(pk_wire(atoms)):
        run.count("one-element key variants skipped (unexpected KeyPair layout)")
        return []
    sk_part = kp[:len(kp) - len(pk_wire(atoms))]
    ks = list(range(13)) if run.tier == "thorough" else sorted({0, rng.randrange(1, 6), 6, 7, rng.randrange(8, 13), rng.randrange(13), rng.randrange(8, 13)})
    out = []
    for k in ks:
        t = h.try_call("m_from_parts", sk_part + pk_wire(atoms[:k] + [atoms2[k]] + atoms[k + 1:]), M.rev_hex, M.rp["hex"])
        if t is None:
            run.count("one-element key variant does not decode: " + names[k])
            continue
        v = KeyVariant()
        v.handle, v.name = t[0], names[k]
        out.append(v)
    return out


def establish_substitutions(run, h, pts, batch, rng, M, M2):
    cid = small_cid(rng)
    cb, mb = rng.choice([(10, 1000), (2 ** 63 - 2, 1), (rng.randrange(1, 2 ** 62), rng.randrange(1, 2 ** 62))])
    ctx = rng.randbytes(40)      # not 32 bytes: so that "the 32-byte digest of this transcript" is a different kind of input
    e = establish_request(h, M, cid, cb, mb, ctx, [rand_nz(rng) for _ in range(12)])
    base = merchant_init(h, M, cid, cb, mb, e["proof_hex"], ctx, u=rand_nz(rng))
    case0 = {"level": "establish", "cid": cid.hex(), "cb": cb, "mb": mb, "ctx": ctx.hex()}
    if not run.check_monitor("honest_proof_accepted_for_its_own_tuple", base["ok"], case0):
        return
    st, ep = e["req"]["state"], e["proof"]
    dl, _ = establish_dls(M, st, e["req"]["bf_token"], e["req"]["bf_close"], ep, e["chal"]["c"])
    alias = (int.from_bytes(cid, "little") + Q).to_bytes(32, "little")
    subs = [("key", (M2, cid, cb, mb, ctx)),
            ("cid_fresh", (M, rng.randbytes(32), cb, mb, ctx)),
            ("cid_bit", (M, bytes([cid[0] ^ 1]) + cid[1:], cb, mb, ctx)),
            ("cid_alias_mod_q", (M, alias, cb, mb, ctx)),
            # every bit of the most significant byte (the part of a channel id that a lossy id -> scalar conversion would
            # drop first) and one random bit elsewhere; none of them is congruent to cid modulo q
            *[("cid_top_byte_bit%d" % k, (M, cid[:31] + bytes([cid[31] ^ (1 << k)]), cb, mb, ctx)) for k in range(8)],
            ("cid_random_bit", (M, (lambda i, k: cid[:i] + bytes([cid[i] ^ (1 << k)]) + cid[i + 1:])(rng.randrange(1, 31), rng.randrange(8)), cb, mb, ctx)),
            ("cb+1", (M, cid, cb + 1, mb, ctx)), ("cb-1", (M, cid, cb - 1, mb, ctx)),
            ("mb+1", (M, cid, cb, mb + 1, ctx)), ("mb-1", (M, cid, cb, mb - 1, ctx)),
            ("swap_balances", (M, cid, mb, cb, ctx)),
            ("ctx_fresh", (M, cid, cb, mb, rng.randbytes(32))), ("ctx_empty", (M, cid, cb, mb, b"")),
            # the context whose transcript is the 32-byte digest of this session's transcript (and the reverse direction below)
            ("ctx_is_digest_of_ctx", (M, cid, cb, mb, sha3(ctx))), ("ctx_truncated", (M, cid, cb, mb, ctx[:31])),
            ("ctx_extended", (M, cid, cb, mb, ctx + b"\x00"))]
    for i in (range(len(ctx)) if run.tier == "thorough" else rng.sample(range(len(ctx)), 4)):
        subs.append(("ctx_byte", (M, cid, cb, mb, ctx[:i] + bytes([ctx[i] ^ 0x80]) + ctx[i + 1:])))
    for v in M.one_element_keys:
        subs.append(("key_element_" + v.name, (v, cid, cb, mb, ctx)))
    for name, (Mx, cid_, cb_, mb_, ctx_) in subs:
        if not (0 <= cb_ <= 2 ** 63 - 1 and 0 <= mb_ <= 2 ** 63 - 1) or (cb_, mb_) == (cb, mb) and name == "swap_balances":
            continue
        h.begin()
        r = merchant_init(h, Mx, cid_, cb_, mb_, e["proof_hex"], ctx_, u=rand_nz(rng))
        case = dict(case0, component=name, substituted={"cid": cid_.hex(), "cb": cb_, "mb": mb_, "ctx": ctx_.hex()},
                    accepted=r["ok"], script=h.end())
        run.case(case)
        run.count("establish " + name)
        run.check_monitor("substituted_component_rejected", not r["ok"], case)
        if Mx is M:
            def cmp(rr, case=case, ok=r["ok"]):
                run.check_corr("corr.C06.establish_verify_under_substitution", bool(rr[0]) == ok, dict(case, model=rr[0]))
            batch.add("r_establish_verify %s %s %s %s %s %s" % (coq_pk(M.pk), zlit(int.from_bytes(cid_, "little")), zlit(cb_),
                                                               zlit(mb_), coq_eproof_args(dl), zlit(r["chal"]["c"])), cmp)


def pay_substitutions(run, h, pts, batch, rng, M, M2, Mrp, Mrev):
    est = full_establish(h, M, rng, rng.randbytes(32), rng.randrange(10, 2 ** 40), rng.randrange(10, 2 ** 40), b"e")
    if not run.check_monitor("honest_proof_accepted_for_its_own_tuple", est["ok"], {"level": "establish-for-pay"}):
        return
    amt = rng.choice([1, -1, 0, 5])
    ctx = rng.randbytes(33)
    h.rng(rng.randrange(2 ** 31))
    t = h.call("ready_start", est["ready"], amt, hx(ctx), M.cconfig)
    nonce, proof = unsc(t[2]), t[3]
    case0 = {"level": "pay", "amount": amt, "ctx": ctx.hex()}

    def allow(handle, amount, nonce_, ctx_):
        h.rng(3)
        return h.call("m_allow", handle, amount, sc(nonce_), proof, hx(ctx_))[0] == "1"
    if not run.check_monitor("honest_proof_accepted_for_its_own_tuple", allow(M.handle, amt, nonce, ctx), case0):
        return
    subs = [("key", (M2.handle, amt, nonce, ctx)), ("range_parameters", (Mrp, amt, nonce, ctx)),
            ("revocation_commitment_parameters", (Mrev, amt, nonce, ctx)),
            ("nonce+1", (M.handle, amt, (nonce + 1) % Q, ctx)), ("nonce-1", (M.handle, amt, (nonce - 1) % Q, ctx)),
            ("nonce_fresh", (M.handle, amt, rand_nz(rng), ctx)),
            ("amount+1", (M.handle, amt + 1, nonce, ctx)), ("amount-1", (M.handle, amt - 1, nonce, ctx)),
            ("amount_negated", (M.handle, -amt if amt else 2, nonce, ctx)),
            ("amount_fresh", (M.handle, rng.randrange(-2 ** 62, 2 ** 62), nonce, ctx)),
            ("ctx_fresh", (M.handle, amt, nonce, rng.randbytes(32))), ("ctx_is_digest_of_ctx", (M.handle, amt, nonce, sha3(ctx))),
            ("ctx_truncated", (M.handle, amt, nonce, ctx[:32]))]
    for i in (range(len(ctx)) if run.tier == "thorough" else rng.sample(range(len(ctx)), 3)):
        subs.append(("ctx_byte", (M.handle, amt, nonce, ctx[:i] + bytes([ctx[i] ^ 1]) + ctx[i + 1:])))
    for v in M.one_element_keys:
        subs.append(("key_element_" + v.name, (v.handle, amt, nonce, ctx)))
    for name, (hd, a_, n_, c_) in subs:
        if n_ == CLOSE:
            continue
        h.begin()
        ok = allow(hd, a_, n_, c_)
        case = dict(case0, component=name, accepted=ok, script=None)
        h.end()
        run.case(case)
        run.count("pay " + name)
        run.check_monitor("substituted_component_rejected", not ok, case)


def advance(h, M, rng, ready, n):
    """n honest payments; returns list of (stage name, state bytes) snapshots and the final ready"""
    snaps = [("ready", ready)]
    for _ in range(n):
        amt = rng.choice([1, 2, -1, 0])
        r = pay_once(h, M, rng, ready, amt, b"adv")
        if not r["ok"]:
            break
        snaps += [("started", r["started"]), ("locked", r["locked"]), ("ready", r["ready"])]
        ready = r["ready"]
    return snaps, ready


def replays(run, h, pts, rng, M, M2):
    cid, cb, mb, ctx = rng.randbytes(32), rng.randrange(5, 2 ** 30), rng.randrange(5, 2 ** 30), b"session"
    A = full_establish(h, M, rng, cid, cb, mb, ctx)
    B = full_establish(h, M, rng, cid, cb, mb, ctx)                      # same channel, another session
    Cc = full_establish(h, M, rng, rng.randbytes(32), cb, mb, ctx)       # another channel
    D = full_establish(h, M2, rng, cid, cb, mb, ctx)                     # another merchant
    if not run.check_monitor("honest_proof_accepted_for_its_own_tuple", all(x["ok"] for x in (A, B, Cc, D)), {"level": "replay-setup"}):
        return
    for name, other, cfg in (("other_session", B, M.cconfig), ("other_channel", Cc, M.cconfig), ("other_merchant", D, M.cconfig)):
        # A's requested / inactive states are offered the replies recorded in the other run
        t1 = h.call("req_complete", A["e"]["req_hex"], other["mi"]["closing"], cfg)
        t2 = h.call("inactive_activate", A["inactive"], other["token"], cfg)
        t3 = h.call("inactive_activate", A["inactive"], other["mi"]["closing"], cfg)   # wrong message type
        t4 = h.call("req_complete", A["e"]["req_hex"], other["token"], cfg)
        case = {"level": "replay", "kind": name}
        run.case(case)
        run.count("replay " + name)
        run.check_monitor("replayed_reply_refused", t1[0] == "refused" and t2[0] == "refused" and t3[0] == "refused" and t4[0] == "refused",
                          dict(case, results=[t1[0], t2[0], t3[0], t4[0]]))
        run.check_monitor("refusal_leaves_state_unchanged", t1[1] == A["e"]["req_hex"] and t2[1] == A["inactive"], case)
        # the establish proof itself, replayed to the other merchant / for the other channel
        r = merchant_init(h, M2 if name == "other_merchant" else M, bytes.fromhex(cid.hex()) if name != "other_channel" else rng.randbytes(32),
                          cb, mb, A["e"]["proof_hex"], ctx, u=1)
        if name != "other_session":
            run.check_monitor("replayed_proof_refused", not r["ok"], case)
    # payments: replies of payment 1 replayed in payment 2
    p1 = pay_once(h, M, rng, A["ready"], 1, b"p1")
    if p1["ok"]:
        h.rng(rng.randrange(2 ** 31))
        t = h.call("ready_start", p1["ready"], 1, hx(b"p2"), M.cconfig)
        started2, nonce2, proof2 = t[1], t[2], t[3]
        l = h.call("started_lock", started2, p1["closing"], M.cconfig)
        case = {"level": "replay", "kind": "earlier_payment"}
        run.case(case)
        run.count("replay earlier_payment")
        run.check_monitor("replayed_reply_refused", l[0] == "refused" and l[1] == started2, dict(case, result=l[0]))
        h.rng(4)
        a = h.call("m_allow", M.handle, 1, nonce2, proof2, hx(b"p2"))
        if a[0] == "1":
            l2 = h.call("started_lock", started2, a[2], M.cconfig)
            if l2[0] == "ok":
                u = h.call("locked_unlock", l2[1], p1["token"], M.cconfig)
                run.check_monitor("replayed_reply_refused", u[0] == "refused" and u[1] == l2[1], dict(case, which="token", result=u[0]))
        # the pay proof of payment 1 replayed under the context / nonce of payment 2
        h.rng(4)
        a2 = h.call("m_allow", M.handle, 1, nonce2, p1["proof_hex"], hx(b"p2"))
        run.check_monitor("replayed_proof_refused", a2[0] != "1", dict(case, which="pay proof"))
    # closing messages from every stage, one field replaced by the value from another state / channel
    snapsA, _ = advance(h, M, rng, A["ready"], 2)
    snapsC, _ = advance(h, M, rng, Cc["ready"], 1)
    msgs = []
    for stage, sb in [("inactive", A["inactive"])] + snapsA + snapsC:
        h.rng(rng.randrange(2 ** 31))
        t = h.call("close", stage, sb, M.handle)
        msgs.append((stage, t[0], t[5] == "1"))
    for i, (stage, mhex, ok) in enumerate(msgs):
        case = {"level": "closing", "stage": stage}
        run.check_monitor("closing_message_accepted", ok, case)
        run.count("closing " + stage)
        for j, (_, other, _) in enumerate(msgs):
            if i == j:
                continue
            for fname, (o, l) in (("cid", (96, 32)), ("lock", (128, 32)), ("mb", (160, 8)), ("cb", (168, 8))):
                a, b = bytes.fromhex(mhex), bytes.fromhex(other)
                if a[o:o + l] == b[o:o + l]:
                    continue
                sub = a[:o] + b[o:o + l] + a[o + l:]
                r = h.call("m_check_close", M.handle, sub.hex())
                sc_case = dict(case, field=fname, from_message=j)
                run.case(sc_case)
                run.check_monitor("substituted_closing_message_rejected", r[0] == "0", dict(sc_case, result=r[0]))
        # single-bit changes of the channel id inside the closing message (top byte: every bit)
        a = bytes.fromhex(mhex)
        for k in range(8):
            sub = a[:96 + 31] + bytes([a[96 + 31] ^ (1 << k)]) + a[96 + 32:]
            if (int.from_bytes(sub[96:128], "little") - int.from_bytes(a[96:128], "little")) % Q == 0:
                continue
            r = h.call("m_check_close", M.handle, sub.hex())
            sc_case = dict(case, field="cid_top_byte_bit%d" % k)
            run.case(sc_case)
            run.check_monitor("substituted_closing_message_rejected", r[0] == "0", dict(sc_case, result=r[0]))
