"""C18 - pay tokens and closing signatures can never stand in for each other."""
from core import *
from abacuslib import *

RULE = ("nonce generation under scripted streams whose first k in {0,1,2,5} scalar draws are the close tag, through "
        "internal::test_new_nonce, customer::Requested::new and Ready::start; nonce decoding over the edge set, the close "
        "tag and non-canonical encodings; for every Ready state of channel histories (0-2 payments) the pay token "
        "re-labelled as closing signature for the close state sharing its other fields (merchant close check) and vice "
        "versa; ChannelId::new under every single-input change (randomness, key - another key, and the same key with one element "
        "replaced or two exchanged, requested right after the original and followed by the original again -, account strings of "
        "several lengths), "
        "recomputed with hashlib and with the Gallina SHA3. Non-trivial = every case; distinct = distinct digest.")
TRUSTED = ["theorems C18_* for every stream / field / hash; correspondence ops: nonce_new, decode Nonce, req_new, ready_start, "
           "m_check_close, sig_verify, cid_new"]
ASSUMPTIONS = ["channel ids: proved is that the HASHED STRING changes under a single-input change; that the digest changes is "
               "SHA3 collision resistance"]


def run(run, h):
    pts = Points(h)
    rng = run.rng
    batch = Batch("C18")
    M = make_merchant(h, pts, rng)
    # ---- nonce generation
    reps = 2 if run.tier == "quick" else 10
    for k in (0, 1, 2, 5):
        for _ in range(reps):
            tail = [rng.choice([rand_nz(rng), 0, 1, CLOSE + 1, CLOSE - 1]) for _ in range(3)]
            tail = [t for t in tail if t != CLOSE] or [3]
            tape = [CLOSE] * k + tail
            h.begin()
            h.rng(2, tape)
            n = unsc(h.call("nonce_new")[0])
            served, _ = h.served()
            case = {"op": "nonce_new", "close_prefix": k, "tape": tape, "script": h.end()}
            run.case(case)
            run.count("nonce_new prefix %d" % k)
            run.check_monitor("generated_nonce_is_not_close_tag", n != CLOSE, dict(case, nonce=n))
            batch.add("r_nonce_new %s" % zlist(served),
                      lambda r, n=n, case=case: run.check_corr("corr.C18.nonce_new", r == [1, n], dict(case, model=r, impl=n)))
            # through the customer API: the close tag served k times in a row starting at draw index i, for the first
            # draw indices (whichever of them the code uses for the nonce - no assumption on the order of its draws)
            for i in ((0, 1, 2) if run.tier == "quick" else range(6)):
                cid = rng.randbytes(32)
                full = [rand_nz(rng) for _ in range(i)] + [CLOSE] * k + [rand_nz(rng) for _ in range(16)]
                e = establish_request(h, M, cid, 7, 9, b"x", full)
                nn = e["req"]["state"]["nonce"]
                run.check_monitor("generated_nonce_is_not_close_tag", nn != CLOSE and nn in e["served"],
                                  dict(case, via="Requested::new", window_at=i, nonce=nn))
                run.check_monitor("generated_state_passes_decode_validation",
                                  h.call("decode", "Requested", e["req_hex"]) == ["ok", e["req_hex"]], dict(case, via="Requested::new", window_at=i))
    est = full_establish(h, M, rng, rng.randbytes(32), 50, 60, b"c18")
    run.check_monitor("honest_establish_accepted", est["ok"], {})
    ready = est["ready"]
    for k in (1, 2):
        for i in (0, 1, 2):
            h.rng(3, [rand_nz(rng) for _ in range(i)] + [CLOSE] * k + [rand_nz(rng) for _ in range(97)])
            t = h.call("ready_start", ready, 1, "-", M.cconfig)
            stt = parse_started(t[1])
            run.case({"op": "start", "close_window": [i, k]})
            run.check_monitor("generated_nonce_is_not_close_tag", stt["new"]["nonce"] != CLOSE and unsc(t[2]) != CLOSE,
                              {"via": "Ready::start", "k": k, "window_at": i})
            run.check_monitor("generated_state_passes_decode_validation", h.call("decode", "Started", t[1]) == ["ok", t[1]],
                              {"via": "Ready::start", "k": k, "window_at": i})
    # ---- nonce decoding
    for x in EDGE + [CLOSE, CLOSE + 1, CLOSE - 1, Q, Q + 1, 2 ** 256 - 1, rand_nz(rng), CLOSE + Q, Q + 5, 2 * Q + 1]:
        raw = x.to_bytes(32, "little").hex()
        got = h.call("decode", "Nonce", raw)[0] == "ok"
        case = {"op": "nonce_decode", "value": x}
        run.case(case)
        run.count("nonce_decode")
        run.check_monitor("decoded_nonce_is_canonical_and_not_close_tag", got == (x < Q and x != CLOSE), dict(case, impl=got))
        batch.add("r_nonce_decode %d" % x, lambda r, got=got, case=case: run.check_corr("corr.C18.nonce_decode", bool(r[0]) == got, dict(case, model=r)))
    # ---- relabelling along channel histories
    snaps = [ready]
    for _ in range(2 if run.tier == "quick" else 6):
        r = pay_once(h, M, rng, snaps[-1], rng.choice([1, -1, 0, 3]), b"h")
        if not r["ok"]:
            break
        snaps.append(r["ready"])
    for i, rd in enumerate(snaps):
        p = parse_ready(rd)
        st = p["state"]
        tail = st["cid"] + st["lock"].to_bytes(32, "little") + st["mb"].to_bytes(8, "little") + st["cb"].to_bytes(8, "little")
        as_close = (p["token"][0] + p["token"][1]) + tail.hex()
        genuine = (p["close_sig"][0] + p["close_sig"][1]) + tail.hex()
        r1 = h.call("m_check_close", M.handle, as_close)[0]
        r2 = h.call("m_check_close", M.handle, genuine)[0]
        v1 = h.call("sig_verify", 5, M.key["pk_hex"], scs(state_msg(st)), p["close_sig"][0] + p["close_sig"][1])[0]
        v2 = h.call("sig_verify", 5, M.key["pk_hex"], scs(state_msg(st)), p["token"][0] + p["token"][1])[0]
        case = {"op": "relabel", "payments_before": i}
        run.case(case)
        run.count("relabel")
        run.check_monitor("pay_token_fails_close_check", r1 == "0", dict(case, result=r1))
        run.check_monitor("closing_signature_passes_close_check", r2 == "1", dict(case, result=r2))
        run.check_monitor("closing_signature_is_not_a_pay_token", v1 == "0" and v2 == "1", dict(case, results=[v1, v2]))
    # ---- channel ids
    pk_hex = M.key["pk_hex"]
    a = M.atoms
    expect_pkb = a["g1"] + "".join(a["y1s"]) + a["g2"] + a["x2"] + "".join(a["y2s"])
    M2 = make_merchant(h, pts, rng)
    for rd in range(2 if run.tier == "quick" else 8):
        mr, cr = rng.randbytes(32), rng.randbytes(32)
        ma, ca = rng.randbytes(rng.choice([0, 1, 20])), rng.randbytes(rng.choice([0, 1, 33]))
        base = h.call("cid_new", mr.hex(), cr.hex(), pk_hex, hx(ma), hx(ca))
        again = h.call("cid_new", mr.hex(), cr.hex(), pk_hex, hx(ma), hx(ca))
        case = {"op": "cid", "mr": mr.hex(), "cr": cr.hex(), "ma": ma.hex(), "ca": ca.hex()}
        run.case(case)
        run.count("channel id")
        pkb = bytes.fromhex(base[1])
        run.check_monitor("channel_id_is_sha3_of_all_five_inputs",
                          base[0] == sha3(mr + cr + pkb + ma + ca).hex() and base[1] == expect_pkb and again[0] == base[0], case)
        changes = [("merchant_randomness", (bytes([mr[0] ^ 1]) + mr[1:], cr, pk_hex, ma, ca)),
                   ("customer_randomness", (mr, cr[:31] + bytes([cr[31] ^ 0x80]), pk_hex, ma, ca)),
                   ("public_key", (mr, cr, M2.key["pk_hex"], ma, ca)),
                   ("merchant_account", (mr, cr, pk_hex, ma + b"\x00", ca)),
                   ("merchant_account_byte", (mr, cr, pk_hex, (bytes([ma[0] ^ 1]) + ma[1:]) if ma else b"\x01", ca)),
                   ("customer_account", (mr, cr, pk_hex, ma, ca + b"\x00")),
                   ("customer_account_byte", (mr, cr, pk_hex, ma, (bytes([ca[0] ^ 1]) + ca[1:]) if ca else b"\x01"))]
        for nm, (a1, a2, a3, a4, a5) in changes:
            c2 = h.call("cid_new", a1.hex(), a2.hex(), a3, hx(a4), hx(a5))[0]
            cc = dict(case, changed=nm)
            run.case(cc)
            run.check_monitor("channel_id_changes_with_any_single_input", c2 != base[0], cc)
        # every single ELEMENT of the public key (both halves; a key that differs from the previous one in one element can only
        # come from decoding, and the id of each such key is requested right after the id of its neighbour - the function must not
        # depend on what was computed before): the id is the SHA3 of the inputs with that element replaced, and differs
        atoms = [a["g1"]] + list(a["y1s"]) + [a["g2"], a["x2"]] + list(a["y2s"])
        a2 = M2.atoms
        atoms2 = [a2["g1"]] + list(a2["y1s"]) + [a2["g2"], a2["x2"]] + list(a2["y2s"])
        def pk_wire(at):            # bincode of PublicKey<5>: the two arrays carry a length prefix
            return at[0] + le8(5) + "".join(at[1:6]) + at[6] + at[7] + le8(5) + "".join(at[8:13])
        if pk_hex == pk_wire(atoms):
            variants = [("pk_element_%d_replaced" % k, atoms[:k] + [atoms2[k]] + atoms[k + 1:]) for k in range(len(atoms))]
            variants += [("pk_y1_0_1_exchanged", [atoms[0], atoms[2], atoms[1]] + atoms[3:]),
                         ("pk_y2_3_4_exchanged", atoms[:11] + [atoms[12], atoms[11]])]
            if run.tier == "quick":
                variants = rng.sample(variants, 6) + variants[-2:]
            for nm, at in variants:
                pk2 = pk_wire(at)
                got = h.try_call("cid_new", mr.hex(), cr.hex(), pk2, hx(ma), hx(ca))
                cc = dict(case, changed=nm)
                run.case(cc)
                run.count("channel id: one key element changed")
                if got is None:
                    continue            # the variant does not decode as a key
                run.check_monitor("channel_id_is_sha3_of_all_five_inputs",
                                  got[0] == sha3(mr + cr + bytes.fromhex("".join(at)) + ma + ca).hex() and got[1] == "".join(at), cc)
                run.check_monitor("channel_id_changes_with_any_single_input", got[0] != base[0], cc)
                back = h.call("cid_new", mr.hex(), cr.hex(), pk_hex, hx(ma), hx(ca))
                run.check_monitor("channel_id_is_sha3_of_all_five_inputs", back[0] == base[0], dict(cc, step="original key again"))
        else:
            run.count("channel id: key bytes are not in the expected layout (element variants skipped)")
        if rd == 0:
            # the key's byte representation as the model lays it out (Abacus.pk_to_bytes_atoms), concretised on the curve
            batch.add("r_pk_to_bytes %s" % coq_pk(M.pk),
                      lambda r, base=base, case=case: run.check_corr("corr.C18.public_key_to_bytes", "".join(concretize_atoms(pts, r)) == base[1],
                                                                     dict(case, model_atoms=len(r))))
            batch.add("r_channel_id %s %s %s %s %s" % (zlist(list(mr)), zlist(list(cr)), zlist(list(pkb)), zlist(list(ma)), zlist(list(ca))),
                      lambda r, base=base, case=case: run.check_corr("corr.C18.channel_id", bytes(r).hex() == base[0], dict(case, model=bytes(r).hex())))
        ctxb = rng.randbytes([32, 31, 33, 64, 0, 3, 200, 136][rd % 8])       # 32: the length of a digest itself
        cimpl = h.call("ctx_new", hx(ctxb))[0]
        run.check_monitor("context_is_sha3_of_input", cimpl == sha3(ctxb).hex(), {"ctx": ctxb.hex()})
        if rd == 0:
            batch.add("r_context %s" % zlist(list(ctxb)),
                      lambda r, cimpl=cimpl: run.check_corr("corr.C18.context", bytes(r).hex() == cimpl, {"model": bytes(r).hex()}))
    batch.flush()
