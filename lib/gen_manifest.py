#!/usr/bin/env python3
"""Writes MANIFEST.json from the table below (kept in one place so that it stays valid)."""
import json, os
VERIF = os.path.dirname(os.path.dirname(os.path.abspath(__file__)))
CLAIMED = {
 "C09": dict(design="6 (C09)", technique="Coq proof over an arbitrary field (ring/field, list induction) + differential correspondence of the Gallina model (vm_compute) against the implementation",
   text="Machine-checked theorems (Properties/C09.v): the model commitment is bf*h + <g,m>; verify_opening accepts iff the recomputed commitment equals the given one; original opening accepted; single-coordinate change rejected iff that generator is non-identity; wrong blinding factor rejected for h != 0; additivity - for every field, every tuple length, every input. The model is tied to /repo on every run by evaluating it in Coq on the same inputs as Message::commit / Commitment::verify_opening (G1 and G2, N in {1,2,3,5,8,13}, known-discrete-log, generated and key-derived parameters) and by independent accumulation on the curve.",
   note="Trusted: Coq kernel + vm_compute; bls12_381 arithmetic/codecs (modelled as a prime-order group in discrete-log form, q proved prime); the harness/driver. No axioms."),
 "C07": dict(design="6 (C07)", technique="Coq proof (iff characterisation of verify + algebraic corollaries over an arbitrary field) + differential correspondence of the Gallina model against the implementation + independent pairing monitor",
   text="Machine-checked theorems (Properties/C07.v): verify = true iff sigma1 != identity and e(sigma1, X~ + sum mi Y~i) = e(sigma2, g~) for every key, message and signature value; sign / randomize (exactly for r != 0; r = 0 gives the rejected all-identity signature) / blind_and_randomize+unblind / blind-sign+unblind verify; a valid signature verifies on another message iff <Y~, m - m'> = 0, hence never after a single-coordinate change; wrong blinding factor, changed X~, g~ or Y~j reject. Tied to /repo by evaluating the model in Coq on the same chains as the implementation (known-discrete-log keys and KeyPair::new keys, N in {1,2,3,5,8,13}, scripted randomisers incl. 0) and by an independent evaluation of the relation with bls12_381::pairing.",
   note="Trusted: Coq kernel + vm_compute; bls12_381 (groups, pairing, codecs) modelled in discrete-log form; harness/driver. Nothing computational is needed for this property. No axioms."),
 "C11": dict(design="6 (C11)", technique="Coq proof (iff characterisations, perturbation lemmas with exact side conditions, special soundness via the field tactic) + differential correspondence + independent curve/pairing monitor",
   text="Machine-checked theorems (Properties/C11.v): commitment-proof and signature-request verification accept iff commit(responses) = T + c*C; signature-proof verification iff additionally sigma1' != identity and e(sigma1', X~ + C) = e(sigma2', g~); each single-field change of an accepted proof rejects under its exact side condition (C: c != 0; T: always; response j: g_j != identity; bf response: h != identity; challenge: C != identity; generator j: r_j != 0); simulated transcripts are accepted under another challenge iff (c'-c)*C = 0; identity blinded signatures never accepted; special soundness (two accepting challenges for one first message yield an opening, and for signature proofs a valid signature on it). Tied to /repo by verifying proofs assembled from bytes with known discrete logs in the implementation and in the Coq model, plus an independent evaluation of the relations on the wire atoms.",
   note="Trusted: Coq kernel + vm_compute; bls12_381 modelled in discrete-log form; harness/driver. 'Assembled without knowing an opening is never accepted' is proved as special soundness; the step to 'no efficient prover' (rewinding, discrete-log hardness) is not formalised. Challenge value 0 is unreachable through the API and covered by theorems only. No axioms."),
 "C10": dict(design="6 (C10)", technique="Coq proof of completeness for all messages / lengths / randomness / challenges + differential correspondence with order-free recovery of the prover's randomness",
   text="Machine-checked theorems (Properties/C10.v): commitment, signature-request, signature (exactly for randomiser != 0) and range-constraint (for every value in [0,2^63), any valid parameter set) proofs built by the model prover verify, for every message, tuple length, randomness and challenge; builder and proof feed the same chunks to the challenge; response scalars are c*m_j + k_j, of which all six documented patterns are instances; range link. Tied to /repo by running the library provers under a scripted RNG, recovering every named random value from the served tape (order-free), and requiring the Coq model to reproduce the proof atoms exactly; the hook compares the hashed chunk lists of builder and proof.",
   note="Trusted: Coq kernel + vm_compute; bls12_381 in discrete-log form; harness/driver incl. the randomness-recovery search (its answer is trusted only because the model must then reproduce the bytes). No axioms."),
 "C08": dict(design="6 (C08)", technique="Coq proof (constructor uniqueness of the blind-signable value, end-to-end request/sign/unblind theorem) + differential correspondence",
   text="Machine-checked theorems (Properties/C08.v): the model's verifier returns a blind-signable value iff the Schnorr relation holds and that value is the proof's own commitment; honest request -> blind signature (u != 0) -> unblinding gives a signature verifying on the requested message and rejecting every single-coordinate change (multi-coordinate changes are accepted iff <Y~, m-m'> = 0). Tied to /repo by running request/verify/blind-sign/unblind/verify through the API (known-log and generated keys, all N) against the model, and by tampering every field of the request.",
   note="Trusted: as C07/C11. Computational residue: a party without the secret y cannot solve <Y~, m-m'> = 0 for a multi-coordinate change (discrete log) - stated, not proved. No axioms."),
 "C13": dict(design="6 (C13)", technique="Coq proof (digit arithmetic by lia for all integers, verifier iff, completeness, special soundness) + differential correspondence + assembled-constraint monitor",
   text="Machine-checked theorems (Properties/C13.v): prover refuses every negative and accepts every non-negative i64; nine base-128 digits of v in [0,2^63) recompose to v; any nine digits in [0,128) sum to at most 2^63-1 < q (no wrap); honest constraints verify against c*v + commitment scalar and reject any other link; range_verify iff nine signature-proof relations and the weighted response sum; special soundness: an accepted constraint (two transcripts) yields per digit a message with a valid range-key signature whose weighted sum is the linked value; validate iff the i-th signature verifies on i. Tied to /repo on the i64 lattice, with constraints assembled from published digit signatures (all-maximal, swapped, foreign digit signature, digit 128 claim, outside-range link, 8/10 proofs) and substituted parameter sets.",
   note="Trusted: as C11. 'No constraint verifies outside the range' additionally needs: only the 128 published digit signatures exist for the discarded key (PS unforgeability) - named, not proved. No axioms."),
 "C01": dict(design="6 (C01)", technique="Coq proof (verifier = exact relation; special soundness with slot equalities; transcript binding; blind-signature correctness) + differential correspondence of prover/transcript/verifier + forger-family search against the real merchant",
   text="PARTIAL proof. Machine-checked (Properties/C01.v), for every field, hash function, key, agreed values and proof: merchant::initialize's acceptance is exactly two Schnorr relations + eight response-scalar equations and it blind-signs the proof's own commitments; two accepting transcripts with one first message yield openings whose slots are the agreed channel id and balances, one shared lock and the close tag; the hashed transcript determines the key, agreed values, both (C,T) pairs, the four revealed commitment scalars and the context; blind signatures on such commitments unblind to signatures on exactly those messages and on no single-slot change; honest proofs are accepted under Fiat-Shamir for every hash. Tied to /repo by reproducing honest proofs byte for byte from recovered randomness, comparing the recorded hashed chunks with the model transcript, comparing merchant decisions with the model on honest and forged proofs, and by running the forger family (honest-but-lying, per-relation, post-challenge choice of revealed scalars / T) against the real merchant on every run.",
   note="Not formalised: the rewinding/forking step from special soundness + binding to 'no efficient prover' (random-oracle model) and discrete-log hardness (uniqueness of openings). The forger family is search, not proof. Trusted: Coq kernel + vm_compute, bls12_381/sha3 as modelled, harness/driver, the verif-hooks recorder. No axioms."),
 "C02": dict(design="6 (C02)", technique="Coq proof (verifier = exact relation; special soundness incl. valid token signature and digit signatures; transcript binding; one-token-two-nonces) + differential correspondence (89 named random values recovered) + forger-family search against the real merchant",
   text="PARTIAL proof. Machine-checked (Properties/C02.v): merchant::allow_payment's acceptance is exactly the conjunction of four sub-proof relations, two range relations and nine equations; two accepting transcripts with one first message yield: a valid merchant signature on an old state containing the given nonce, openings of the new state / close state / lock commitment with equal channel ids, balances moved by exactly the amount, shared new lock, close tag, the returned commitment opening to the old lock, and each new balance as a weighted sum of nine messages carrying valid range-key signatures; the transcript binds every non-response field; one proof accepted under two nonces (or two amounts) with one challenge forces c = 0, and at most one challenge is accepted per proof; honest payments are accepted for every randomness. Tied to /repo by reproducing whole PayProofs byte for byte in the Coq prover from recovered randomness, transcript and verifier correspondence, and the forger family on every run.",
   note="Not formalised: rewinding/random-oracle step; PS unforgeability ('merchant-issued' token, digits confined to [0,128)); discrete-log hardness. Forger family is search. Trusted as C01. No axioms."),
}
PENDING_REASON = "check under construction in this session (DESIGN.md section 10 build order); nothing is claimed for it yet"
def main():
    props = [json.loads(l) for l in open(os.path.join(VERIF, "properties.jsonl"))]
    checks, na = [], []
    for p in props:
        pid = p["id"]
        if pid in CLAIMED:
            c = CLAIMED[pid]
            checks.append({
                "property_id": pid,
                "quick_cmd": "./check %s --tier quick" % pid,
                "thorough_cmd": "./check %s --tier thorough" % pid,
                "evidence_file": "/verif/evidence/%s.json" % pid,
                "replay_cmd_template": "./check %s --replay {path}" % pid,
                "engine": "coq-model+correspondence",
                "level_claimed": {"category": "proof", "text": c["text"], "design_ref": "DESIGN.md section " + c["design"]},
                "level_note": c["note"],
                "technique": c["technique"],
            })
        else:
            na.append({"property_id": pid, "reason": PENDING_REASON})
    m = {
        "version": 1,
        "setup_cmd": "./setup.sh",
        "hooks": {
            "guard": "cargo feature verif-hooks (zkchannels-crypto)",
            "enable": "the harness depends on zkchannels-crypto with features [bincode, verif-hooks]; cargo build --offline --profile fastdebug in /verif/harness",
            "baseline_off_cmd": "cd /repo && cargo test --workspace --no-fail-fast --offline",
            "source_commits": ["dac0581"],
            "add_only": True,
        },
        "engines": [{"name": "coq-model+correspondence", "path": "/verif/check",
                     "serves_properties": sorted(CLAIMED),
                     "kind_free_text": "Coq 8.16 theorems about a hand-written Gallina model (coq/), tied to /repo by a differential correspondence check (harness/ Rust adaptor, lib/ Python driver, vm_compute evaluation of the model)"}],
        "checks": checks,
        "not_applicable": na,
        "notes": "See DESIGN.md. known_findings.json lists fixed defects (four fix: commits in /repo) and the open finding F5 (C06).",
    }
    json.dump(m, open(os.path.join(VERIF, "MANIFEST.json"), "w"), indent=1)
if __name__ == "__main__":
    main()
