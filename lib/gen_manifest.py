#!/usr/bin/env python3
"""Writes MANIFEST.json from the table below (kept in one place so that it stays valid)."""
import json, os
VERIF = os.path.dirname(os.path.dirname(os.path.abspath(__file__)))
CLAIMED = {
 "C09": dict(design="6 (C09)", technique="Coq proof over an arbitrary field (ring/field, list induction) + differential correspondence of the Gallina model (vm_compute) against the implementation",
   text="Machine-checked theorems (Properties/C09.v): the model commitment is bf*h + <g,m>; verify_opening accepts iff the recomputed commitment equals the given one; original opening accepted; single-coordinate change rejected iff that generator is non-identity; wrong blinding factor rejected for h != 0; additivity - for every field, every tuple length, every input. The model is tied to /repo on every run by evaluating it in Coq on the same inputs as Message::commit / Commitment::verify_opening (G1 and G2, N in {1,2,3,5,8,13}, known-discrete-log, generated and key-derived parameters) and by independent accumulation on the curve.",
   note="Trusted: Coq kernel + vm_compute; bls12_381 arithmetic/codecs (modelled as a prime-order group in discrete-log form, q proved prime); the harness/driver. No axioms."),
 "C07": dict(design="6 (C07)", technique="Coq proof (iff characterisation of verify + algebraic corollaries over an arbitrary field) + differential correspondence of the Gallina model against the implementation + independent pairing monitor",
   text="Machine-checked theorems (Properties/C07.v): verify = true iff sigma1 != identity and e(sigma1, X~ + sum mi Y~i) = e(sigma2, g~) for every key, message and signature value; sign / randomize (exactly for r != 0; r = 0 gives the rejected all-identity signature) / blind_and_randomize+unblind / blind-sign+unblind verify; a valid signature verifies on another message iff <Y~, m - m'> = 0, hence never after a single-coordinate change; wrong blinding factor, changed X~, g~ or Y~j reject. Tied to /repo by evaluating the model in Coq on the same chains as the implementation (known-discrete-log keys and KeyPair::new keys, N in {1,2,3,5,8,13}, scripted randomisers incl. 0) and by an independent evaluation of the relation with bls12_381::pairing.",
   note="Trusted: Coq kernel + vm_compute; bls12_381 (groups, pairing, codecs) modelled in discrete-log form; harness/driver. Nothing computational is needed for this property. No axioms."),
}
PENDING_REASON = "check under construction in this session (DESIGN.md section 10 build order); nothing is claimed for it yet"
def main():
    props = [json.loads(l) for l in open(os.path.join(VERIF, "properties.jsonl"))]
    checks, na = [], []
    for p in props:
        pid = p["id"]
        if pid in CLAIMED:
            c = CLAIMED[pid]
            checks.append({
                "property_id": pid,
                "quick_cmd": "./check %s --tier quick" % pid,
                "thorough_cmd": "./check %s --tier thorough" % pid,
                "evidence_file": "/verif/evidence/%s.json" % pid,
                "replay_cmd_template": "./check %s --replay {path}" % pid,
                "engine": "coq-model+correspondence",
                "level_claimed": {"category": "proof", "text": c["text"], "design_ref": "DESIGN.md section " + c["design"]},
                "level_note": c["note"],
                "technique": c["technique"],
            })
        else:
            na.append({"property_id": pid, "reason": PENDING_REASON})
    m = {
        "version": 1,
        "setup_cmd": "./setup.sh",
        "hooks": {
            "guard": "cargo feature verif-hooks (zkchannels-crypto)",
            "enable": "the harness depends on zkchannels-crypto with features [bincode, verif-hooks]; cargo build --offline --profile fastdebug in /verif/harness",
            "baseline_off_cmd": "cd /repo && cargo test --workspace --no-fail-fast --offline",
            "source_commits": ["dac0581"],
            "add_only": True,
        },
        "engines": [{"name": "coq-model+correspondence", "path": "/verif/check",
                     "serves_properties": sorted(CLAIMED),
                     "kind_free_text": "Coq 8.16 theorems about a hand-written Gallina model (coq/), tied to /repo by a differential correspondence check (harness/ Rust adaptor, lib/ Python driver, vm_compute evaluation of the model)"}],
        "checks": checks,
        "not_applicable": na,
        "notes": "See DESIGN.md. known_findings.json lists fixed defects (four fix: commits in /repo) and the open finding F5 (C06).",
    }
    json.dump(m, open(os.path.join(VERIF, "MANIFEST.json"), "w"), indent=1)
if __name__ == "__main__":
    main()
