"""zkAbacus level: merchant configurations with known discrete logs, wire parsers for the protocol
messages and customer states, honest flows through the public API, transcript helpers."""
from core import *
from pslib import *
from schnorrlib import *
from rangelib import *


class Merchant:
    pass


def make_merchant(h, pts, rng, small=False):
    M = Merchant()
    std = Basis(h, pts)
    M.h, M.pts = h, pts
    M.key = make_key(std, rng, 5, small=small)
    M.pk = M.key["pk"]
    M.hr, M.gr = rand_nz(rng), rand_nz(rng)
    M.rev_hex = pts.g1(M.hr) + le8(1) + pts.g1(M.gr)
    M.rp = make_rparams(h, pts, rng)
    M.handle = h.call("m_from_parts", M.key["kp_hex"], M.rev_hex, M.rp["hex"])[0]
    M.cconfig = M.key["pk_hex"] + M.rev_hex + M.rp["hex"]
    M.atoms = parse_kp(5, M.key["kp_hex"])
    return M


# ---------------------------------------------------------------------------------------------
# wire layouts (DESIGN.md appendix B)
def parse_state(b):
    return {"cid": b[0:32], "nonce": int.from_bytes(b[32:64], "little"), "lock": int.from_bytes(b[64:96], "little"),
            "secret": int.from_bytes(b[96:128], "little"), "index": b[128],
            "mb": int.from_bytes(b[129:137], "little"), "cb": int.from_bytes(b[137:145], "little")}


def cid_scalar(cid_bytes):
    return int.from_bytes(cid_bytes, "little") % Q


def state_msg(st):
    return [cid_scalar(st["cid"]), st["nonce"], st["lock"], st["cb"], st["mb"]]


def close_msg(st):
    return [cid_scalar(st["cid"]), CLOSE, st["lock"], st["cb"], st["mb"]]


def parse_requested(hexs):
    b = bytes.fromhex(hexs)
    assert len(b) == 209, len(b)
    return {"state": parse_state(b[:145]), "bf_close": int.from_bytes(b[145:177], "little"),
            "bf_token": int.from_bytes(b[177:209], "little")}


def parse_sig(b):
    return b[:48].hex(), b[48:96].hex()


def parse_inactive(hexs):   # also Locked
    b = bytes.fromhex(hexs)
    assert len(b) == 273, len(b)
    return {"state": parse_state(b[:145]), "bf_token": int.from_bytes(b[145:177], "little"), "close_sig": parse_sig(b[177:273])}


def parse_ready(hexs):
    b = bytes.fromhex(hexs)
    assert len(b) == 337, len(b)
    return {"state": parse_state(b[:145]), "token": parse_sig(b[145:241]), "close_sig": parse_sig(b[241:337])}


def parse_started(hexs):
    b = bytes.fromhex(hexs)
    assert len(b) == 482, len(b)
    return {"new": parse_state(b[:145]), "old": parse_state(b[145:290]),
            "bf_rev": int.from_bytes(b[290:322], "little"), "bf_token": int.from_bytes(b[322:354], "little"),
            "bf_close": int.from_bytes(b[354:386], "little"), "old_close_sig": parse_sig(b[386:482])}


def parse_closing(hexs):
    b = bytes.fromhex(hexs)
    assert len(b) == 176, len(b)
    return {"sig": parse_sig(b[:96]), "cid": b[96:128], "lock": int.from_bytes(b[128:160], "little"),
            "mb": int.from_bytes(b[160:168], "little"), "cb": int.from_bytes(b[168:176], "little")}


def parse_eproof(hexs):
    assert len(hexs) == 2 * 720, len(hexs)
    ks = [unsc(hexs[64 * i:64 * (i + 1)]) for i in range(4)]
    sp = parse_cp(1, 5, hexs[256:256 + 592])
    csp = parse_cp(1, 5, hexs[256 + 592:])
    return {"ks": ks, "sp": sp, "csp": csp}


def eproof_bytes(ks, sp, csp):
    """sp/csp: dicts with hex C, T and scalar rbf, rs"""
    return "".join(sc(k) for k in ks) + cp_bytes(sp["C"], sp["T"], sp["rbf"], sp["rs"]) + cp_bytes(csp["C"], csp["T"], csp["rbf"], csp["rs"])


def parse_pproof(hexs):
    assert len(hexs) == 2 * 7792, len(hexs)
    o = 0
    knonce, kclose = unsc(hexs[0:64]), unsc(hexs[64:128]); o = 128
    tok = parse_sp(5, hexs[o:o + 976]); o += 976
    rev = parse_cp(1, 1, hexs[o:o + 336]); o += 336
    sp = parse_cp(1, 5, hexs[o:o + 592]); o += 592
    csp = parse_cp(1, 5, hexs[o:o + 592]); o += 592
    cr = parse_rc(hexs[o:o + 6480]); o += 6480
    mr = parse_rc(hexs[o:o + 6480]); o += 6480
    assert o == len(hexs)
    return {"knonce": knonce, "kclose": kclose, "tok": tok, "rev": rev, "sp": sp, "csp": csp, "cr": cr, "mr": mr}


def sp_wire(d):
    return sp_bytes(d["s1"], d["s2"], d["C"], d["T"], d["rbf"], d["rs"])


def cp_wire(d):
    return cp_bytes(d["C"], d["T"], d["rbf"], d["rs"])


def pproof_bytes(p):
    return (sc(p["knonce"]) + sc(p["kclose"]) + sp_wire(p["tok"]) + cp_wire(p["rev"]) + cp_wire(p["sp"]) + cp_wire(p["csp"])
            + "".join(sp_wire(d) for d in p["cr"]) + "".join(sp_wire(d) for d in p["mr"]))


# ---------------------------------------------------------------------------------------------
# transcripts
def concretize_atoms(pts, enc):
    """model transcript (encoded atoms) -> list of chunk hex strings"""
    out, i = [], 0
    while i < len(enc):
        t = enc[i]
        if t == 1:
            out.append(pts.g1(enc[i + 1])); i += 2
        elif t == 2:
            out.append(pts.g2(enc[i + 1])); i += 2
        elif t == 3:
            out.append(sc(enc[i + 1])); i += 2
        elif t == 4:
            n = enc[i + 1]
            out.append(bytes(enc[i + 2:i + 2 + n]).hex()); i += 2 + n
        else:
            raise ValueError("atom tag %r" % t)
    return out


def last_challenge(h):
    """(challenge scalar, chunk list as hex, digest) of the last challenge computed in the harness"""
    log = h.chal_log()
    if not log:
        return None
    digest, chunks = log[-1]
    ok = sha3(b"".join(chunks)) == digest
    return {"c": chal_of_digest(digest), "chunks": [c.hex() for c in chunks], "digest_ok": ok, "n_challenges": len(log)}


def coq_eproof_args(dl):
    """dl: dict(ks, sp, csp) with discrete logs for C, T"""
    def cpl(p):
        return zlist([p["C"], p["T"], p["rbf"]] + p["rs"])
    return "%s %s %s" % (zlist(dl["ks"]), cpl(dl["sp"]), cpl(dl["csp"]))


def coq_pproof(dl):
    def cpl(p):
        return zlist([p["C"], p["T"], p["rbf"]] + p["rs"])

    def spl(p):
        return zlist([p["s1"], p["s2"], p["C"], p["T"], p["rbf"]] + p["rs"])
    return "(mk_pp %s %s %s %s %s %s [%s] [%s])" % (
        zlit(dl["knonce"]), zlit(dl["kclose"]), spl(dl["tok"]), cpl(dl["rev"]), cpl(dl["sp"]), cpl(dl["csp"]),
        "; ".join(spl(d) for d in dl["cr"]), "; ".join(spl(d) for d in dl["mr"]))


# ---------------------------------------------------------------------------------------------
# honest flows
def establish_request(h, M, cid, cb, mb, ctx, tape, seed=11):
    """customer::Requested::new under a scripted tape:
       [nonce, secret, bf_s, kbf_s, k0..k4, bf_c, kbf_c, kclose]"""
    h.call("chal_drain")
    h.rng(seed, tape)
    req_hex, proof_hex = h.call("req_new", M.cconfig, cid.hex(), mb, cb, hx(ctx))
    served, left = h.served()
    ch = last_challenge(h)
    return {"req_hex": req_hex, "proof_hex": proof_hex, "req": parse_requested(req_hex), "proof": parse_eproof(proof_hex),
            "served": served, "chal": ch}


def merchant_init(h, M, cid, cb, mb, proof_hex, ctx, u=None, seed=12):
    h.call("chal_drain")
    h.rng(seed, [u] if u is not None else [])
    t = h.call("m_init", M.handle, cid.hex(), cb, mb, proof_hex, hx(ctx))
    ch = last_challenge(h)
    served, _ = h.served()
    if t[0] == "1":
        return {"ok": True, "closing": t[1], "vbs": t[2], "chal": ch, "served": served}
    return Flow({"ok": False, "stage": "initialize refused", "why": t[0], "chal": ch, "served": served})


def establish_dls(M, st, bf_s, bf_c, ep, c):
    """discrete logs of the two commitments / scalar commitments of an honest establish proof, from the
    named randomness (used to phrase model queries)"""
    pk = M.pk
    ms, mc = state_msg(st), close_msg(st)
    sp, csp = ep["sp"], ep["csp"]
    ks = [(sp["rs"][i] - c * ms[i]) % Q for i in range(5)]
    kc = [(csp["rs"][i] - c * mc[i]) % Q for i in range(5)]
    kbf_s = (sp["rbf"] - c * bf_s) % Q
    kbf_c = (csp["rbf"] - c * bf_c) % Q
    dl = {"ks": ep["ks"],
          "sp": {"C": commit_dl(pk["g1"], pk["y1s"], ms, bf_s), "T": commit_dl(pk["g1"], pk["y1s"], ks, kbf_s),
                 "rbf": sp["rbf"], "rs": sp["rs"]},
          "csp": {"C": commit_dl(pk["g1"], pk["y1s"], mc, bf_c), "T": commit_dl(pk["g1"], pk["y1s"], kc, kbf_c),
                  "rbf": csp["rbf"], "rs": csp["rs"]}}
    return dl, {"ks": ks, "kc": kc, "kbf_s": kbf_s, "kbf_c": kbf_c}


def full_establish(h, M, rng, cid, cb, mb, ctx):
    """honest establishment through the API up to Ready; returns dict with every message and state"""
    tape = [rand_nz(rng) for _ in range(12)]
    e = establish_request(h, M, cid, cb, mb, ctx, tape, seed=rng.randrange(2 ** 31))
    u1, u2 = rand_nz(rng), rand_nz(rng)
    mi = merchant_init(h, M, cid, cb, mb, e["proof_hex"], ctx, u=u1)
    if not mi["ok"]:
        return Flow({"ok": False, "stage": "init", "e": e, "mi": mi})
    t = h.call("req_complete", e["req_hex"], mi["closing"], M.cconfig)
    if t[0] != "ok":
        return Flow({"ok": False, "stage": "complete", "e": e, "mi": mi})
    inactive = t[1]
    h.rng(13, [u2])
    token = h.call("m_activate", M.handle, mi["vbs"])[0]
    t = h.call("inactive_activate", inactive, token, M.cconfig)
    if t[0] != "ok":
        return Flow({"ok": False, "stage": "activate", "e": e, "mi": mi, "inactive": inactive, "token": token})
    return Flow({"ok": True, "e": e, "mi": mi, "inactive": inactive, "token": token, "ready": t[1], "u": (u1, u2)})


def pay_once(h, M, rng, ready_hex, amount, ctx, faults=None):
    """one honest payment through the API: returns dict; 'refused' when Ready::start refuses"""
    h.call("chal_drain")
    h.rng(rng.randrange(2 ** 31))
    t = h.call("ready_start", ready_hex, amount, hx(ctx), M.cconfig)
    if t[0] != "ok":
        return Flow({"ok": False, "stage": "start", "ready": t[1], "error": t[2:]})
    started, nonce_hex, proof_hex = t[1], t[2], t[3]
    ch = last_challenge(h)
    h.rng(rng.randrange(2 ** 31))
    a = h.call("m_allow", M.handle, amount, nonce_hex, proof_hex, hx(ctx))
    out = {"started": started, "nonce": nonce_hex, "proof_hex": proof_hex, "chal": ch}
    if a[0] != "1":
        return Flow(dict(out, ok=False, stage="allow"))
    unrev, closing = a[1], a[2]
    l = h.call("started_lock", started, closing, M.cconfig)
    if l[0] != "ok":
        return Flow(dict(out, ok=False, stage="lock", unrev=unrev, closing=closing))
    locked, pair, revbf = l[1], l[2], l[3]
    h.rng(rng.randrange(2 ** 31))
    cpay = h.call("u_complete", unrev, pair, revbf)
    if cpay[0] != "ok":
        return Flow(dict(out, ok=False, stage="complete_payment", locked=locked, unrev=unrev, closing=closing, pair=pair, revbf=revbf))
    token = cpay[1]
    ul = h.call("locked_unlock", locked, token, M.cconfig)
    if ul[0] != "ok":
        return Flow(dict(out, ok=False, stage="unlock", locked=locked, token=token))
    return Flow(dict(out, ok=True, unrev=unrev, closing=closing, locked=locked, pair=pair, revbf=revbf, token=token, ready=ul[1]))


# ---------------------------------------------------------------------------------------------
# pay proofs on discrete logs
def token_dl(M, st_msg, bf_token, u):
    """discrete logs of the unblinded pay token the merchant issued with randomiser u on commitment to st_msg"""
    pk, sk = M.pk, M.key["sk"]
    cdl = commit_dl(pk["g1"], pk["y1s"], st_msg, bf_token)
    s1 = pk["g1"] * u % Q
    return (s1, ((sk["x1"] + cdl) * u - s1 * bf_token) % Q)


def rand_pay_draws(rng):
    def rd():
        return (rand_nz(rng), rand_nz(rng), rand_nz(rng), rand_nz(rng))
    return {"dsc": [rd() for _ in range(9)], "dsm": [rd() for _ in range(9)],
            "bfr": rand_nz(rng), "kbfr": rand_nz(rng), "krev": rand_nz(rng),
            "bft": rand_nz(rng), "kbft": rand_nz(rng), "kcid": rand_nz(rng), "knonce": rand_nz(rng), "rt": rand_nz(rng),
            "bfs": rand_nz(rng), "kbfs": rand_nz(rng), "knn": rand_nz(rng), "klock": rand_nz(rng),
            "bfc": rand_nz(rng), "kbfc": rand_nz(rng), "kclose": rand_nz(rng)}


def weighted(xs):
    return sum(x * pow(128, j, Q) for j, x in enumerate(xs)) % Q


def build_range(M, claim, sigidx, draws, c):
    """nine digit proofs (dls): messages `claim`, built around published signatures `sigidx`"""
    pk = M.rp["pk"]
    out = []
    for j in range(9):
        bf, kbf, k, r = draws[j]
        s1, s2 = M.rp["sigs"][sigidx[j]]
        cp = craft_cp(pk["g2"], pk["y2s"], [claim[j]], bf, kbf, [k], c)
        out.append(dict(cp, s1=s1 * r % Q, s2=(s2 + s1 * bf) * r % Q))
    return out


def build_pay(M, tok, old, new, newc, rev_msg, dig_c, dig_m, d, c, o=None):
    """A pay proof on discrete logs. tok: (s1, s2) of the signature used; old/new/newc: 5-slot messages of the token
    proof, state proof and close-state proof; rev_msg: message of the revocation-lock commitment; dig_c/dig_m:
    (claim digits, signature indices) of the two range constraints; d: draws; o: overrides of commitment scalars
    {('t'|'s'|'c', slot): value} (by default shared exactly as the honest prover shares them)."""
    pk = M.pk
    o = o or {}
    kcb = weighted([x[2] for x in d["dsc"]])
    kmb = weighted([x[2] for x in d["dsm"]])
    kt = [d["kcid"], d["knonce"], d["krev"], kcb, kmb]
    ks = [d["kcid"], d["knn"], d["klock"], kcb, kmb]
    kc = [d["kcid"], d["kclose"], d["klock"], kcb, kmb]
    for (which, slot), val in o.items():
        if which != "r":
            {"t": kt, "s": ks, "c": kc}[which][slot] = val
    cpt = craft_cp(pk["g2"], pk["y2s"], old, d["bft"], d["kbft"], kt, c)
    tokp = dict(cpt, s1=tok[0] * d["rt"] % Q, s2=(tok[1] + tok[0] * d["bft"]) * d["rt"] % Q)
    return {"knonce": kt[1], "kclose": kc[1], "tok": tokp,
            "rev": craft_cp(M.hr, [M.gr], [rev_msg], d["bfr"], d["kbfr"], [o.get(("r", 0), d["krev"])], c),
            "sp": craft_cp(pk["g1"], pk["y1s"], new, d["bfs"], d["kbfs"], ks, c),
            "csp": craft_cp(pk["g1"], pk["y1s"], newc, d["bfc"], d["kbfc"], kc, c),
            "cr": build_range(M, dig_c[0], dig_c[1], d["dsc"], c),
            "mr": build_range(M, dig_m[0], dig_m[1], d["dsm"], c)}


def pay_wire(pts, p):
    def cpw(x, g):
        return {"C": pts.g(g, x["C"]), "T": pts.g(g, x["T"]), "rbf": x["rbf"], "rs": x["rs"]}

    def spw(x):
        return dict(cpw(x, 2), s1=pts.g1(x["s1"]), s2=pts.g1(x["s2"]))
    return pproof_bytes({"knonce": p["knonce"], "kclose": p["kclose"], "tok": spw(p["tok"]), "rev": cpw(p["rev"], 1),
                         "sp": cpw(p["sp"], 1), "csp": cpw(p["csp"], 1), "cr": [spw(x) for x in p["cr"]],
                         "mr": [spw(x) for x in p["mr"]]})


def merchant_allow(h, M, amount, nonce, proof_hex, ctx, u=None, seed=21):
    h.call("chal_drain")
    h.rng(seed, [u] if u is not None else [])
    t = h.call("m_allow", M.handle, amount, sc(nonce), proof_hex, hx(ctx))
    ch = last_challenge(h)
    if t[0] == "1":
        return {"ok": True, "unrev": t[1], "closing": t[2], "chal": ch}
    return Flow({"ok": False, "stage": "allow_payment refused", "why": t[0], "chal": ch})


def recover_pay(M, pts, served, started, pp, tok, c):
    """name every draw of an honest PayProof::new from its outputs and the served set (order-free).
    Returns draws dict (as rand_pay_draws) or None."""
    pk = M.pk
    old, new = state_msg(started["old"]), state_msg(started["new"])
    newc = close_msg(started["new"])
    d = {}
    dc, dm = digits(started["new"]["cb"]), digits(started["new"]["mb"])
    d["dsc"] = [recover_digit_draws(pts, M.rp, served, pp["cr"][j], dc[j], c) for j in range(9)]
    d["dsm"] = [recover_digit_draws(pts, M.rp, served, pp["mr"][j], dm[j], c) for j in range(9)]
    if any(x is None for x in d["dsc"] + d["dsm"]):
        return None
    d["bfr"] = started["bf_rev"]
    d["kbfr"] = (pp["rev"]["rbf"] - c * d["bfr"]) % Q
    d["krev"] = (pp["rev"]["rs"][0] - c * old[2]) % Q
    d["bfs"], d["bfc"] = started["bf_token"], started["bf_close"]
    d["kbfs"] = (pp["sp"]["rbf"] - c * d["bfs"]) % Q
    d["kbfc"] = (pp["csp"]["rbf"] - c * d["bfc"]) % Q
    d["knn"] = (pp["sp"]["rs"][1] - c * new[1]) % Q
    d["klock"] = (pp["sp"]["rs"][2] - c * new[2]) % Q
    d["kclose"] = (pp["csp"]["rs"][1] - c * CLOSE) % Q
    d["kcid"] = (pp["tok"]["rs"][0] - c * old[0]) % Q
    d["knonce"] = (pp["tok"]["rs"][1] - c * old[1]) % Q
    d["bft"] = None
    for bf in served:
        if pts.g2(commit_dl(pk["g2"], pk["y2s"], old, bf)) == pp["tok"]["C"]:
            d["bft"] = bf
            break
    if d["bft"] is None:
        return None
    d["kbft"] = (pp["tok"]["rbf"] - c * d["bft"]) % Q
    d["rt"] = None
    for r in served:
        if pts.g1(tok[0] * r % Q) == pp["tok"]["s1"]:
            d["rt"] = r
            break
    if d["rt"] is None:
        return None
    return d


def pay_draws_fresh(d, served):
    flat = [x for t in d["dsc"] + d["dsm"] for x in t] + [d[k] for k in ("bfr", "kbfr", "krev", "bft", "kbft", "kcid", "knonce",
                                                                           "rt", "bfs", "kbfs", "knn", "klock", "bfc", "kbfc", "kclose")]
    return all(x in served for x in flat) and len(set(flat)) == len(flat)


def coq_draws(d):
    def rd(t):
        return "(%s, %s, %s, %s)" % tuple(zlit(x) for x in t)
    return "(mk_pd [%s] [%s] %s)" % ("; ".join(rd(t) for t in d["dsc"]), "; ".join(rd(t) for t in d["dsm"]),
                                    zlist([d[k] for k in ("bfr", "kbfr", "krev", "bft", "kbft", "kcid", "knonce", "rt", "bfs",
                                                          "kbfs", "knn", "klock", "bfc", "kbfc", "kclose")]))


def flat_pp(p):
    """flatten a pay proof (dls or wire) in the order of Run.vpp, as a list of comparable items"""
    def cpl(x):
        return [x["C"], x["T"], x["rbf"]] + x["rs"]

    def spl(x):
        return [x["s1"], x["s2"]] + cpl(x)
    out = [p["knonce"], p["kclose"]] + spl(p["tok"]) + cpl(p["rev"]) + cpl(p["sp"]) + cpl(p["csp"])
    for x in p["cr"] + p["mr"]:
        out += spl(x)
    return out


def pp_kinds():
    """group kinds (1 = G1, 2 = G2, 0 = scalar) of the items of flat_pp"""
    cp1 = [1, 1, 0]
    cp2 = [2, 2, 0]
    out = [0, 0] + [1, 1] + cp2 + [0] * 5 + cp1 + [0] + cp1 + [0] * 5 + cp1 + [0] * 5
    for _ in range(18):
        out += [1, 1] + cp2 + [0]
    return out
