"""Helpers shared by the checks: keys, signatures and proofs with known discrete logarithms,
assembled on the wire (bincode layouts measured in DESIGN.md appendix B)."""
from core import *


def le8(n):
    return n.to_bytes(8, "little").hex()


class Basis:
    """A pair of base points (G1, G2). Elements are (dl) relative to them. The standard basis is the
    generators; a generated key brings its own g1, g2 whose logs are unknown."""

    def __init__(self, h, pts, b1=None, b2=None):
        self.h, self.pts, self.b1, self.b2 = h, pts, b1, b2

    def g1(self, dl):
        if self.b1 is None:
            return self.pts.g1(dl)
        return self.h.call("g1lin", self.b1, sc(dl))[0]

    def g2(self, dl):
        if self.b2 is None:
            return self.pts.g2(dl)
        return self.h.call("g2lin", self.b2, sc(dl))[0]

    def g1_from(self, base_hex, dl):
        if base_hex is None:
            return self.g1(dl)
        return self.h.call("g1lin", base_hex, sc(dl))[0]


def pk_dls(g1, g2, x, ys):
    return {"g1": g1 % Q, "y1s": [g1 * y % Q for y in ys], "g2": g2 % Q, "x2": g2 * x % Q,
            "y2s": [g2 * y % Q for y in ys]}


def sk_dls(g1, x, ys):
    return {"x": x % Q, "ys": [y % Q for y in ys], "x1": g1 * x % Q}


def pk_bytes(basis, pk):
    n = len(pk["y1s"])
    return (basis.g1(pk["g1"]) + le8(n) + "".join(basis.g1(y) for y in pk["y1s"]) + basis.g2(pk["g2"]) +
            basis.g2(pk["x2"]) + le8(n) + "".join(basis.g2(y) for y in pk["y2s"]))


def sk_bytes(basis, sk):
    n = len(sk["ys"])
    return sc(sk["x"]) + le8(n) + "".join(sc(y) for y in sk["ys"]) + basis.g1(sk["x1"])


def make_key(basis, rng, n, small=False):
    """A key pair with chosen discrete logs: returns dict(sk, pk, kp_hex, pk_hex)."""
    if small:
        g1, g2, x, ys = 11, 13, 17, [19 + 4 * i for i in range(n)]
    else:
        g1, g2, x = rand_nz(rng), rand_nz(rng), rand_nz(rng)
        ys = [rand_nz(rng) for _ in range(n)]
    pk, sk = pk_dls(g1, g2, x, ys), sk_dls(g1, x, ys)
    pkh = pk_bytes(basis, pk)
    return {"n": n, "pk": pk, "sk": sk, "pk_hex": pkh, "kp_hex": sk_bytes(basis, sk) + pkh, "basis": basis,
            "x": x % Q, "ys": [y % Q for y in ys], "g1": g1 % Q, "g2": g2 % Q}


def parse_kp(n, kp_hex):
    """split a serialized KeyPair<N> into its atoms (hex)"""
    b = bytes.fromhex(kp_hex)
    o = 0
    x = b[o:o + 32]; o += 32
    o += 8
    ys = [b[o + 32 * i:o + 32 * (i + 1)] for i in range(n)]; o += 32 * n
    x1 = b[o:o + 48]; o += 48
    pk = b[o:]
    g1 = b[o:o + 48]; o += 48
    o += 8
    y1s = [b[o + 48 * i:o + 48 * (i + 1)] for i in range(n)]; o += 48 * n
    g2 = b[o:o + 96]; o += 96
    x2 = b[o:o + 96]; o += 96
    o += 8
    y2s = [b[o + 96 * i:o + 96 * (i + 1)] for i in range(n)]; o += 96 * n
    assert o == len(b), (o, len(b))
    return {"x": int.from_bytes(x, "little"), "ys": [int.from_bytes(y, "little") for y in ys], "x1": x1.hex(),
            "pk_hex": pk.hex(), "g1": g1.hex(), "y1s": [y.hex() for y in y1s], "g2": g2.hex(), "x2": x2.hex(),
            "y2s": [y.hex() for y in y2s]}


def generated_key(h, pts, n, seed, tape=(), blocks=None):
    """KeyPair::new under the scripted RNG; the key is expressed in its own basis (g1, g2 := 1).
    `blocks`: full 64-byte draws (integers) instead of scalars, e.g. non-zero multiples of q."""
    if blocks is not None:
        h.rng_blocks(seed, blocks)
    else:
        h.rng(seed, tape)
    kp_hex = h.call("kp_new", n)[0]
    a = parse_kp(n, kp_hex)
    basis = Basis(h, pts, a["g1"], a["g2"])
    pk, sk = pk_dls(1, 1, a["x"], a["ys"]), sk_dls(1, a["x"], a["ys"])
    return {"n": n, "pk": pk, "sk": sk, "pk_hex": a["pk_hex"], "kp_hex": kp_hex, "basis": basis, "x": a["x"],
            "ys": a["ys"], "g1": 1, "g2": 1, "atoms": a}


def sig_bytes(s1_hex, s2_hex):
    return s1_hex + s2_hex


def inv(x):
    return pow(x % Q, -1, Q)
