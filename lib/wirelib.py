"""Wire layouts of every serialisable type (atom by atom), honest sample values, and the model codec
expression for the types covered by coq/Model/Codecs.v."""
from core import *
from pslib import *
from schnorrlib import *
from rangelib import *
from abacuslib import *

G1_ID = "c0" + "00" * 47
G2_ID = "c0" + "00" * 95
WIDTH = {"g1": 48, "g2": 96, "s": 32, "u64": 8, "i64": 8, "u8": 1, "len": 8, "raw32": 32, "u32": 4}


def A(kind, **flags):
    return [(kind, flags)]


def arr(n, elem):
    return A("len", n=n) + elem * n


def L_pk(n):
    return A("g1", nonid=1) + arr(n, A("g1", nonid=1)) + A("g2", nonid=1) + A("g2", nonid=1) + arr(n, A("g2", nonid=1))


def L_sk(n):
    return A("s", nonzero=1) + arr(n, A("s", nonzero=1)) + A("g1", nonid=1)


def L_sig():
    return A("g1", nonid=1) + A("g1")


def L_cp(g, n):
    k = "g1" if g == 1 else "g2"
    return A(k) + A(k) + A("s") + arr(n, A("s"))


def L_sp(n):
    return L_sig() + L_cp(2, n)


def L_ped(g, n):
    k = "g1" if g == 1 else "g2"
    return A(k, nonid=1) + arr(n, A(k, nonid=1))


def L_rp():
    return L_sig() * 128 + L_pk(1)


def L_revpair():
    return A("s", lock=1) + A("s", secret=1) + A("u8", index=1)


def L_state():
    return A("raw32") + A("s", nonce=1) + L_revpair() + A("u64", balance=1) + A("u64", balance=1)


def L_close_state():
    return A("raw32") + A("s") + A("u64", balance=1) + A("u64", balance=1)


def L_eproof():
    return A("s") * 4 + L_cp(1, 5) * 2


def L_pproof():
    return A("s") * 2 + L_sp(5) + L_cp(1, 1) + L_cp(1, 5) * 2 + L_sp(1) * 18


def offsets(layout):
    out, o = [], 0
    for kind, fl in layout:
        out.append((o, WIDTH[kind], kind, fl))
        o += WIDTH[kind]
    return out, o


def type_table(ns=(1, 2, 3, 5)):
    """name -> (layout, coq codec expression or None)"""
    T = {}
    T["BlindingFactor"] = (A("s"), "cs")
    T["RevocationLockBlindingFactor"] = (A("s"), "cs")
    T["RevocationLock"] = (A("s"), "cs")
    T["CommitmentG1"] = (A("g1"), "cg1")
    T["CommitmentG2"] = (A("g2"), "cg2")
    T["BlindedMessage"] = (A("g1"), "cg1")
    T["RevocationLockCommitment"] = (A("g1"), "cg1")
    for nm in ("Signature", "BlindedSignature", "PayToken", "ClosingSignature", "CloseStateSignature"):
        T[nm] = (L_sig(), "(c_sig K cg1)")
    for n in ns:
        T["PublicKey@%d" % n] = (L_pk(n), "(c_pk K cg1 cg2 %d)" % n)
        T["KeyPair@%d" % n] = (L_sk(n) + L_pk(n), "(c_keypair K cs cg1 cg2 %d)" % n)
        for g in (1, 2):
            T["PedersenG%d@%d" % (g, n)] = (L_ped(g, n), "(c_pedersen K cg%d %d)" % (g, n))
            T["CommitmentProofG%d@%d" % (g, n)] = (L_cp(g, n), "(c_cp K cs cg%d %d)" % (g, n))
        T["SignatureProof@%d" % n] = (L_sp(n), "(c_sp K cs cg1 cg2 %d)" % n)
        T["SignatureRequestProof@%d" % n] = (L_cp(1, n), "(c_srp K cs cg1 %d)" % n)
        T["ArrScalar@%d" % n] = (arr(n, A("s")), "(c_array %d cs)" % n)
        T["ArrG1@%d" % n] = (arr(n, A("g1")), "(c_array %d cg1)" % n)
        T["BoxG2@%d" % n] = (arr(n, A("g2")), "(c_array %d cg2)" % n)
    T["RangeConstraintParameters"] = (L_rp(), "(c_range_params K cg1 cg2)")
    T["RangeConstraint"] = (L_sp(1) * 9, "(c_range_constraint K cs cg1 cg2)")
    T["CustomerConfig"] = (L_pk(5) + L_ped(1, 1) + L_rp(), "(c_customer_config K cg1 cg2)")
    T["Nonce"] = (A("s", nonce=1), "(c_nonce K closeK cs)")
    T["RevocationPair"] = (L_revpair(), "(c_revpair K cs lock_okq)")
    T["RevocationSecret"] = (A("s") + A("u8"), "(c_pair cs c_u8)")    # no validation on its own (only inside a pair)
    T["ChannelId"] = (A("raw32"), "(c_bytes 32)")
    T["CustomerRandomness"] = (A("raw32"), "(c_bytes 32)")
    T["MerchantRandomness"] = (A("raw32"), "(c_bytes 32)")
    T["CustomerBalance"] = (A("u64", balance=1), "c_balance")
    T["MerchantBalance"] = (A("u64", balance=1), "c_balance")
    T["PaymentAmount"] = (A("i64"), "c_i64")
    T["CloseState"] = (L_close_state(), "(c_close_state K cs)")
    T["ClosingMessage"] = (L_sig() + L_close_state(), "(c_closing_message K cs cg1)")
    T["EstablishProof"] = (L_eproof(), "(c_establish_proof K cs cg1)")
    T["PayProof"] = (L_pproof(), "(c_pay_proof K cs cg1 cg2)")
    T["Requested"] = (L_state() + A("s") * 2, "(c_requested K closeK cs lock_okq)")
    T["Inactive"] = (L_state() + A("s") + L_sig(), "(c_inactive K closeK cs cg1 lock_okq)")
    T["Locked"] = (L_state() + A("s") + L_sig(), "(c_inactive K closeK cs cg1 lock_okq)")
    T["Ready"] = (L_state() + L_sig() * 2, "(c_ready K closeK cs cg1 lock_okq)")
    T["Started"] = (L_state() * 2 + A("s") * 3 + L_sig(), "(c_started K closeK cs cg1 lock_okq)")
    return T


def samples(h, pts, rng, ns=(1, 2, 3, 5)):
    """honest encodings of every type: name -> hex"""
    S = {}
    std = Basis(h, pts)
    M = make_merchant(h, pts, rng)
    # the honest flows that produce the protocol-level samples; if the implementation stops one of them early (which the model
    # says cannot happen) the samples obtained so far are still used - so that the round-trip monitors can point at the value
    # that fails - and the stop is reported by the caller as a correspondence failure (S["_stopped"])
    est = full_establish(h, M, rng, rng.randbytes(32), rng.randrange(10, 2 ** 40), rng.randrange(10, 2 ** 40), b"wire")
    pay = pay_once(h, M, rng, est["ready"], 3, b"wire") if est.get("ok") else Flow({"ok": False, "stage": "establish:" + str(est.get("stage"))})
    if not (est.get("ok") and pay.get("ok")):
        S["_stopped"] = "establish: %s" % est.get("stage") if not est.get("ok") else "payment: %s" % pay.get("stage")

    def put(name, value):
        if value is not None:
            S[name] = value
    e0 = est.get("e") or {}
    put("Requested", e0.get("req_hex")); put("EstablishProof", e0.get("proof_hex"))
    put("Inactive", est.get("inactive")); put("Ready", est.get("ready"))
    put("Started", pay.get("started")); put("Locked", pay.get("locked"))
    put("PayProof", pay.get("proof_hex")); put("Nonce", pay.get("nonce")); put("RevocationPair", pay.get("pair"))
    put("RevocationLockBlindingFactor", pay.get("revbf"))
    put("PayToken", pay.get("token") or est.get("token")); put("ClosingSignature", pay.get("closing") or (est.get("mi") or {}).get("closing"))
    last_ready = pay.get("ready") or est.get("ready")
    if last_ready:
        h.rng(6)
        cm = h.try_call("close", "ready", last_ready)
        if cm:
            S["ClosingMessage"] = cm[0]
            S["CloseStateSignature"], S["CloseState"] = cm[0][:192], cm[0][192:]
    if pay.get("pair"):
        S["RevocationLock"], S["RevocationSecret"] = pay["pair"][:64], pay["pair"][64:]
    if pay.get("proof_hex"):
        pp = parse_pproof(pay["proof_hex"])
        S["RevocationLockCommitment"] = pp["rev"]["C"]
        S["RangeConstraint"] = pay["proof_hex"][-2 * 6480:-6480]
    S["CustomerConfig"] = M.cconfig
    S["RangeConstraintParameters"] = M.rp["hex"]
    S["ChannelId"] = rng.randbytes(32).hex()
    S["CustomerRandomness"] = h.call("rand_new", "c")[0]
    S["MerchantRandomness"] = h.call("rand_new", "m")[0]
    S["CustomerBalance"] = (rng.randrange(2 ** 63)).to_bytes(8, "little").hex()
    S["MerchantBalance"] = (2 ** 63 - 1).to_bytes(8, "little").hex()
    S["PaymentAmount"] = (rng.randrange(-2 ** 63, 2 ** 63) % 2 ** 64).to_bytes(8, "little").hex()
    S["BlindingFactor"] = sc(rand_nz(rng))
    a, b = rand_nz(rng), rand_nz(rng)
    S["Signature"] = pts.g1(a) + pts.g1(b)
    S["BlindedSignature"] = pts.g1(b) + pts.g1(a)
    S["CommitmentG1"], S["CommitmentG2"], S["BlindedMessage"] = pts.g1(a), pts.g2(a), pts.g1(b)
    for n in ns:
        key = make_key(std, rng, n)
        S["PublicKey@%d" % n], S["KeyPair@%d" % n] = key["pk_hex"], key["kp_hex"]
        for g in (1, 2):
            hd, gd = rand_nz(rng), [rand_nz(rng) for _ in range(n)]
            S["PedersenG%d@%d" % (g, n)] = pts.g(g, hd) + le8(n) + "".join(pts.many(g, gd))
            p = craft_cp(hd, gd, [rand_nz(rng) for _ in range(n)], rand_nz(rng), rand_nz(rng), [rand_nz(rng) for _ in range(n)], rand_nz(rng))
            S["CommitmentProofG%d@%d" % (g, n)] = cp_bytes(pts.g(g, p["C"]), pts.g(g, p["T"]), p["rbf"], p["rs"])
        S["SignatureRequestProof@%d" % n] = S["CommitmentProofG1@%d" % n]
        S["SignatureProof@%d" % n] = S["Signature"] + S["CommitmentProofG2@%d" % n]
        sc_list = [rand_scalar(rng, 0.3) for _ in range(n)]
        S["ArrScalar@%d" % n] = le8(n) + "".join(sc(x) for x in sc_list)
        S["ArrG1@%d" % n] = le8(n) + "".join(pts.many(1, sc_list))
        S["BoxG2@%d" % n] = le8(n) + "".join(pts.many(2, sc_list))
    return S, M


def point_tables(h, hexs_list, layout_list):
    """(table1, table2): every 48/96-byte atom occurring at a point position of the given encodings, labelled:
    identity -> 0, valid -> distinct non-zero labels, invalid -> absent"""
    t1, t2 = {}, {}
    for hexs, layout in zip(hexs_list, layout_list):
        offs, total = offsets(layout)
        if len(hexs) // 2 < total:
            continue
        for o, w, kind, _ in offs:
            if kind in ("g1", "g2"):
                a = hexs[2 * o:2 * (o + w)]
                t = t1 if kind == "g1" else t2
                if a not in t:
                    c = h.call("classify", a)[0]
                    if c == "ok":
                        t[a] = len(t) + 1
                    elif c == "id":
                        t[a] = 0
    return t1, t2


def coq_table(t):
    return "([" + "; ".join("(%s, %d)" % (zlist(list(bytes.fromhex(k))), v) for k, v in t.items()) + "] : list (list Z * Z))"
