"""Core of the verification driver: harness client, Coq runner, obligation bookkeeping, evidence."""
import fcntl
import hashlib
import json
import os
import random
import re
import shutil
import subprocess
import sys
import time

VERIF = os.path.dirname(os.path.dirname(os.path.abspath(__file__)))
REPO = os.environ.get("VERIF_REPO", "/repo")   # tooling only (seeded changes in a scratch worktree); the registered checks use /repo
CACHE = os.path.join(VERIF, ".cache")
COQ = os.path.join(VERIF, "coq")
Q = 0x73EDA753299D7D483339D80809A1D80553BDA402FFFE5BFEFFFFFFFF00000001
CLOSE = int.from_bytes(b"\0\0\0CLOSE", "little") << 192


# ---------------------------------------------------------------------------------------------
# scalars
def sc(x):
    """canonical 32-byte little-endian hex of x mod q"""
    return (x % Q).to_bytes(32, "little").hex()


def sc_raw(x):
    """32-byte little-endian hex of x, not reduced (may be non-canonical)"""
    return x.to_bytes(32, "little").hex()


def unsc(h):
    return int.from_bytes(bytes.fromhex(h), "little")


def scs(xs):
    return "".join(sc(x) for x in xs) or "-"


def unscs(h):
    if h == "-":
        return []
    b = bytes.fromhex(h)
    return [int.from_bytes(b[i:i + 32], "little") for i in range(0, len(b), 32)]


def hx(b):
    return b.hex() if b else "-"


def unhx(s):
    return b"" if s == "-" else bytes.fromhex(s)


def sha3(b):
    return hashlib.sha3_256(b).digest()


def chal_of_digest(d):
    return int.from_bytes(d, "little") % Q


EDGE = [0, 1, 2, Q - 1, Q - 2, 2 ** 63 - 1, 2 ** 63, 2 ** 64 - 1, CLOSE, (Q - 1) // 2]


# scalars with structure in their binary expansion, where windowed / signed-digit / word-wise scalar arithmetic has its special
# cases: long runs of ones (also shifted), single bits at word boundaries, alternating patterns, words that are all zero or all one
def _bit_patterns():
    out = []
    for k in (32, 63, 64, 65, 96, 127, 128, 129, 160, 192, 224, 250, 254):
        out += [2 ** k, 2 ** k - 1, 2 ** k + 1]
    out += [(2 ** 128 - 1) << 40, (2 ** 130 - 1) << 100, (2 ** 64 - 1) << 64, (2 ** 64 - 1) << 128, 5 * 2 ** 200 + ((2 ** 128 - 1) << 40) + 9,
            int("aa" * 31, 16), int("55" * 31, 16), int("0f" * 31, 16), int("ff00" * 15, 16), int("00000000ffffffff" * 3 + "00000000", 16),
            Q - 2 ** 64, Q - 2 ** 128, Q - 2 ** 32 + 1, (Q - 1) // 3, Q // 2 ** 32]
    return [x % Q for x in out]


PATTERNS = _bit_patterns()


def rand_scalar(rng, edge_p=0.3):
    if rng.random() < edge_p:
        return rng.choice(EDGE) if rng.random() < 0.6 else rng.choice(PATTERNS)
    return rng.randrange(Q)


SHAPES = ("two_equal", "all_u64", "all_digits", "zero_prefix", "zero_suffix", "u32_band", "one_wide_rest_small")


def shaped_tuple(rng, n, kind):
    """whole-tuple shapes (conditions on SEVERAL entries at once, which entry-wise sampling never produces): two entries equal;
    every entry below 2^64 (mixing digits, the bands around 2^32 and [2^63, 2^64)); every entry a base-128 digit; a run of zeros
    at the front / at the back; every entry next to 2^32; exactly one full-width entry among small ones"""
    def band64():
        return rng.choice([rng.randrange(128), 2 ** 32 + rng.randrange(-2, 3), rng.randrange(2 ** 63, 2 ** 64), 2 ** 63 - 1 - rng.randrange(3),
                           rng.randrange(2 ** 64), 2 ** 64 - 1 - rng.randrange(3)])
    if kind == "two_equal":
        ms = [rand_scalar(rng, 0.2) for _ in range(n)]
        if n >= 2:
            i, j = rng.sample(range(n), 2)
            ms[j] = ms[i] = ms[i] or 7
        return ms
    if kind == "all_u64":
        return [band64() for _ in range(n)]
    if kind == "all_digits":
        return [rng.choice([0, 1, 127, rng.randrange(128)]) for _ in range(n)]
    if kind in ("zero_prefix", "zero_suffix"):
        k = rng.randrange(1, n) if n > 1 else 1
        body = [rand_nz(rng) for _ in range(n - k)]
        return [0] * k + body if kind == "zero_prefix" else body + [0] * k
    if kind == "u32_band":
        return [2 ** 32 + rng.randrange(-3, 4) for _ in range(n)]
    if kind == "one_wide_rest_small":
        ms = [rng.randrange(2 ** 32) for _ in range(n)]
        ms[rng.randrange(n)] = rng.randrange(2 ** 200, Q)
        return ms
    raise ValueError(kind)


def distinct_scalars(rng, n, edge_p=0.1, avoid=()):
    """n pairwise distinct scalars (some from the edge set), none in `avoid`"""
    out = []
    while len(out) < n:
        x = rand_scalar(rng, edge_p) % Q
        if x not in out and x not in avoid:
            out.append(x)
    return out


def pick_coords(rng, n, k=3, full=False):
    """coordinates of an N-tuple to perturb: all of them for short tuples (or when `full`), otherwise the first, the last,
    the ones next to a multiple of 16 (chunk boundaries) and k random ones"""
    if n <= 5 or full:
        return list(range(n))
    s = {0, n - 1} | {j for j in (15, 16, 31, 32) if j < n} | set(rng.sample(range(n), min(k, n)))
    return sorted(s)


# revocation secrets whose first canonical SHA3 digest only comes at a LARGE index (found by a one-off search over about 2.4e8
# random scalars; the largest needs 38 retries, i.e. more than 32): inputs for the index loop of RevocationPair::new that random
# sampling never reaches (a secret fails k indices in a row with probability 0.547^k)
LONG_INDEX_SECRETS = [
    (10, 17451872378179384624167798009017123686439141302994111920957204847908824797067),
    (19, 30197673804317436042824714248029274332439956494956150193383657058965770871244),
    (27, 11020607500347309400623029216296371251634846568201665600741604526748480133990),
    (38, 9755156560877488780544443786570583274117426644702751551520919353667957760941),
]


def rand_nz(rng):
    return rng.randrange(1, Q)


# ---------------------------------------------------------------------------------------------
# locking + builds
class Lock:
    def __init__(self, name):
        os.makedirs(CACHE, exist_ok=True)
        self.path = os.path.join(CACHE, name + ".lock")

    def __enter__(self):
        self.f = open(self.path, "w")
        fcntl.flock(self.f, fcntl.LOCK_EX)
        return self

    def __exit__(self, *a):
        fcntl.flock(self.f, fcntl.LOCK_UN)
        self.f.close()


class BuildError(Exception):
    pass


def build_harness(profile="fastdebug"):
    """(Re)build the adaptor against /repo's current working tree. Returns the binary path.
    With VERIF_REPO set to another checkout (tools/try_seed.sh --worktree), a copy of the adaptor with its path dependencies
    pointing there is built in a separate target directory and the binary is kept per checkout, so that several changed
    trees can be checked side by side without touching /repo."""
    env = dict(os.environ, CARGO_NET_OFFLINE="true")
    cmd = ["cargo", "build", "--offline", "--profile", profile]
    if REPO == "/repo":
        hdir = os.path.join(VERIF, "harness")
        env["CARGO_TARGET_DIR"] = os.path.join(CACHE, "target")
        with Lock("cargo"):
            lock = os.path.join(hdir, "Cargo.lock")
            if not os.path.exists(lock):
                shutil.copy(os.path.join(REPO, "Cargo.lock"), lock)
            p = subprocess.run(cmd, cwd=hdir, env=env, stdout=subprocess.PIPE, stderr=subprocess.STDOUT, text=True,
                               timeout=1800)
            if p.returncode != 0:
                raise BuildError(p.stdout[-4000:])
        return os.path.join(CACHE, "target", profile, "verif-harness")
    tag = hashlib.sha1(REPO.encode()).hexdigest()[:10]
    hdir = os.path.join(CACHE, "alt", "harness_" + tag)
    out = os.path.join(CACHE, "alt", "verif-harness-%s-%s" % (tag, profile))
    env["CARGO_TARGET_DIR"] = os.path.join(CACHE, "target_alt")
    with Lock("cargo_alt"):
        os.makedirs(os.path.join(hdir, "src"), exist_ok=True)
        for f in os.listdir(os.path.join(VERIF, "harness", "src")):
            shutil.copy(os.path.join(VERIF, "harness", "src", f), os.path.join(hdir, "src", f))
        toml = open(os.path.join(VERIF, "harness", "Cargo.toml")).read().replace('"/repo/', '"%s/' % REPO)
        open(os.path.join(hdir, "Cargo.toml"), "w").write(toml)
        resolved = os.path.join(VERIF, "harness", "Cargo.lock")
        shutil.copy(resolved if os.path.exists(resolved) else os.path.join(REPO, "Cargo.lock"), os.path.join(hdir, "Cargo.lock"))
        p = subprocess.run(cmd, cwd=hdir, env=env, stdout=subprocess.PIPE, stderr=subprocess.STDOUT, text=True, timeout=1800)
        if p.returncode != 0:
            raise BuildError(p.stdout[-4000:])
        tmp = "%s.%d" % (out, os.getpid())          # replace atomically: another check may be executing the old copy
        shutil.copy(os.path.join(CACHE, "target_alt", profile, "verif-harness"), tmp)
        os.replace(tmp, out)
    return out


def build_coq(targets=None):
    """Full .vo build of the Coq development (no -vos)."""
    with Lock("coq"):
        if not os.path.exists(os.path.join(COQ, "Makefile")):
            subprocess.run(["coq_makefile", "-f", "_CoqProject", "-o", "Makefile"], cwd=COQ, check=True,
                           stdout=subprocess.DEVNULL)
        cmd = ["make", "-j16"] + (targets or [])
        p = subprocess.run(["timeout", "1700"] + cmd, cwd=COQ, stdout=subprocess.PIPE, stderr=subprocess.STDOUT,
                           text=True)
        if p.returncode != 0:
            raise BuildError(p.stdout[-4000:])


HYGIENE_RE = re.compile(
    r"\b(Admitted|admit|Axiom|Axioms|Parameter|Parameters|Conjecture|Conjectures|Hypothesis|Hypotheses|Variable|Variables)\b"
    r"|Unset\s+Guard|bypass_check|type-in-type|impredicative-set|Admit\s+Obligations|Unset\s+Universe|Unset\s+Positivity")


def strip_coq_comments(src):
    out, depth, i = [], 0, 0
    while i < len(src):
        if src.startswith("(*", i):
            depth += 1
            i += 2
        elif src.startswith("*)", i) and depth > 0:
            depth -= 1
            i += 2
        else:
            if depth == 0:
                out.append(src[i])
            i += 1
    return "".join(out)


def coq_hygiene():
    """No axiom-declaring vernacular outside sections, no admits, no disabled checks. Variables and
    Hypotheses are allowed only inside a Section (checked by tracking Section/End nesting)."""
    problems = []
    for root, _, files in os.walk(COQ):
        for fn in files:
            if not fn.endswith(".v"):
                continue
            path = os.path.join(root, fn)
            src = strip_coq_comments(open(path).read())
            depth = 0
            for ln, line in enumerate(src.split("\n"), 1):
                if re.match(r"\s*Section\s+\w+", line):
                    depth += 1
                if re.match(r"\s*End\s+\w+\s*\.", line) and depth > 0:
                    depth -= 1
                    continue
                for m in HYGIENE_RE.finditer(line):
                    w = m.group(0)
                    if w in ("Variable", "Variables", "Hypothesis", "Hypotheses") and depth > 0:
                        continue
                    problems.append("%s:%d: %s" % (os.path.relpath(path, VERIF), ln, w))
    return problems


ALLOWED_ASSUMPTIONS = set()  # axiom names allowed in Print Assumptions output; expected: none


def check_property_file(pid):
    """Compile Properties/<pid>.v (deps must be built), return (theorem names, assumption reports, problems)."""
    path = os.path.join(COQ, "Properties", pid + ".v")
    src = strip_coq_comments(open(path).read())
    theorems = re.findall(r"^\s*(?:Theorem|Example|Corollary)\s+(\w+)", src, re.M)
    printed = re.findall(r"Print Assumptions\s+(\w+)\s*\.", src)
    problems = []
    for t in theorems:
        if t not in printed:
            problems.append("no Print Assumptions for %s" % t)
    os.makedirs(os.path.join(CACHE, "prop"), exist_ok=True)
    p = subprocess.run(["timeout", "900", "coqc", "-Q", ".", "ZK", "-o", os.path.join(CACHE, "prop", pid + ".vo"),
                        os.path.join("Properties", pid + ".v")],
                       cwd=COQ, stdout=subprocess.PIPE, stderr=subprocess.STDOUT, text=True)
    if p.returncode != 0:
        problems.append("coqc failed: " + p.stdout[-2000:])
        return theorems, [], problems
    out = p.stdout
    closed = out.count("Closed under the global context")
    reports = []
    if "Axioms:" in out:
        for blk in out.split("Axioms:")[1:]:
            for m in re.finditer(r"^(\S+)\s*:", blk, re.M):
                name = m.group(1)
                if name not in ALLOWED_ASSUMPTIONS:
                    problems.append("theorem depends on axiom %s" % name)
                reports.append(name)
    if closed + out.count("Axioms:") != len(printed):
        problems.append("Print Assumptions reports: %d closed for %d requests" % (closed, len(printed)))
    return theorems, reports, problems


# ---------------------------------------------------------------------------------------------
# harness client
class HarnessDied(Exception):
    pass


class Panic(Exception):
    pass


class Deviation(RuntimeError):
    """an honest flow of the real API (establishment, payment) stopped where the model says it completes, and the driver went on
    to use its result: a disagreement between implementation and model (correspondence failure), not a machinery error"""


class Flow(dict):
    """result of an honest flow; asking it for a part that does not exist because the flow stopped early is a Deviation"""

    def __missing__(self, key):
        raise Deviation("an honest flow stopped at stage %r: it has no %r" % (self.get("stage"), key))


class HarnessOpError(RuntimeError):
    """an op of the adaptor returned an error (typically: the implementation refused to decode an input). The driver only
    sends such ops inputs that the model accepts (deliberately invalid inputs go through ops that report the refusal as a
    result), so on the unchanged tree this never happens; on a changed tree it is a disagreement between implementation
    and model, i.e. a correspondence failure - not an error of the machinery."""


class Harness:
    def __init__(self, binary, limit_as=None):
        self.binary = binary
        self.limit_as = limit_as
        self.p = None
        self.calls = 0
        self.trace = None
        self.setup = []                      # ops that create long-lived handles (merchant configurations): part of every script
        import collections
        self.recent = collections.deque(maxlen=80)   # the last ops with their answers (attached to failing cases without a script)
        self.start()

    def begin(self):
        """start recording the ops sent (the script of a case, for replay files)"""
        self.trace = []

    def end(self):
        """the script of a case: the handle-creating setup ops of this process, then the ops since begin(), each with the
        answer it got ({"op": [...], "resp": [...]}); `./check Cnn --replay file` re-runs them, renumbering handles"""
        t, self.trace = self.trace, None
        return (list(self.setup) + t) if t else []

    def start(self):
        pre = None
        if self.limit_as:
            import resource

            def pre():
                resource.setrlimit(resource.RLIMIT_AS, (self.limit_as, self.limit_as))
        self.p = subprocess.Popen([self.binary], stdin=subprocess.PIPE, stdout=subprocess.PIPE,
                                  stderr=subprocess.DEVNULL, text=True, bufsize=1, preexec_fn=pre)

    def raw(self, op, *args):
        """returns (status, tokens) with status in ok / panic / err; raises HarnessDied on abort"""
        line = " ".join([op] + [str(a) for a in args]) + "\n"
        self.calls += 1
        entry = {"op": [op] + [str(a) for a in args], "resp": None}
        if self.trace is not None:
            self.trace.append(entry)
        if op in ("m_from_parts", "m_new"):
            self.setup.append(entry)
        self.recent.append(entry)
        try:
            self.p.stdin.write(line)
            self.p.stdin.flush()
            resp = self.p.stdout.readline()
        except (BrokenPipeError, OSError):
            resp = ""
        if not resp:
            rc = self.p.wait()
            self.start()
            raise HarnessDied("harness exited with status %s on: %s" % (rc, line[:300]))
        toks = resp.split()
        entry["resp"] = [t if len(t) <= 400 else t[:400] + "..." for t in toks]
        if toks[0] == "ok":
            return "ok", toks[1:]
        if toks[0] == "panic":
            return "panic", [" ".join(toks[1:])]
        return "err", [" ".join(toks[1:])]

    def call(self, op, *args):
        st, toks = self.raw(op, *args)
        if st == "ok":
            return toks
        if st == "panic":
            raise Panic("%s: %s" % (op, toks[0]))
        raise HarnessOpError("harness error on %s: %s" % (op, toks[0]))

    def try_call(self, op, *args):
        """like call, but an error answer of the op is returned as None (for monitors that must survive it)"""
        st, toks = self.raw(op, *args)
        if st == "ok":
            return toks
        if st == "panic":
            raise Panic("%s: %s" % (op, toks[0]))
        return None

    def rng(self, seed, tape=()):
        self.call("rng", seed, scs(tape) if tape else "-")

    def rng_blocks(self, seed, blocks):
        """script the next 64-byte draws with full 64-byte blocks (integers below 2^512, little endian)"""
        self.call("rng64", seed, "".join(b.to_bytes(64, "little").hex() for b in blocks))

    def served(self):
        t = self.call("served")
        return unscs(t[0]), int(t[1])

    def chal_log(self):
        t = self.call("chal_drain")
        out = []
        for i in range(0, len(t), 2):
            chunks = [] if t[i + 1] == "-" else [unhx(c) for c in t[i + 1].split(",")]
            out.append((bytes.fromhex(t[i]), chunks))
        return out

    def close(self):
        try:
            self.p.stdin.close()
            self.p.wait(timeout=5)
        except Exception:
            self.p.kill()


class Points:
    """dl -> compressed point bytes (hex), through the harness; cached."""

    def __init__(self, h):
        self.h = h
        self.c1 = {}
        self.c2 = {}

    def g1(self, dl):
        dl %= Q
        if dl not in self.c1:
            self.c1[dl] = self.h.call("g1", sc(dl))[0]
        return self.c1[dl]

    def g2(self, dl):
        dl %= Q
        if dl not in self.c2:
            self.c2[dl] = self.h.call("g2", sc(dl))[0]
        return self.c2[dl]

    def g(self, grp, dl):
        return self.g1(dl) if grp == 1 else self.g2(dl)

    def many(self, grp, dls):
        cache = self.c1 if grp == 1 else self.c2
        need = [d % Q for d in dls if d % Q not in cache]
        need = list(dict.fromkeys(need))
        if need:
            r = self.h.call("g1s" if grp == 1 else "g2s", scs(need))[0]
            l = 96 if grp == 1 else 192
            for i, d in enumerate(need):
                cache[d] = r[i * l:(i + 1) * l]
        return [cache[d % Q] for d in dls]


# ---------------------------------------------------------------------------------------------
# Coq evaluation of the model
def zlit(x):
    return "(%d)" % x if x < 0 else "%d" % x


def zlist(xs):
    return "[" + "; ".join(zlit(x) for x in xs) + "]"


COQ_HEADER = ("From ZK Require Import Model.Field Model.Zq Model.QBls Model.Pedersen Model.PS Model.Schnorr Model.Range "
              "Model.Abacus Model.Amount Model.Ids Model.Wire Model.Codecs Model.Customer Model.Run.\n"
              "Open Scope Z_scope.\n")


def _run_shard(args):
    idx, terms, workdir, preamble = args
    path = os.path.join(workdir, "cases_%d.v" % idx)
    with open(path, "w") as f:
        f.write(COQ_HEADER)
        f.write(preamble)
        for t in terms:
            f.write("Eval vm_compute in (%s).\n" % t)
    p = subprocess.run(["timeout", "1500", "coqc", "-noglob", "-Q", COQ, "ZK", "-Q", workdir, "Cases", path],
                       stdout=subprocess.PIPE, stderr=subprocess.STDOUT, text=True)
    if p.returncode != 0:
        return idx, None, p.stdout[-3000:]
    out = p.stdout
    parts = re.split(r"^\s*= ", out, flags=re.M)[1:]
    res = []
    for part in parts:
        body = part.rsplit("\n     :", 1)[0] if "\n     :" in part else part.rsplit(":", 1)[0]
        res.append([int(x) for x in re.findall(r"-?\d+", body.replace("%Z", ""))])
    if len(res) != len(terms):
        return idx, None, "parsed %d results for %d terms\n%s" % (len(res), len(terms), out[-2000:])
    return idx, res, None


def eval_model(terms, tag, shards=16, preamble=""):
    """Evaluate Gallina terms (each of type list Z) with vm_compute; returns list of int lists."""
    if not terms:
        return []
    from concurrent.futures import ThreadPoolExecutor
    workdir = os.path.join(CACHE, "cases", "%s_%d" % (tag, os.getpid()))
    os.makedirs(workdir, exist_ok=True)
    n = min(shards, max(1, len(terms) // 4))
    chunks = [[] for _ in range(n)]
    owner = []
    for i, t in enumerate(terms):
        chunks[i % n].append(t)
        owner.append((i % n, len(chunks[i % n]) - 1))
    with ThreadPoolExecutor(max_workers=n) as ex:
        results = list(ex.map(_run_shard, [(i, chunks[i], workdir, preamble) for i in range(n)]))
    by = {}
    for idx, res, err in results:
        if res is None:
            raise RuntimeError("model evaluation failed (shard %d): %s" % (idx, err))
        by[idx] = res
    shutil.rmtree(workdir, ignore_errors=True)
    return [by[s][j] for (s, j) in owner]


# ---------------------------------------------------------------------------------------------
# bookkeeping of one check run
class Run:
    def __init__(self, pid, tier, seed):
        self.pid = pid
        self.tier = tier
        self.seed = seed
        self.rng = random.Random(seed * 1000003 + int(pid[1:]))
        self.t0 = time.time()
        self.theorems = []
        self.proof_problems = []
        self.corr = {}          # obligation name -> [n_ok, n_fail]
        self.corr_fail = []     # (name, case)
        self.monitor_fail = []  # (name, case)
        self.monitors = {}      # name -> [n_ok, n_fail]
        self.known = []         # known-finding lines
        self.evaluations = 0
        self.digests = set()
        self.nontrivial = set()
        self.samples = []
        self.dist = {}
        self.notes = []
        self.machinery_errors = []

    def count(self, key, n=1):
        self.dist[key] = self.dist.get(key, 0) + n

    def case(self, case, nontrivial=True, sample=False):
        """register an explored case (dict); returns its digest"""
        self.evaluations += 1
        d = hashlib.sha256(json.dumps(case, sort_keys=True, default=str).encode()).hexdigest()[:16]
        self.digests.add(d)
        if nontrivial:
            self.nontrivial.add(d)
        if sample or len(self.samples) < 3:
            if len(self.samples) < 8:
                self.samples.append(case)
        return d

    def _with_script(self, case):
        """a failing case that carries no script of its own gets the harness ops that led to it (setup + the most recent ones)"""
        h = getattr(self, "h", None)
        if h is None or (isinstance(case, dict) and case.get("script")):
            return case
        if len(self.corr_fail) + len(self.monitor_fail) >= 12:
            return case
        return dict(case, script=list(h.setup) + [e for e in list(h.recent)[-60:] if e not in h.setup])

    def check_corr(self, name, ok, case):
        c = self.corr.setdefault(name, [0, 0])
        c[0 if ok else 1] += 1
        if not ok:
            self.corr_fail.append((name, self._with_script(case)))
        return ok

    def check_monitor(self, name, ok, case):
        c = self.monitors.setdefault(name, [0, 0])
        c[0 if ok else 1] += 1
        if not ok:
            self.monitor_fail.append((name, self._with_script(case)))
        return ok


def write_json(path, obj):
    os.makedirs(os.path.dirname(path), exist_ok=True)
    tmp = path + ".tmp"
    with open(tmp, "w") as f:
        json.dump(obj, f, indent=1, default=str)
    os.replace(tmp, path)


def load_known():
    p = os.path.join(VERIF, "known_findings.json")
    if not os.path.exists(p):
        return {"open": [], "fixed": []}
    return json.load(open(p))


class Batch:
    """Collects (Gallina term, callback) pairs; flush() evaluates all terms with vm_compute in
    parallel shards and hands each result (a list of ints) to its callback."""

    def __init__(self, tag):
        self.tag = tag
        self.items = []
        self.preamble = ""

    def define(self, name, term):
        """a definition shared by all terms (emitted at the top of every shard)"""
        self.preamble += "Definition %s := %s.\n" % (name, term)

    def add(self, term, cb):
        self.items.append((term, cb))

    def flush(self):
        items, self.items = self.items, []
        res = eval_model([t for t, _ in items], self.tag, preamble=self.preamble)
        for (t, cb), r in zip(items, res):
            cb(r)
        return len(items)


def coq_pk(pk):
    """pk = dict(g1, y1s, g2, x2, y2s) of ints"""
    return "(mk_pk %s %s %s %s %s)" % (zlit(pk["g1"]), zlist(pk["y1s"]), zlit(pk["g2"]), zlit(pk["x2"]), zlist(pk["y2s"]))


def coq_sk(sk):
    return "(mk_sk %s %s %s)" % (zlit(sk["x"]), zlist(sk["ys"]), zlit(sk["x1"]))
