(** * The zkAbacus proofs ([zkabacus-crypto/src/proofs.rs]): EstablishProof and PayProof.

    A state message is (channel id, nonce, revocation lock, customer balance, merchant balance);
    a close-state message is (channel id, CLOSE, revocation lock, customer balance, merchant balance).
    The Fiat-Shamir hash is a parameter [chal : list atom -> K] (DESIGN.md 3.3): nothing is assumed
    about it; the transcript it is applied to is modelled exactly (chunk by chunk). *)
From ZK Require Import Model.Field Model.Pedersen Model.PS Model.Schnorr Model.Range.
Local Open Scope fld_scope.

(** what is fed to the challenge, chunk by chunk *)
Inductive atom (K : Type) := A1 (x : K) | A2 (x : K) | AS (x : K) | AB (bs : list Z).
Arguments A1 {_}. Arguments A2 {_}. Arguments AS {_}. Arguments AB {_}.

Section Abacus.
Variable K : Fld.
Variable close_tag : K.
Variable chal : list (atom K) -> K.

(** [impl ChallengeInput for PublicKey]: g1, g2, x2, y1s, y2s *)
Definition pk_chunks (pk : pkey K) : list (atom K) :=
  [A1 (pk_g1 pk); A2 (pk_g2 pk); A2 (pk_x2 pk)] ++ map A1 (pk_y1s pk) ++ map A2 (pk_y2s pk).
(** [PublicKey::to_bytes] (what [ChannelId::new] hashes): g1, y1s, g2, x2, y2s - another order than the challenge input *)
Definition pk_to_bytes_atoms (pk : pkey K) : list (atom K) :=
  [A1 (pk_g1 pk)] ++ map A1 (pk_y1s pk) ++ [A2 (pk_g2 pk); A2 (pk_x2 pk)] ++ map A2 (pk_y2s pk).
Definition cp1_chunks (p : cproof K) : list (atom K) := [A1 (cp_C p); A1 (cp_T p)].
Definition cp2_chunks (p : cproof K) : list (atom K) := [A2 (cp_C p); A2 (cp_T p)].
Definition sp_chunks (p : sproof K) : list (atom K) :=
  [A1 (fst (sp_sig p)); A1 (snd (sp_sig p))] ++ cp2_chunks (sp_cp p).
Definition sig_chunks (s : sigt K) : list (atom K) := [A1 (fst s); A1 (snd s)].
Definition rp_chunks (rp : rparams K) : list (atom K) :=
  flat_map sig_chunks (rp_sigs rp) ++ pk_chunks (rp_pk rp).
Definition range_chunks (ps : list (sproof K)) : list (atom K) := flat_map sp_chunks ps.

(** ** Establish *)
Record eproof := mkEP {
  e_kcid : K; e_kclose : K; e_kcb : K; e_kmb : K;     (* revealed commitment scalars *)
  e_sp : cproof K;                                     (* state proof *)
  e_csp : cproof K                                     (* close-state proof *)
}.

Definition establish_transcript (pk : pkey K) (cid cb mb : K) (p : eproof) (ctx : list Z) : list (atom K) :=
  pk_chunks pk ++ [AS cid; AS close_tag; AS cb; AS mb]
  ++ cp1_chunks (e_sp p) ++ cp1_chunks (e_csp p)
  ++ [AS (e_kcid p); AS (e_kclose p); AS (e_kcb p); AS (e_kmb p)]
  ++ [AB ctx].

Definition rs_at (p : cproof K) (j : nat) : K := nth j (cp_rs p) f0.

(** [EstablishProof::verify] with the challenge made explicit *)
Definition establish_verify_with (pk : pkey K) (cid cb mb : K) (p : eproof) (c : K) : option (K * K) :=
  let s := e_sp p in let cs := e_csp p in
  let ecid := c * cid + e_kcid p in
  let ecb := c * cb + e_kcb p in
  let emb := c * mb + e_kmb p in
  match req_verify pk s c, req_verify pk cs c with
  | Some vs, Some vcs =>
      if (rs_at s 0 =? ecid) && (rs_at cs 0 =? ecid)
         && (rs_at cs 1 =? c * close_tag + e_kclose p)
         && (rs_at s 2 =? rs_at cs 2)
         && ((rs_at s 3 =? ecb) && (rs_at cs 3 =? ecb))
         && ((rs_at s 4 =? emb) && (rs_at cs 4 =? emb))
      then Some (vs, vcs) else None
  | _, _ => None
  end.

Definition establish_verify (pk : pkey K) (cid cb mb : K) (p : eproof) (ctx : list Z) : option (K * K) :=
  establish_verify_with pk cid cb mb p (chal (establish_transcript pk cid cb mb p ctx)).

(** the prover: [ks] are the five commitment scalars of the state proof; the close-state proof shares
    slots 0, 2, 3, 4 and draws [kclose] *)
Definition state_msg (cid nonce lock cb mb : K) : list K := [cid; nonce; lock; cb; mb].
Definition close_msg (cid lock cb mb : K) : list K := [cid; close_tag; lock; cb; mb].

Definition establish_first (pk : pkey K) (cid nonce lock cb mb : K)
           (bfs kbfs : K) (ks : list K) (bfc kbfc kclose : K) : eproof :=
  let ksc := [nth 0 ks f0; kclose; nth 2 ks f0; nth 3 ks f0; nth 4 ks f0] in
  mkEP (nth 0 ks f0) kclose (nth 3 ks f0) (nth 4 ks f0)
       (mkCP (blind pk (state_msg cid nonce lock cb mb) bfs) (commit (pk_g1 pk) (pk_y1s pk) ks kbfs) f0 [])
       (mkCP (blind pk (close_msg cid lock cb mb) bfc) (commit (pk_g1 pk) (pk_y1s pk) ksc kbfc) f0 []).

Definition establish_prove_with (pk : pkey K) (cid nonce lock cb mb : K)
           (bfs kbfs : K) (ks : list K) (bfc kbfc kclose : K) (c : K) : eproof :=
  let ksc := [nth 0 ks f0; kclose; nth 2 ks f0; nth 3 ks f0; nth 4 ks f0] in
  mkEP (nth 0 ks f0) kclose (nth 3 ks f0) (nth 4 ks f0)
       (req_prove pk (state_msg cid nonce lock cb mb) bfs kbfs ks c)
       (req_prove pk (close_msg cid lock cb mb) bfc kbfc ksc c).

Definition establish_prove (pk : pkey K) (cid nonce lock cb mb : K)
           (bfs kbfs : K) (ks : list K) (bfc kbfc kclose : K) (ctx : list Z) : eproof :=
  establish_prove_with pk cid nonce lock cb mb bfs kbfs ks bfc kbfc kclose
    (chal (establish_transcript pk cid cb mb
             (establish_first pk cid nonce lock cb mb bfs kbfs ks bfc kbfc kclose) ctx)).

(** ** Pay *)
Record pproof := mkPP {
  p_knonce : K; p_kclose : K;
  p_tok : sproof K;                 (* old pay token, N = 5 *)
  p_rev : cproof K;                 (* old revocation lock, G1, N = 1 *)
  p_sp : cproof K;                  (* new state *)
  p_csp : cproof K;                 (* new close state *)
  p_crange : list (sproof K);
  p_mrange : list (sproof K)
}.

Definition pay_transcript (pk : pkey K) (rp : rparams K) (nonce : K) (p : pproof) (ctx : list Z) : list (atom K) :=
  pk_chunks pk ++ rp_chunks rp ++ [AS nonce; AS close_tag]
  ++ cp1_chunks (p_rev p) ++ cp1_chunks (p_sp p) ++ cp1_chunks (p_csp p)
  ++ sp_chunks (p_tok p) ++ range_chunks (p_crange p) ++ range_chunks (p_mrange p)
  ++ [AS (p_knonce p); AS (p_kclose p)]
  ++ [AB ctx].

(** [PayProof::verify] with the challenge explicit; (hr, gr) are the revocation-commitment parameters,
    [eps] is [amount.to_scalar()] *)
Definition pay_verify_with (pk : pkey K) (rp : rparams K) (hr gr : K) (nonce eps : K) (p : pproof) (c : K)
  : option (K * K * K) :=
  let s := p_sp p in let cs := p_csp p in let t := sp_cp (p_tok p) in
  match req_verify pk s c, req_verify pk cs c with
  | Some vs, Some vcs =>
      if sig_verify pk (p_tok p) c
         && cp_verify hr [gr] (p_rev p) c
         && range_verify rp (p_crange p) c (rs_at s 3)
         && range_verify rp (p_mrange p) c (rs_at s 4)
         && ((rs_at s 0 =? rs_at cs 0) && (rs_at cs 0 =? rs_at t 0))
         && (rs_at cs 1 =? c * close_tag + p_kclose p)
         && (rs_at (p_rev p) 0 =? rs_at t 2)
         && (rs_at s 2 =? rs_at cs 2)
         && (rs_at t 1 =? c * nonce + p_knonce p)
         && (rs_at s 3 =? rs_at cs 3)
         && (rs_at s 4 =? rs_at cs 4)
         && (rs_at s 3 =? rs_at t 3 - c * eps)
         && (rs_at s 4 =? rs_at t 4 + c * eps)
      then Some (vs, vcs, cp_C (p_rev p)) else None
  | _, _ => None
  end.

Definition pay_verify (pk : pkey K) (rp : rparams K) (hr gr : K) (nonce eps : K) (p : pproof) (ctx : list Z) :=
  pay_verify_with pk rp hr gr nonce eps p (chal (pay_transcript pk rp nonce p ctx)).

(** the prover.  Randomness: the two range constraints [dsc], [dsm]; the revocation-lock proof
    (bfr, kbfr, krev); the token proof (bft, kbft, kcid, knonce, rt); the state proof (bfs, kbfs,
    knn, klock'); the close-state proof (bfc, kbfc, kclose). *)
Record pdraws := mkPD {
  d_dsc : list (rdraw K); d_dsm : list (rdraw K);
  d_bfr : K; d_kbfr : K; d_krev : K;
  d_bft : K; d_kbft : K; d_kcid : K; d_knonce : K; d_rt : K;
  d_bfs : K; d_kbfs : K; d_knn : K; d_klock : K;
  d_bfc : K; d_kbfc : K; d_kclose : K
}.

Definition pay_prove_with (pk : pkey K) (rp : rparams K) (hr gr : K)
           (tok : sigt K) (old : list K) (cbz mbz : Z) (new : list K) (d : pdraws) (c : K)
  : option pproof :=
  match range_prove rp cbz (d_dsc d) c, range_prove rp mbz (d_dsm d) c with
  | Some prc, Some prm =>
      let kcb := range_commitment_scalar (d_dsc d) in
      let kmb := range_commitment_scalar (d_dsm d) in
      let kst := [d_kcid d; d_knonce d; d_krev d; kcb; kmb] in
      let kss := [d_kcid d; d_knn d; d_klock d; kcb; kmb] in
      let ksc := [d_kcid d; d_kclose d; d_klock d; kcb; kmb] in
      let newc := [nth 0 new f0; close_tag; nth 2 new f0; nth 3 new f0; nth 4 new f0] in
      Some (mkPP (d_knonce d) (d_kclose d)
                 (sig_prove pk old tok (d_bft d) (d_kbft d) kst (d_rt d) c)
                 (cp_prove hr [gr] [nth 2 old f0] (d_bfr d) (d_kbfr d) [d_krev d] c)
                 (req_prove pk new (d_bfs d) (d_kbfs d) kss c)
                 (req_prove pk newc (d_bfc d) (d_kbfc d) ksc c)
                 prc prm)
  | _, _ => None
  end.

End Abacus.
Arguments pk_chunks {_}. Arguments pk_to_bytes_atoms {_}. Arguments cp1_chunks {_}. Arguments cp2_chunks {_}. Arguments sp_chunks {_}.
Arguments sig_chunks {_}. Arguments rp_chunks {_}. Arguments range_chunks {_}.
Arguments mkEP {_}. Arguments e_kcid {_}. Arguments e_kclose {_}. Arguments e_kcb {_}. Arguments e_kmb {_}.
Arguments e_sp {_}. Arguments e_csp {_}.
Arguments establish_transcript {_}. Arguments rs_at {_}. Arguments establish_verify_with {_}.
Arguments establish_verify {_}. Arguments state_msg {_}. Arguments close_msg {_}.
Arguments establish_first {_}. Arguments establish_prove_with {_}. Arguments establish_prove {_}.
Arguments mkPP {_}. Arguments p_knonce {_}. Arguments p_kclose {_}. Arguments p_tok {_}. Arguments p_rev {_}.
Arguments p_sp {_}. Arguments p_csp {_}. Arguments p_crange {_}. Arguments p_mrange {_}.
Arguments pay_transcript {_}. Arguments pay_verify_with {_}. Arguments pay_verify {_}.
Arguments mkPD {_}. Arguments pay_prove_with {_}.
Arguments d_dsc {_}. Arguments d_dsm {_}. Arguments d_bfr {_}. Arguments d_kbfr {_}. Arguments d_krev {_}.
Arguments d_bft {_}. Arguments d_kbft {_}. Arguments d_kcid {_}. Arguments d_knonce {_}. Arguments d_rt {_}.
Arguments d_bfs {_}. Arguments d_kbfs {_}. Arguments d_knn {_}. Arguments d_klock {_}.
Arguments d_bfc {_}. Arguments d_kbfc {_}. Arguments d_kclose {_}.
