(** * Range constraints ([zkchannels-crypto/src/proofs/range.rs]): u = 128, l = 9. *)
From ZK Require Import Model.Field Model.Pedersen Model.PS Model.Schnorr.
Local Open Scope fld_scope.

(** digit decomposition, least significant first: [*digit = v % 128; v /= 128] nine times *)
Fixpoint digits_go (l : nat) (v : Z) : list Z :=
  match l with
  | O => []
  | S l => (v mod 128)%Z :: digits_go l (v / 128)%Z
  end.
Definition digits (v : Z) : list Z := digits_go 9 v.

(** sum of 128^j * x_j over the integers *)
Fixpoint zweighted (xs : list Z) : Z :=
  match xs with
  | [] => 0%Z
  | x :: xs => (x + 128 * zweighted xs)%Z
  end.

Section Range.
Variable K : Fld.

(** the loop  [acc += u_pow * x; u_pow *= 128]  of the prover and the verifier *)
Fixpoint weighted_go (upow acc : K) (xs : list K) : K :=
  match xs with
  | [] => acc
  | x :: xs => weighted_go (upow * of_Z 128) (acc + upow * x) xs
  end.
Definition weighted (xs : list K) : K := weighted_go f1 f0 xs.

(** parameters: 128 digit signatures and the single-message public key *)
Record rparams := mkRP { rp_sigs : list (sigt K); rp_pk : pkey K }.

(** [RangeConstraintParameters::validate] *)
Fixpoint validate_go (pk : pkey K) (i : Z) (sigs : list (sigt K)) : bool :=
  match sigs with
  | [] => true
  | s :: sigs => verify pk [of_Z i] s && validate_go pk (i + 1)%Z sigs
  end.
Definition validate (rp : rparams) : bool := validate_go (rp_pk rp) 0%Z (rp_sigs rp).

(** per-digit randomness of the prover *)
Record rdraw := mkRD { rd_bf : K; rd_kbf : K; rd_k : K; rd_r : K }.

(** [RangeConstraintBuilder::commitment_scalar] *)
Definition range_commitment_scalar (ds : list rdraw) : K := weighted (map rd_k ds).

(** [generate_constraint_commitments] + [generate_constraint_response]; [None] = ValueOutsideRange *)
Definition range_prove (rp : rparams) (value : Z) (ds : list rdraw) (c : K) : option (list (sproof K)) :=
  if (value <? 0)%Z then None
  else Some (map2 (fun d rd =>
                     sig_prove (rp_pk rp) [of_Z d] (nth (Z.to_nat d) (rp_sigs rp) (f0, f0))
                               (rd_bf rd) (rd_kbf rd) [rd_k rd] (rd_r rd) c)
                  (digits value) ds).

(** [verify_range_constraint] *)
Definition range_verify (rp : rparams) (ps : list (sproof K)) (c expected : K) : bool :=
  forallb (fun p => sig_verify (rp_pk rp) p c) ps
  && (weighted (map (fun p => nth 0 (cp_rs (sp_cp p)) f0) ps) =? expected).

Definition range_transcript (ps : list (sproof K)) : list K := flat_map (@sp_transcript K) ps.

End Range.
Arguments weighted_go {_}. Arguments weighted {_}. Arguments mkRP {_}. Arguments rp_sigs {_}. Arguments rp_pk {_}.
Arguments validate_go {_}. Arguments validate {_}. Arguments mkRD {_}. Arguments rd_bf {_}. Arguments rd_kbf {_}.
Arguments rd_k {_}. Arguments rd_r {_}. Arguments range_commitment_scalar {_}. Arguments range_prove {_}.
Arguments range_verify {_}. Arguments range_transcript {_}.
