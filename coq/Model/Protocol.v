(** * The two parties together ([merchant.rs] + [customer.rs] + [proofs.rs]): establishment and payments
    as the composition of the customer's constructors ([Requested::new], [Ready::start]), the merchant's calls
    ([initialize], [activate], [allow_payment], [Unrevoked::complete_payment]) and the customer's reactions
    ([complete], [activate], [lock], [unlock]).  The Fiat-Shamir hash is a parameter [chal]; all randomness is named.

    What the glue adds to the parts, read off the code:
    - [Requested::new] keeps the close-state blinding factor and the state-commitment (= pay token) blinding factor of
      the very commitments inside the establish proof; [initialize] blind-signs the CLOSE-state commitment and hands
      back the state commitment, which [activate] blind-signs later;
    - [Ready::start] builds the new state with [apply_payment], proves with [PayProof::new] over (old state, token,
      new state) and keeps the three blinding factors of the proof's own commitments (revocation lock, new state, new
      close state); [allow_payment] blind-signs the new close-state commitment and keeps (revocation-lock commitment,
      new-state commitment); [complete_payment] blind-signs the latter once the old revocation pair opens the former. *)
From ZK Require Import Model.Field Model.Pedersen Model.PS Model.Schnorr Model.Range Model.Abacus Model.Amount
  Model.Customer Model.Merchant Model.Keygen.
Local Open Scope fld_scope.

Section Protocol.
Variable K : Fld.
Variable close_tag : K.
Variable chal : list (atom K) -> K.

(** [merchant::Config]: signing key pair, revocation-commitment parameters (h, [g]), range parameters *)
Record mconfig := mkM { m_sk : skey K; m_pk : pkey K; m_hr : K; m_gr : K; m_rp : rparams K }.

(** [merchant::Config::new]: [KeyPair::<5>::new], [PedersenParameters::<G1, 1>::new], [RangeConstraintParameters::new]
    (a fresh [KeyPair::<1>] and one non-identity base per digit signature), over explicit streams: group draws and scalar
    draws of each generator separately (the retry loops skip identity / zero draws; [None] = a stream ran out) *)
Definition merchant_config_new (g1s scalars g2s : list K) (rev_draws : list K)
           (rg1s rscalars rg2s : list K) (bases : list K) : option mconfig :=
  match keygen_stream 5 g1s scalars g2s, pedersen_new_stream 1 rev_draws,
        keygen_stream 1 rg1s rscalars rg2s, take_nonzero 128 bases with
  | Some (sk, pk), Some (hr, [gr]), Some (rsk, rpk), Some (hs, _) => Some (mkM sk pk hr gr (range_params_new rsk rpk hs))
  | _, _, _, _ => None
  end.

(** ** prover side with Fiat-Shamir: the challenge is the hash of the builders' first message *)
Definition pay_prove (pk : pkey K) (rp : rparams K) (hr gr : K) (tok : sigt K) (old : list K) (cbz mbz : Z)
           (new : list K) (d : pdraws K) (ctx : list Z) : option (pproof K) :=
  match pay_prove_with close_tag pk rp hr gr tok old cbz mbz new d f0 with
  | Some p0 => pay_prove_with close_tag pk rp hr gr tok old cbz mbz new d
                 (chal (pay_transcript close_tag pk rp (nth 1 old f0) p0 ctx))
  | None => None
  end.

(** ** merchant *)
Definition m_initialize (m : mconfig) (cid : K) (cb mb : Z) (p : eproof K) (ctx : list Z) (u : K)
  : option (sigt K * K) :=
  match establish_verify close_tag chal (m_pk m) cid (balance_scalar cb) (balance_scalar mb) p ctx with
  | Some (vs, vcs) => Some (blind_sign (m_sk m) (m_pk m) u vcs, vs)
  | None => None
  end.

Definition m_activate (m : mconfig) (vs : K) (u : K) : sigt K := blind_sign (m_sk m) (m_pk m) u vs.

Definition m_allow_payment (m : mconfig) (a : Z) (nonce : K) (p : pproof K) (ctx : list Z) (u : K)
  : option (unrevoked K * sigt K) :=
  match pay_verify close_tag chal (m_pk m) (m_rp m) (m_hr m) (m_gr m) nonce (amount_scalar a) p ctx with
  | Some (vs, vcs, vrev) => Some (mkU vrev vs, blind_sign (m_sk m) (m_pk m) u vcs)
  | None => None
  end.

Definition m_complete_payment (m : mconfig) (un : unrevoked K) (u lock bf : K) : sigt K + unrevoked K :=
  complete_payment (m_sk m) (m_pk m) (m_hr m) (m_gr m) un u lock bf.

(** ** customer constructors *)
Record edraws := mkED {
  ed_nonce : K; ed_lock : K;
  ed_bfs : K; ed_kbfs : K; ed_ks : list K;
  ed_bfc : K; ed_kbfc : K; ed_kclose : K }.

(** [Requested::new] *)
Definition c_request (pk : pkey K) (cid : K) (cb mb : Z) (e : edraws) (ctx : list Z) : stage K * eproof K :=
  (Requested (mkCS cid (ed_nonce e) (ed_lock e) cb mb) (ed_bfc e) (ed_bfs e),
   establish_prove close_tag chal pk cid (ed_nonce e) (ed_lock e) (balance_scalar cb) (balance_scalar mb)
     (ed_bfs e) (ed_kbfs e) (ed_ks e) (ed_bfc e) (ed_kbfc e) (ed_kclose e) ctx).

Record sdraws := mkSD { sd_nonce : K; sd_lock : K; sd_pd : pdraws K }.

(** [Ready::start]: the next stage, what the caller gets, and the pay proof of the start message *)
Definition c_start (pk : pkey K) (rp : rparams K) (hr gr : K) (st : stage K) (a : Z) (sd : sdraws) (ctx : list Z)
  : stage K * output K * option (pproof K) :=
  let d := sd_pd sd in
  match step close_tag pk st (EvStart a (sd_nonce sd) (sd_lock sd) (d_bfr d) (d_bfs d) (d_bfc d)), st with
  | (Started new old _ _ _ _ as st1, OStart n), Ready _ tok _ =>
      (st1, OStart n, pay_prove pk rp hr gr tok (smsg old) (s_cb new) (s_mb new) (smsg new) d ctx)
  | (st', o), _ => (st', o, None)
  end.

(** ** whole runs.  [PStuck k st]: an honest run stopped at protocol step [k] (the theorems show it never happens) *)
Inductive presult :=
| PDone (st : stage K)
| PAmountRefused (st : stage K) (e : error)
| PStuck (k : nat) (st : stage K).

Definition full_establish (m : mconfig) (cid : K) (cb mb : Z) (e : edraws) (ctx : list Z) (u1 u2 : K) : presult :=
  let (st0, proof) := c_request (m_pk m) cid cb mb e ctx in
  match m_initialize m cid cb mb proof ctx u1 with
  | None => PStuck 1 st0
  | Some (csig, vs) =>
      match step close_tag (m_pk m) st0 (EvComplete csig) with
      | (st1, ONone) =>
          match step close_tag (m_pk m) st1 (EvActivate (m_activate m vs u2)) with
          | (st2, ONone) => PDone st2
          | (st2, _) => PStuck 3 st2
          end
      | (st1, _) => PStuck 2 st1
      end
  end.

Definition full_payment (m : mconfig) (st : stage K) (a : Z) (sd : sdraws) (ctx : list Z) (u1 u2 : K) : presult :=
  match c_start (m_pk m) (m_rp m) (m_hr m) (m_gr m) st a sd ctx with
  | (st1, OStart n, Some p) =>
      match m_allow_payment m a n p ctx u1 with
      | None => PStuck 2 st1
      | Some (un, csig) =>
          match step close_tag (m_pk m) st1 (EvLock csig) with
          | (st2, OLockMsg l bfr) =>
              match m_complete_payment m un u2 l bfr with
              | inl tok =>
                  match step close_tag (m_pk m) st2 (EvUnlock tok) with
                  | (st3, ONone) => PDone st3
                  | (st3, _) => PStuck 5 st3
                  end
              | inr _ => PStuck 4 st2
              end
          | (st2, _) => PStuck 3 st2
          end
      end
  | (st1, OError e, _) => PAmountRefused st1 e
  | (st1, _, _) => PStuck 1 st1
  end.

(** a list of payment attempts; a refused amount leaves the customer where it was and the run goes on *)
Record attempt := mkAt { at_amount : Z; at_sd : sdraws; at_ctx : list Z; at_u1 : K; at_u2 : K }.

Fixpoint full_run (m : mconfig) (st : stage K) (ats : list attempt) : presult :=
  match ats with
  | [] => PDone st
  | t :: ats =>
      match full_payment m st (at_amount t) (at_sd t) (at_ctx t) (at_u1 t) (at_u2 t) with
      | PDone st' => full_run m st' ats
      | PAmountRefused st' _ => full_run m st' ats
      | PStuck k st' => PStuck k st'
      end
  end.

(** the ideal ledger: in-range payments move the balances, the others do nothing *)
Definition ledger_step (l : Z * Z) (a : Z) : Z * Z :=
  let (cb, mb) := l in
  if ((0 <=? cb - a) && (cb - a <=? i64_max) && (0 <=? mb + a) && (mb + a <=? i64_max))%Z
  then ((cb - a)%Z, (mb + a)%Z) else l.
Definition ledger_run (l : Z * Z) (amounts : list Z) : Z * Z := fold_left ledger_step amounts l.

End Protocol.
Arguments mkM {_}. Arguments m_sk {_}. Arguments m_pk {_}. Arguments m_hr {_}. Arguments m_gr {_}. Arguments m_rp {_}.
Arguments merchant_config_new {_}. Arguments pay_prove {_}. Arguments m_initialize {_}. Arguments m_activate {_}. Arguments m_allow_payment {_}.
Arguments m_complete_payment {_}. Arguments mkED {_}. Arguments ed_nonce {_}. Arguments ed_lock {_}. Arguments ed_bfs {_}.
Arguments ed_kbfs {_}. Arguments ed_ks {_}. Arguments ed_bfc {_}. Arguments ed_kbfc {_}. Arguments ed_kclose {_}.
Arguments c_request {_}. Arguments mkSD {_}. Arguments sd_nonce {_}. Arguments sd_lock {_}. Arguments sd_pd {_}.
Arguments c_start {_}. Arguments PDone {_}. Arguments PAmountRefused {_}. Arguments PStuck {_}.
Arguments full_establish {_}. Arguments full_payment {_}. Arguments mkAt {_}. Arguments at_amount {_}. Arguments at_sd {_}.
Arguments at_ctx {_}. Arguments at_u1 {_}. Arguments at_u2 {_}. Arguments full_run {_}.
