(** * Pedersen commitments ([zkchannels-crypto/src/pedersen.rs]).

    Group elements are represented by their discrete logarithm with respect to a fixed
    generator (DESIGN.md section 3.2): the group law is field addition, scalar multiplication is
    field multiplication, the identity is 0.  Parameters are [(h, gs)]. *)
From ZK Require Import Model.Field.
Local Open Scope fld_scope.

Section Pedersen.
Variable K : Fld.

(** [Commitment::new]:  h * bf + inner_product(gs, msg) *)
Definition commit (h : K) (gs : list K) (ms : list K) (bf : K) : K := h * bf + ip gs ms.

(** [Commitment::verify_opening]:  msg.commit(params, bf) == self *)
Definition verify_opening (h : K) (gs : list K) (c : K) (bf : K) (ms : list K) : bool :=
  commit h gs ms bf =? c.

(** decode-time validation of parameters: no identity element *)
Definition params_wf (h : K) (gs : list K) : bool :=
  fneqb h f0 && forallb (fun g => fneqb g f0) gs.

End Pedersen.
Arguments commit {_}. Arguments verify_opening {_}. Arguments params_wf {_}.
