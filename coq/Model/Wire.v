(** * The wire format: bincode 1.3 with default options as used by [bincode::serialize/deserialize]
    (fixed-width little-endian integers, u64 length prefix for sequences, no prefix for tuples and
    [serde_big_array], trailing bytes allowed), and the decoders of [zkchannels-crypto/src/serde.rs].

    A decoder returns [DOk value rest alloc], [DErr] or [DPanic]:
    [DPanic] models [ArrayVec::push] on a full vector (the pinned [G; N] visitor);
    [alloc] is the largest capacity (in elements) passed to [Vec::with_capacity]. *)
From Coq Require Import ZArith List Bool Lia.
From ZK Require Import Model.Field Model.Ids.
Import ListNotations.
Open Scope Z_scope.

Inductive dres (A : Type) := DOk (a : A) (rest : list Z) (alloc : Z) | DErr (alloc : Z) | DPanic.
Arguments DOk {_}. Arguments DErr {_}. Arguments DPanic {_}.

Definition dbind {A B} (r : dres A) (f : A -> list Z -> dres B) : dres B :=
  match r with
  | DOk a rest al => match f a rest with
                     | DOk b rest' al' => DOk b rest' (Z.max al al')
                     | DErr al' => DErr (Z.max al al')
                     | DPanic => DPanic
                     end
  | DErr al => DErr al
  | DPanic => DPanic
  end.

Definition res_of {A} (r : dres A) : option (A * list Z) :=
  match r with DOk a rest _ => Some (a, rest) | _ => None end.
Definition alloc_of {A} (r : dres A) : Z := match r with DOk _ _ al => al | DErr al => al | DPanic => 0 end.

Record codec (A : Type) := mkCodec { enc : A -> list Z; dec : list Z -> dres A; wf : A -> Prop }.
Arguments mkCodec {_}. Arguments enc {_}. Arguments dec {_}. Arguments wf {_}.

Definition is_byte (b : Z) : Prop := 0 <= b < 256.

(** what every codec of the two crates must satisfy *)
Record codec_ok {A} (c : codec A) : Prop := {
  ok_roundtrip : forall a rest, wf c a -> res_of (dec c (enc c a ++ rest)) = Some (a, rest);
  ok_canonical : forall bs a rest, Forall is_byte bs -> res_of (dec c bs) = Some (a, rest) -> wf c a /\ bs = enc c a ++ rest;
  ok_no_panic : forall bs, dec c bs <> DPanic;
  ok_alloc : forall bs, alloc_of (dec c bs) <= 1024
}.

(** ** fixed-width atoms *)
Definition take (n : nat) (bs : list Z) : option (list Z * list Z) :=
  if Nat.leb n (length bs) then Some (firstn n bs, skipn n bs) else None.

(** an atom of [n] bytes with a partial parser (e.g. canonical scalar, compressed point) *)
Definition c_atom {A} (n : nat) (parse : list Z -> option A) (ser : A -> list Z) (ok : A -> Prop) : codec A :=
  mkCodec ser
          (fun bs => match take n bs with
                     | None => DErr 0
                     | Some (b, rest) => match parse b with Some a => DOk a rest 0 | None => DErr 0 end
                     end)
          ok.

(** ** products, validation, tuples *)
Definition c_pair {A B} (ca : codec A) (cb : codec B) : codec (A * B) :=
  mkCodec (fun p => enc ca (fst p) ++ enc cb (snd p))
          (fun bs => dbind (dec ca bs) (fun a rest => dbind (dec cb rest) (fun b rest' => DOk (a, b) rest' 0)))
          (fun p => wf ca (fst p) /\ wf cb (snd p)).

(** serde [try_from]: decode, then validate *)
Definition c_validated {A} (c : codec A) (p : A -> bool) : codec A :=
  mkCodec (enc c)
          (fun bs => dbind (dec c bs) (fun a rest => if p a then DOk a rest 0 else DErr 0))
          (fun a => wf c a /\ p a = true).

(** [n] elements without a length prefix (tuples, [serde_big_array]) *)
Fixpoint dec_n {A} (c : codec A) (n : nat) (bs : list Z) : dres (list A) :=
  match n with
  | O => DOk [] bs 0
  | S n => dbind (dec c bs) (fun a rest => dbind (dec_n c n rest) (fun l rest' => DOk (a :: l) rest' 0))
  end.
Definition c_tuple {A} (n : nat) (c : codec A) : codec (list A) :=
  mkCodec (fun l => flat_map (enc c) l) (dec_n c n) (fun l => length l = n /\ Forall (wf c) l).

(** ** [SerializeElement for [G; N]]: u64 length prefix, then a visitor that pushes into an [ArrayVec<_, N>].
    bincode's [SeqAccess] yields exactly the announced number of elements (each one decoded on demand, EOF is an
    error).  [full_is_panic = true] is the pinned code ([push] panics when full); [false] is the repaired code
    ([try_push] -> error).  At most [N + 1] elements are ever looked at. *)
Fixpoint dec_array_go {A} (c : codec A) (full_is_panic : bool) (cap : nat) (todo : nat) (acc : list A) (bs : list Z)
  : dres (list A) :=
  match todo with
  | O => DOk (rev acc) bs 0
  | S todo =>
      match dec c bs with
      | DErr al => DErr al
      | DPanic => DPanic
      | DOk a rest al =>
          if Nat.ltb (length acc) cap then
            match dec_array_go c full_is_panic cap todo (a :: acc) rest with
            | DOk l r al' => DOk l r (Z.max al al')
            | DErr al' => DErr (Z.max al al')
            | DPanic => DPanic
            end
          else if full_is_panic then DPanic else DErr al
      end
  end.

Definition le8 (n : Z) : list Z := Z_to_le 8 n.

Definition dec_array {A} (c : codec A) (full_is_panic : bool) (n : nat) (bs : list Z) : dres (list A) :=
  match take 8 bs with
  | None => DErr 0
  | Some (lb, rest) =>
      let len := le_to_Z lb in
      let todo := Z.to_nat (Z.min len (Z.of_nat n + 1)) in
      match dec_array_go c full_is_panic n todo [] rest with
      | DOk l r al => if Nat.eqb (length l) n && (len =? Z.of_nat n) then DOk l r al else DErr al
      | x => x
      end
  end.

Definition c_array {A} (n : nat) (c : codec A) : codec (list A) :=
  mkCodec (fun l => le8 (Z.of_nat (length l)) ++ flat_map (enc c) l)
          (dec_array c false n)
          (fun l => length l = n /\ Forall (wf c) l).

Definition c_array_pinned {A} (n : nat) (c : codec A) : codec (list A) :=
  mkCodec (fun l => le8 (Z.of_nat (length l)) ++ flat_map (enc c) l)
          (dec_array c true n)
          (fun l => length l = n /\ Forall (wf c) l).

(** ** [SerializeElement for Vec<G>]: [Vec::with_capacity(min(size_hint, 1024))] (repaired; the pinned code used the
    hint itself), then elements until the announced count is reached; fuel = remaining bytes (every element
    consumes at least one byte, which all element codecs of the crates do). *)
Fixpoint dec_vec_go {A} (c : codec A) (fuel : nat) (todo : Z) (acc : list A) (bs : list Z) : dres (list A) :=
  if todo <=? 0 then DOk (rev acc) bs 0
  else match fuel with
       | O => DErr 0
       | S fuel => match dec c bs with
                   | DErr al => DErr al
                   | DPanic => DPanic
                   | DOk a rest al =>
                       match dec_vec_go c fuel (todo - 1) (a :: acc) rest with
                       | DOk l r al' => DOk l r (Z.max al al')
                       | DErr al' => DErr (Z.max al al')
                       | DPanic => DPanic
                       end
                   end
       end.

Definition dec_vec {A} (c : codec A) (cap_limit : option Z) (bs : list Z) : dres (list A) :=
  match take 8 bs with
  | None => DErr 0
  | Some (lb, rest) =>
      let len := le_to_Z lb in
      let cap := match cap_limit with Some m => Z.min len m | None => len end in   (* Vec::with_capacity happens first *)
      match dec_vec_go c (S (length rest)) len [] rest with
      | DOk l r al => DOk l r (Z.max cap al)
      | DErr al => DErr (Z.max cap al)
      | DPanic => DPanic
      end
  end.

Definition c_vec {A} (c : codec A) : codec (list A) :=
  mkCodec (fun l => le8 (Z.of_nat (length l)) ++ flat_map (enc c) l) (dec_vec c (Some 1024)) (fun l => Forall (wf c) l).
Definition c_vec_pinned {A} (c : codec A) : codec (list A) :=
  mkCodec (fun l => le8 (Z.of_nat (length l)) ++ flat_map (enc c) l) (dec_vec c None) (fun l => Forall (wf c) l).
