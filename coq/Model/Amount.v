(** * Rust integers, balances and payment amounts ([zkabacus-crypto/src/lib.rs], [states.rs]).

    Machine integers are [Z] with explicit range predicates.  Every arithmetic operation of the
    anchored code that can overflow returns an [outcome]: with overflow checks on ([Debug]) an overflow
    panics; with checks off ([Release]) it wraps and the wrapped value is what the code goes on with. *)
From ZK Require Import Model.Field.
Open Scope Z_scope.

Inductive profile := Debug | Release.
Inductive outcome (A : Type) := Val (a : A) | Panics.
Arguments Val {_}. Arguments Panics {_}.

Definition i64_min : Z := - 2 ^ 63.
Definition i64_max : Z := 2 ^ 63 - 1.
Definition u64_max : Z := 2 ^ 64 - 1.
Definition is_u64 (z : Z) : Prop := 0 <= z <= u64_max.
Definition is_i64 (z : Z) : Prop := i64_min <= z <= i64_max.
Definition wrap_u64 (z : Z) : Z := z mod 2 ^ 64.
Definition wrap_i64 (z : Z) : Z := (z + 2 ^ 63) mod 2 ^ 64 - 2 ^ 63.

(** [u64 + u64] *)
Definition u64_add (pr : profile) (x y : Z) : outcome Z :=
  if x + y <=? u64_max then Val (x + y)
  else match pr with Debug => Panics | Release => Val (wrap_u64 (x + y)) end.

(** [i64::abs] (the pinned code) and [i64::unsigned_abs] (the repaired code, total) *)
Definition i64_abs (pr : profile) (a : Z) : outcome Z :=
  if a =? i64_min then match pr with Debug => Panics | Release => Val i64_min end
  else Val (Z.abs a).
Definition i64_unsigned_abs (a : Z) : Z := Z.abs a.

Inductive error := AmountTooLarge (v : Z) | InsufficientFunds.
Inductive result (A : Type) := Ok (a : A) | Err (e : error).
Arguments Ok {_}. Arguments Err {_}.

(** [Balance::try_new], [CustomerBalance::try_new], [MerchantBalance::try_new] *)
Definition balance_try_new (v : Z) : result Z :=
  if v >? i64_max then Err (AmountTooLarge v) else Ok v.

(** serde [try_from = "u64"] after the repair: the decoder is [try_new] *)
Definition balance_decode (v : Z) : option Z :=
  match balance_try_new v with Ok b => Some b | Err _ => None end.

(** [PaymentAmount::pay_merchant], [pay_customer]: [i64::try_from(u64)] *)
Definition pay_merchant (amount : Z) : result Z :=
  if amount <=? i64_max then Ok amount else Err (AmountTooLarge amount).
Definition pay_customer (amount : Z) : result Z :=
  if amount <=? i64_max then Ok (- amount) else Err (AmountTooLarge amount).

(** [MerchantBalance::apply] / [CustomerBalance::apply]: i128 arithmetic (cannot overflow for 64-bit
    operands), sign test, then [as u64] and [try_new] *)
Definition apply_signed (nv : Z) : result Z :=
  if nv <? 0 then Err InsufficientFunds else balance_try_new (wrap_u64 nv).
Definition merchant_apply (b a : Z) : result Z := apply_signed (b + a).
Definition customer_apply (b a : Z) : result Z := apply_signed (b - a).

(** [State::apply_payment]: customer first, then merchant ([?] propagates the first error) *)
Definition apply_payment (cb mb a : Z) : result (Z * Z) :=
  match customer_apply cb a with
  | Err e => Err e
  | Ok cb' => match merchant_apply mb a with
              | Err e => Err e
              | Ok mb' => Ok (cb', mb')
              end
  end.

(** [MerchantBalance::try_add] *)
Definition try_add (pr : profile) (mb cb : Z) : outcome (result Z) :=
  match u64_add pr mb cb with
  | Panics => Panics
  | Val s => Val (balance_try_new s)
  end.

Section Enc.
Variable K : Fld.
Local Open Scope fld_scope.

(** [Balance::to_scalar] = [Scalar::from(u64)] *)
Definition balance_scalar (b : Z) : K := of_Z b.

(** [PaymentAmount::to_scalar], repaired:  if negative { 0 - from(unsigned_abs) } else { from(a as u64) } *)
Definition amount_scalar (a : Z) : K :=
  if (a <? 0)%Z then f0 - of_Z (i64_unsigned_abs a) else of_Z a.

(** the pinned version went through [i64::abs] *)
Definition amount_scalar_pinned (pr : profile) (a : Z) : outcome K :=
  if (a <? 0)%Z then
    match i64_abs pr a with
    | Panics => Panics
    | Val m => Val (f0 - of_Z (wrap_u64 m))
    end
  else Val (of_Z a).
End Enc.
Arguments balance_scalar {_}. Arguments amount_scalar {_}. Arguments amount_scalar_pinned {_}.
