(** * The wire types of both crates as compositions of the combinators of [Wire.v].
    Values are nested pairs / lists in the order of the serde-derived field order (DESIGN.md appendix B).
    The atom codecs for scalars and points are parameters: their laws are hypotheses of the theorems
    ([Proofs/CodecsProofs.v]); [Run.v] instantiates them (scalars: canonical little-endian below q, proved;
    points: a table built per run with the bls12_381 codec, trusted). *)
From Coq Require Import ZArith List Bool Lia.
From ZK Require Import Model.Field Model.Zq Model.QBls Model.Ids Model.Amount Model.Wire.
Import ListNotations.
Open Scope Z_scope.

(** integers *)
Definition parse_u (n : nat) (b : list Z) : option Z := Some (le_to_Z b).
Definition c_u8 : codec Z := c_atom 1 (parse_u 1) (Z_to_le 1) (fun z => 0 <= z < 256).
Definition c_u64 : codec Z := c_atom 8 (parse_u 8) (Z_to_le 8) (fun z => 0 <= z < 2 ^ 64).
Definition i64_of_u64 (u : Z) : Z := if u <? 2 ^ 63 then u else u - 2 ^ 64.
Definition c_i64 : codec Z :=
  c_atom 8 (fun b => Some (i64_of_u64 (le_to_Z b)))
         (fun a => Z_to_le 8 (a mod 2 ^ 64)) (fun a => - 2 ^ 63 <= a < 2 ^ 63).
Definition c_bytes (n : nat) : codec (list Z) := c_tuple n c_u8.

Section Codecs.
Variable K : Fld.
Variable close_tag : K.
Variable c_scalar : codec K.
Variable c_g1 : codec K.
Variable c_g2 : codec K.
Variable lock_ok : K -> K -> Z -> bool.     (* lock = canonical scalar of H(secret bytes ++ [index]) *)

Definition nz (x : K) : bool := fneqb x f0.
Definition all_nz (l : list K) : bool := forallb nz l.

Definition c_balance : codec Z := c_validated c_u64 (fun v => v <=? i64_max).
Definition c_amount : codec Z := c_i64.
Definition c_nonce : codec K := c_validated c_scalar (fun n => fneqb n close_tag).
Definition c_bf : codec K := c_scalar.

(** [Signature], [BlindedSignature], [ClosingSignature], [PayToken]: sigma1 must not be the identity *)
Definition c_sig : codec (K * K) := c_validated (c_pair c_g1 c_g1) (fun s => nz (fst s)).

Definition c_pedersen (cg : codec K) (n : nat) : codec (K * list K) :=
  c_validated (c_pair cg (c_array n cg)) (fun p => nz (fst p) && all_nz (snd p)).

(** [PublicKey<N>]: g1, y1s, g2, x2, y2s - no identity element *)
Definition c_pk (n : nat) : codec (K * (list K * (K * (K * list K)))) :=
  c_validated (c_pair c_g1 (c_pair (c_array n c_g1) (c_pair c_g2 (c_pair c_g2 (c_array n c_g2)))))
              (fun p => let '(g1, (y1s, (g2, (x2, y2s)))) := p in
                        nz g1 && nz g2 && nz x2 && all_nz y1s && all_nz y2s).
(** [SecretKey<N>]: x, ys, x1 - no zero scalar, x1 not the identity *)
Definition c_sk (n : nat) : codec (K * (list K * K)) :=
  c_validated (c_pair c_scalar (c_pair (c_array n c_scalar) c_g1))
              (fun p => let '(x, (ys, x1)) := p in nz x && nz x1 && all_nz ys).
Definition c_keypair (n : nat) := c_pair (c_sk n) (c_pk n).

(** [CommitmentProof<G,N>]: C, T, rbf, rs *)
Definition c_cp (cg : codec K) (n : nat) : codec (K * (K * (K * list K))) :=
  c_pair cg (c_pair cg (c_pair c_scalar (c_array n c_scalar))).
Definition c_srp (n : nat) := c_cp c_g1 n.
Definition c_sp (n : nat) := c_pair c_sig (c_cp c_g2 n).
Definition c_range_params := c_pair (c_tuple 128 c_sig) (c_pk 1).
Definition c_range_constraint := c_tuple 9 (c_sp 1).
Definition c_customer_config := c_pair (c_pk 5) (c_pair (c_pedersen c_g1 1) c_range_params).

Definition c_establish_proof :=
  c_pair c_scalar (c_pair c_scalar (c_pair c_scalar (c_pair c_scalar (c_pair (c_srp 5) (c_srp 5))))).
Definition c_pay_proof :=
  c_pair c_scalar (c_pair c_scalar (c_pair (c_sp 5) (c_pair (c_cp c_g1 1) (c_pair (c_srp 5) (c_pair (c_srp 5)
    (c_pair c_range_constraint c_range_constraint)))))).

(** [RevocationPair]: lock, (secret, index), validated against the hash *)
Definition c_revpair : codec (K * (K * Z)) :=
  c_validated (c_pair c_scalar (c_pair c_scalar c_u8)) (fun p => lock_ok (fst p) (fst (snd p)) (snd (snd p))).

(** [State]: channel id, nonce, revocation pair, merchant balance, customer balance *)
Definition c_state := c_pair (c_bytes 32) (c_pair c_nonce (c_pair c_revpair (c_pair c_balance c_balance))).
(** [CloseState]: channel id, lock, merchant balance, customer balance *)
Definition c_close_state := c_pair (c_bytes 32) (c_pair c_scalar (c_pair c_balance c_balance)).
Definition c_closing_message := c_pair c_sig c_close_state.

(** customer stages *)
Definition c_requested := c_pair c_state (c_pair c_bf c_bf).
Definition c_inactive := c_pair c_state (c_pair c_bf c_sig).       (* also Locked *)
Definition c_ready := c_pair c_state (c_pair c_sig c_sig).
Definition c_started := c_pair c_state (c_pair c_state (c_pair (c_pair c_bf (c_pair c_bf c_bf)) c_sig)).

End Codecs.

(** the canonical scalar codec of the BLS12-381 field (its laws are proved in [Proofs/CodecsProofs.v]) *)
Definition c_scalar_q : codec Fq :=
  c_atom 32 (fun b => if le_to_Z b <? q_bls then Some (fq (le_to_Z b)) else None) (fun x => Z_to_le 32 (val x)) (fun _ => True).

(** point codecs from a table (bytes, label) built per run with the bls12_381 decoder: the identity has label 0,
    valid non-identity encodings have distinct non-zero labels, every other byte string is undecodable *)
Fixpoint tbl_dec (tbl : list (list Z * Z)) (b : list Z) : option Fq :=
  match tbl with
  | [] => None
  | (k, x) :: tbl => if list_eq_dec Z.eq_dec k b then Some (fq x) else tbl_dec tbl b
  end.
Fixpoint tbl_enc (tbl : list (list Z * Z)) (x : Z) : list Z :=
  match tbl with
  | [] => []
  | (k, y) :: tbl => if y =? x then k else tbl_enc tbl x
  end.
Definition c_point (n : nat) (tbl : list (list Z * Z)) : codec Fq :=
  c_atom n (tbl_dec tbl) (fun x => tbl_enc tbl (val x)) (fun _ => True).
