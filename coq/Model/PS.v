(** * Pointcheval-Sanders signatures ([zkchannels-crypto/src/pointcheval_sanders.rs]).

    G1, G2 and GT elements are discrete logarithms (DESIGN.md section 3.2); the pairing
    e(a, b) is the product a * b. *)
From ZK Require Import Model.Field Model.Pedersen.
Local Open Scope fld_scope.

Section PS.
Variable K : Fld.

Record pkey := mkPk { pk_g1 : K; pk_y1s : list K; pk_g2 : K; pk_x2 : K; pk_y2s : list K }.
Record skey := mkSk { sk_x : K; sk_ys : list K; sk_x1 : K }.
Definition sigt := (K * K)%type.

(** [KeyPair::new] after the random draws [g1 x ys g2] have been made. *)
Definition keygen (g1 x : K) (ys : list K) (g2 : K) : skey * pkey :=
  (mkSk x ys (g1 * x),
   mkPk g1 (map (fun y => g1 * y) ys) g2 (g2 * x) (map (fun y => g2 * y) ys)).

(** decode-time validation ([TryFrom<UncheckedPublicKey>], [TryFrom<UncheckedSecretKey>]) *)
Definition pk_wf (pk : pkey) : bool :=
  fneqb (pk_g1 pk) f0 && fneqb (pk_g2 pk) f0 && fneqb (pk_x2 pk) f0
  && forallb (fun g => fneqb g f0) (pk_y1s pk) && forallb (fun g => fneqb g f0) (pk_y2s pk).
Definition sk_wf (sk : skey) : bool :=
  fneqb (sk_x sk) f0 && fneqb (sk_x1 sk) f0 && forallb (fun y => fneqb y f0) (sk_ys sk).

(** [Signature::new] with the random [h] drawn *)
Definition sign (sk : skey) (h : K) (ms : list K) : sigt := (h, h * (sk_x sk + ip (sk_ys sk) ms)).

(** [Signature::randomize] with the random [r] drawn *)
Definition randomize (r : K) (s : sigt) : sigt := (fst s * r, snd s * r).

(** [Signature::blind_and_randomize] *)
Definition blind_and_randomize (r bf : K) (s : sigt) : sigt :=
  randomize r (fst s, snd s + fst s * bf).

(** [BlindedSignature::unblind] *)
Definition unblind (bf : K) (s : sigt) : sigt := (fst s, snd s - fst s * bf).

(** [Message::blind]: commitment under (g1, Y1..YN) *)
Definition blind (pk : pkey) (ms : list K) (bf : K) : K := commit (pk_g1 pk) (pk_y1s pk) ms bf.

(** [BlindedSignature::new] with the random [u] drawn; [c] is the verified blinded message *)
Definition blind_sign (sk : skey) (pk : pkey) (u : K) (c : K) : sigt :=
  (pk_g1 pk * u, (sk_x1 sk + c) * u).

Definition is_well_formed (s : sigt) : bool := fneqb (fst s) f0.

(** [Signature::verify]: well-formed and  e(s1, X~ + sum mi Y~i) * e(s2, -g~) = 1 *)
Definition verify (pk : pkey) (ms : list K) (s : sigt) : bool :=
  is_well_formed s &&
  ((fst s * (pk_x2 pk + ip (pk_y2s pk) ms) + snd s * (- pk_g2 pk)) =? f0).

End PS.
Arguments mkPk {_}. Arguments mkSk {_}.
Arguments pk_g1 {_}. Arguments pk_y1s {_}. Arguments pk_g2 {_}. Arguments pk_x2 {_}. Arguments pk_y2s {_}.
Arguments sk_x {_}. Arguments sk_ys {_}. Arguments sk_x1 {_}.
Arguments keygen {_}. Arguments pk_wf {_}. Arguments sk_wf {_}. Arguments sign {_}. Arguments randomize {_}.
Arguments blind_and_randomize {_}. Arguments unblind {_}. Arguments blind {_}. Arguments blind_sign {_}.
Arguments is_well_formed {_}. Arguments verify {_}.
