(** * SHA3-256 (Keccak-f[1600], rate 136, suffix 0x06) over bytes represented as [N].
    Used only to EXECUTE the model where the code hashes (revocation locks, channel ids, contexts,
    challenges); theorems treat the hash as a parameter. Validated against hashlib by the checks. *)
From Coq Require Import NArith ZArith List. Import ListNotations. Local Open Scope N_scope.
Definition w64 := 18446744073709551616.
Definition rotl (x : N) (n : N) : N := if n =? 0 then x else N.lor (N.shiftl x n mod w64) (N.shiftr x (64 - n)).
Definition nth_l (l : list N) (i : nat) := nth i l 0.
(* state: list of 25 lanes, index x + 5*y *)
Definition RC : list N := [0x0000000000000001;0x0000000000008082;0x800000000000808A;0x8000000080008000;0x000000000000808B;0x0000000080000001;0x8000000080008081;0x8000000000008009;0x000000000000008A;0x0000000000000088;0x0000000080008009;0x000000008000000A;0x000000008000808B;0x800000000000008B;0x8000000000008089;0x8000000000008003;0x8000000000008002;0x8000000000000080;0x000000000000800A;0x800000008000000A;0x8000000080008081;0x8000000000008080;0x0000000080000001;0x8000000080008008].
Definition ROT : list N := [0;1;62;28;27; 36;44;6;55;20; 3;10;43;25;39; 41;45;15;21;8; 18;2;61;56;14].
Definition idx (x y : nat) : nat := (Nat.modulo x 5 + 5 * (Nat.modulo y 5))%nat.
Definition xs5 := [0;1;2;3;4]%nat.
Definition round (a : list N) (rc : N) : list N :=
  let c := map (fun x => fold_left N.lxor (map (fun y => nth_l a (idx x y)) xs5) 0) xs5 in
  let d := map (fun x => N.lxor (nth_l c (Nat.modulo (x+4)%nat 5)) (rotl (nth_l c (Nat.modulo (x+1)%nat 5)) 1)) xs5 in
  let a1 := flat_map (fun y => map (fun x => N.lxor (nth_l a (idx x y)) (nth_l d x)) xs5) xs5 in
  (* rho + pi: B[y, 2x+3y] = rot(A[x,y]) *)
  let b := flat_map (fun y' => map (fun x' =>
             (* find (x,y) with y = x', 2x+3y = y' mod 5 -> x = (x' + 3*y') mod 5 *)
             let x := Nat.modulo (x' + 3*y')%nat 5 in let y := x' in
             rotl (nth_l a1 (idx x y)) (nth_l ROT (idx x y))) xs5) xs5 in
  let a2 := flat_map (fun y => map (fun x =>
             N.lxor (nth_l b (idx x y)) (N.land (N.lxor (nth_l b (idx (x+1)%nat y)) (w64-1)) (nth_l b (idx (x+2)%nat y)))) xs5) xs5 in
  match a2 with h :: t => N.lxor h rc :: t | [] => [] end.
Definition keccakf (a : list N) := fold_left round RC a.
Definition le64 (bs : list N) : N := fold_right (fun b acc => b + 256 * acc) 0 bs.
Fixpoint chunks (n : nat) (k : nat) (l : list N) : list (list N) :=
  match n with O => [] | S n => firstn k l :: chunks n k (skipn k l) end.
Definition absorb_block (st : list N) (blk : list N) : list N :=
  let lanes := map le64 (chunks 17 8 blk) in
  map (fun p => N.lxor (fst p) (snd p)) (combine st (lanes ++ repeat 0 8)).
Fixpoint absorb (fuel : nat) (st : list N) (msg : list N) : list N :=
  match fuel with O => st | S fuel =>
    if Nat.ltb (length msg) 136 then
      let padlen := (136 - length msg)%nat in
      let pad := if Nat.eqb padlen 1 then [0x86] else [0x06] ++ repeat 0 (padlen - 2)%nat ++ [0x80] in
      keccakf (absorb_block st (msg ++ pad))
    else absorb fuel (keccakf (absorb_block st (firstn 136 msg))) (skipn 136 msg) end.
Definition bytes_of_lane (l : N) : list N := map (fun i => (N.shiftr l (8 * N.of_nat i)) mod 256) [0;1;2;3;4;5;6;7]%nat.
Definition sha3_256 (msg : list N) : list N :=
  firstn 32 (flat_map bytes_of_lane (absorb (S (Nat.div (length msg) 136)) (repeat 0 25) msg)).

(** bytes as Z, for the rest of the model *)
Definition sha3_256_z (msg : list Z) : list Z := map Z.of_N (sha3_256 (map Z.to_N msg)).
