(** * Printing and parsing a channel id ([zkabacus-crypto/src/states.rs]: [Display] = [base64::encode], [FromStr] =
    [base64::decode] followed by the 32-byte length check).  Standard alphabet, '=' padding (RFC 4648 section 4).
    Bytes and characters are integers.  The decoder modelled here is the canonical one (padding required, unused
    trailing bits zero); the base64 crate additionally accepts the unpadded form, which no theorem relies on. *)
From Coq Require Import ZArith List Bool.
Import ListNotations.
Open Scope Z_scope.

Definition b64_char (s : Z) : Z :=
  if s <? 26 then 65 + s else if s <? 52 then 71 + s else if s <? 62 then s - 4 else if s =? 62 then 43 else 47.

Definition b64_val (c : Z) : option Z :=
  if (65 <=? c) && (c <=? 90) then Some (c - 65)
  else if (97 <=? c) && (c <=? 122) then Some (c - 71)
  else if (48 <=? c) && (c <=? 57) then Some (c + 4)
  else if c =? 43 then Some 62
  else if c =? 47 then Some 63
  else None.

Definition pad : Z := 61.

Fixpoint b64_encode (bs : list Z) : list Z :=
  match bs with
  | [] => []
  | [b0] => [b64_char (b0 / 4); b64_char ((b0 mod 4) * 16); pad; pad]
  | [b0; b1] => [b64_char (b0 / 4); b64_char ((b0 mod 4) * 16 + b1 / 16); b64_char ((b1 mod 16) * 4); pad]
  | b0 :: b1 :: b2 :: rest =>
      b64_char (b0 / 4) :: b64_char ((b0 mod 4) * 16 + b1 / 16) :: b64_char ((b1 mod 16) * 4 + b2 / 64)
      :: b64_char (b2 mod 64) :: b64_encode rest
  end.

Definition is_nil {A} (l : list A) : bool := match l with [] => true | _ => false end.

Fixpoint b64_decode (cs : list Z) : option (list Z) :=
  match cs with
  | [] => Some []
  | c0 :: c1 :: c2 :: c3 :: rest =>
      match b64_val c0, b64_val c1 with
      | Some v0, Some v1 =>
          if c2 =? pad then
            if (c3 =? pad) && is_nil rest && (v1 mod 16 =? 0) then Some [v0 * 4 + v1 / 16] else None
          else
            match b64_val c2 with
            | Some v2 =>
                if c3 =? pad then
                  if is_nil rest && (v2 mod 4 =? 0) then Some [v0 * 4 + v1 / 16; (v1 mod 16) * 16 + v2 / 4] else None
                else
                  match b64_val c3, b64_decode rest with
                  | Some v3, Some r => Some (v0 * 4 + v1 / 16 :: (v1 mod 16) * 16 + v2 / 4 :: (v2 mod 4) * 64 + v3 :: r)
                  | _, _ => None
                  end
            | None => None
            end
      | _, _ => None
      end
  | _ => None
  end.

(** [ChannelId]: [Display] and [FromStr] *)
Inductive cid_parse_result := CidOk (bs : list Z) | CidIncorrectLength (n : Z) | CidDecodeError.

Definition cid_print (cid : list Z) : list Z := b64_encode cid.
Definition cid_parse (text : list Z) : cid_parse_result :=
  match b64_decode text with
  | Some bs => if Z.of_nat (length bs) =? 32 then CidOk bs else CidIncorrectLength (Z.of_nat (length bs))
  | None => CidDecodeError
  end.
