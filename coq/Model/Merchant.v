(** * The merchant's payment completion ([merchant.rs], [revlock.rs:218-231]). *)
From ZK Require Import Model.Field Model.Pedersen Model.PS.
Local Open Scope fld_scope.

Section Merchant.
Variable K : Fld.

(** [Unrevoked]: the revocation-lock commitment and the verified blinded new state *)
Record unrevoked := mkU { u_com : K; u_state : K }.

(** [verify_revocation_pair]: opening check under the revocation-commitment parameters (hr, [gr]) *)
Definition revocation_opens (hr gr : K) (u : unrevoked) (lock bf : K) : bool :=
  verify_opening hr [gr] (u_com u) bf [lock].

(** [Unrevoked::complete_payment]: [Ok(token)] or [Err(self)] *)
Definition complete_payment (sk : skey K) (pk : pkey K) (hr gr : K) (u : unrevoked) (urand : K) (lock bf : K)
  : sigt K + unrevoked :=
  if revocation_opens hr gr u lock bf then inl (blind_sign sk pk urand (u_state u)) else inr u.

End Merchant.
Arguments mkU {_}. Arguments u_com {_}. Arguments u_state {_}. Arguments revocation_opens {_}. Arguments complete_payment {_}.
