(** * Generation of keys and parameters over explicit randomness streams
    ([KeyPair::new], [PedersenParameters::new], [RangeConstraintParameters::new]).
    Retry loops consume a stream; [None] = the stream ran out (the Rust loop would keep drawing). *)
From ZK Require Import Model.Field Model.Pedersen Model.PS Model.Range.
Local Open Scope fld_scope.

Section Keygen.
Variable K : Fld.

(** [get_nonzero_scalar] / [random_non_identity]: first non-zero draw, and the rest of the stream *)
Fixpoint next_nonzero (draws : list K) : option (K * list K) :=
  match draws with
  | [] => None
  | x :: rest => if fneqb x f0 then Some (x, rest) else next_nonzero rest
  end.

Fixpoint take_nonzero (n : nat) (draws : list K) : option (list K * list K) :=
  match n with
  | O => Some ([], draws)
  | S n => match next_nonzero draws with
           | None => None
           | Some (x, rest) => match take_nonzero n rest with
                               | None => None
                               | Some (xs, rest') => Some (x :: xs, rest')
                               end
           end
  end.

(** [KeyPair::new]: g1 from the G1 stream, x and y_1..y_N from the scalar stream, g2 from the G2 stream *)
Definition keygen_stream (n : nat) (g1s scalars g2s : list K) : option (skey K * pkey K) :=
  match next_nonzero g1s, take_nonzero (S n) scalars, next_nonzero g2s with
  | Some (g1, _), Some (x :: ys, _), Some (g2, _) => Some (keygen g1 x ys g2)
  | _, _, _ => None
  end.

(** [PedersenParameters::new] *)
Definition pedersen_new_stream (n : nat) (gdraws : list K) : option (K * list K) :=
  match take_nonzero (S n) gdraws with
  | Some (h :: gs, _) => Some (h, gs)
  | _ => None
  end.

(** [RangeConstraintParameters::new]: sign the digits 0..127 with a fresh key; hs are the (non-identity) bases *)
Fixpoint sign_digits (sk : skey K) (i : Z) (hs : list K) : list (sigt K) :=
  match hs with
  | [] => []
  | h :: hs => sign sk h [of_Z i] :: sign_digits sk (i + 1)%Z hs
  end.
Definition range_params_new (sk : skey K) (pk : pkey K) (hs : list K) : rparams K := mkRP (sign_digits sk 0%Z hs) pk.

End Keygen.
Arguments next_nonzero {_}. Arguments take_nonzero {_}. Arguments keygen_stream {_}. Arguments pedersen_new_stream {_}.
Arguments sign_digits {_}. Arguments range_params_new {_}.
