(** * Identifiers, nonces, revocation pairs ([states.rs], [nonce.rs], [revlock.rs]).
    The hash is a parameter [H : list Z -> list Z] (bytes to bytes). *)
From ZK Require Import Model.Field.
Open Scope Z_scope.

(** little-endian bytes <-> integer *)
Fixpoint le_to_Z (bs : list Z) : Z :=
  match bs with [] => 0 | b :: bs => b + 256 * le_to_Z bs end.
Fixpoint Z_to_le (n : nat) (z : Z) : list Z :=
  match n with O => [] | S n => (z mod 256) :: Z_to_le n (z / 256) end.

Section Ids.
Variable K : Fld.
Variable q : Z.                         (* the scalar modulus: canonical encodings are < q *)
Variable H : list Z -> list Z.          (* SHA3-256 *)
Variable close_tag : K.

(** [ChannelId::to_scalar] / [ChallengeBuilder::finish]: [Scalar::from_raw] of four LE limbs = reduction mod q *)
Definition bytes_to_scalar_reduced (bs : list Z) : K := of_Z (le_to_Z bs).

(** [Scalar::from_bytes]: only canonical encodings *)
Definition bytes_to_scalar_canonical (bs : list Z) : option K :=
  if le_to_Z bs <? q then Some (of_Z (le_to_Z bs)) else None.

(** [ChannelId::new]: SHA3( merchant randomness, customer randomness, pk bytes, merchant account, customer account ) *)
Definition channel_id (mr cr pkb macct cacct : list Z) : list Z := H (mr ++ cr ++ pkb ++ macct ++ cacct).

(** [Context::new] *)
Definition context (bs : list Z) : list Z := H bs.

(** [first_accepted p draws]: the retry loops ([Nonce::new], [get_nonzero_scalar]) over an explicit stream *)
Fixpoint first_accepted {A} (p : A -> bool) (draws : list A) : option A :=
  match draws with
  | [] => None
  | x :: draws => if p x then Some x else first_accepted p draws
  end.

(** [Nonce::new]: redraw while the sample is the close tag.  [Nonce::try_from] (decoder): reject the close tag. *)
Definition nonce_ok (n : K) : bool := fneqb n close_tag.
Definition nonce_new (draws : list K) : option K := first_accepted nonce_ok draws.
Definition nonce_decode (n : K) : option K := if nonce_ok n then Some n else None.

(** revocation pairs: lock = canonical scalar of SHA3( secret bytes ++ [index] ) *)
Definition lock_of (enc : K -> list Z) (secret : K) (index : Z) : option K :=
  bytes_to_scalar_canonical (H (enc secret ++ [index])).

(** [RevocationPair::new]: first index (0..255) whose digest is canonical *)
Fixpoint revpair_search (enc : K -> list Z) (secret : K) (fuel : nat) (index : Z) : option (K * K * Z) :=
  match fuel with
  | O => None
  | S fuel => match lock_of enc secret index with
              | Some l => Some (l, secret, index)
              | None => revpair_search enc secret fuel (index + 1)
              end
  end.
Definition revpair_new (enc : K -> list Z) (secret : K) : option (K * K * Z) := revpair_search enc secret 256 0.

(** decoder [TryFrom<UncheckedRevocationPair>] *)
Definition revpair_decode (enc : K -> list Z) (lock secret : K) (index : Z) : option (K * K * Z) :=
  match lock_of enc secret index with
  | Some l => if feqb l lock then Some (l, secret, index) else None
  | None => None
  end.

End Ids.
Arguments bytes_to_scalar_reduced {_}. Arguments bytes_to_scalar_canonical {_}. Arguments first_accepted {_}.
Arguments nonce_ok {_}. Arguments nonce_new {_}. Arguments nonce_decode {_}. Arguments lock_of {_}.
Arguments revpair_search {_}. Arguments revpair_new {_}. Arguments revpair_decode {_}.
