(** * Schnorr proofs of knowledge ([zkchannels-crypto/src/proofs/{commitment,signature,signaturerequest}.rs]).

    Random values are named arguments (DESIGN.md 3.4): [bf] the message blinding factor, [kbf] the
    commitment scalar of the blinding factor, [ks] the commitment scalars of the message (after the
    caller-supplied ones have been merged in by [merge_opts]), [r] the signature randomiser. *)
From ZK Require Import Model.Field Model.Pedersen Model.PS.
Local Open Scope fld_scope.

Section Schnorr.
Variable K : Fld.

(** [conjunction_commitment_scalars]: [Some v] is used as is, [None] takes the next fresh draw *)
Fixpoint merge_opts (opts : list (option K)) (fresh : list K) : list K :=
  match opts with
  | [] => []
  | Some x :: opts => x :: merge_opts opts fresh
  | None :: opts => match fresh with
                    | k :: fresh => k :: merge_opts opts fresh
                    | [] => f0 :: merge_opts opts []
                    end
  end.

(** ** commitment proof *)
Record cproof := mkCP { cp_C : K; cp_T : K; cp_rbf : K; cp_rs : list K }.

(** [generate_proof_commitments]: the commitment and the commitment to the commitment scalars *)
Definition cp_commit_phase (h : K) (gs ms : list K) (bf kbf : K) (ks : list K) : K * K :=
  (commit h gs ms bf, commit h gs ks kbf).

(** [generate_proof_response] *)
Definition cp_respond (c : K) (ms : list K) (bf kbf : K) (ks : list K) (CT : K * K) : cproof :=
  mkCP (fst CT) (snd CT) (c * bf + kbf) (map2 (fun m k => c * m + k) ms ks).

Definition cp_prove (h : K) (gs ms : list K) (bf kbf : K) (ks : list K) (c : K) : cproof :=
  cp_respond c ms bf kbf ks (cp_commit_phase h gs ms bf kbf ks).

(** [verify_knowledge_of_opening]:  commit(responses) == T + C * c *)
Definition cp_verify (h : K) (gs : list K) (p : cproof) (c : K) : bool :=
  commit h gs (cp_rs p) (cp_rbf p) =? cp_T p + cp_C p * c.

(** what a proof (or its builder) feeds to the challenge: C, T *)
Definition cp_transcript (p : cproof) : list K := [cp_C p; cp_T p].
Definition cp_builder_transcript (CT : K * K) : list K := [fst CT; snd CT].

(** ** signature-request proof: a commitment proof under (g1, Y1..YN) *)
Definition req_prove (pk : pkey K) (ms : list K) (bf kbf : K) (ks : list K) (c : K) : cproof :=
  cp_prove (pk_g1 pk) (pk_y1s pk) ms bf kbf ks c.

(** returns the blind-signable commitment *)
Definition req_verify (pk : pkey K) (p : cproof) (c : K) : option K :=
  if cp_verify (pk_g1 pk) (pk_y1s pk) p c then Some (cp_C p) else None.

(** ** signature proof: blinded signature + commitment proof under (g2, Y~1..Y~N) *)
Record sproof := mkSP { sp_sig : sigt K; sp_cp : cproof }.

Definition sig_prove (pk : pkey K) (ms : list K) (s : sigt K) (bf kbf : K) (ks : list K) (r c : K) : sproof :=
  mkSP (blind_and_randomize r bf s) (cp_prove (pk_g2 pk) (pk_y2s pk) ms bf kbf ks c).

(** [verify_knowledge_of_signature] *)
Definition sig_verify (pk : pkey K) (p : sproof) (c : K) : bool :=
  is_well_formed (sp_sig p)
  && cp_verify (pk_g2 pk) (pk_y2s pk) (sp_cp p) c
  && ((fst (sp_sig p) * (pk_x2 pk + cp_C (sp_cp p)) + snd (sp_sig p) * (- pk_g2 pk)) =? f0).

Definition sp_transcript (p : sproof) : list K :=
  [fst (sp_sig p); snd (sp_sig p)] ++ cp_transcript (sp_cp p).

End Schnorr.
Arguments merge_opts {_}. Arguments mkCP {_}. Arguments cp_C {_}. Arguments cp_T {_}. Arguments cp_rbf {_}. Arguments cp_rs {_}.
Arguments cp_commit_phase {_}. Arguments cp_respond {_}. Arguments cp_prove {_}. Arguments cp_verify {_}.
Arguments cp_transcript {_}. Arguments cp_builder_transcript {_}.
Arguments req_prove {_}. Arguments req_verify {_}.
Arguments mkSP {_}. Arguments sp_sig {_}. Arguments sp_cp {_}. Arguments sig_prove {_}. Arguments sig_verify {_}.
Arguments sp_transcript {_}.
