(** * The BLS12-381 scalar modulus is prime (Lucas certificate, standard library only). *)
From Coq Require Import ZArith Znumtheory Zpow_facts Lia List Bool.
Import ListNotations. Open Scope Z_scope.

(* ---------- 1. trial division ---------- *)
Fixpoint no_div (fuel : nat) (d n : Z) : bool :=
  match fuel with
  | O => false
  | S f => if n <? d * d then true else if n mod d =? 0 then false else no_div f (d + 1) n
  end.

Lemma no_div_sound fuel : forall d n, 0 < d -> no_div fuel d n = true ->
  forall k, d <= k -> k * k <= n -> ~ (k | n).
Proof.
  induction fuel as [|f IH]; intros d n Hd H k Hk Hkk Hdiv; cbn in H; [discriminate|].
  destruct (n <? d * d) eqn:E1.
  - apply Z.ltb_lt in E1. nia.
  - destruct (n mod d =? 0) eqn:E2; [discriminate|].
    apply Z.eqb_neq in E2.
    destruct (Z.eq_dec k d) as [->|Hne].
    + apply E2. apply Zdivide_mod; assumption.
    + apply (IH (d + 1) n) with (k := k); try lia; assumption.
Qed.

Lemma prime_trial fuel n : 1 < n -> no_div fuel 2 n = true -> prime n.
Proof.
  intros Hn H. apply prime_alt. split; [exact Hn|].
  intros m Hm [c Hc].
  assert (Hcpos : 1 < c < n) by nia.
  destruct (Z_le_gt_dec (m * m) n) as [Hle|Hgt].
  - apply (no_div_sound fuel 2 n ltac:(lia) H m); try lia. exists c; exact Hc.
  - assert (c * c <= n) by nia.
    apply (no_div_sound fuel 2 n ltac:(lia) H c); try lia. exists m; lia.
Qed.

(* ---------- 2. a divisor > 1 of a factored number is hit by one of the listed primes ---------- *)
Definition fprod (fs : list (Z * Z)) : Z := fold_right (fun pe acc => fst pe ^ snd pe * acc) 1 fs.

Lemma factor_hit fs : Forall (fun pe => prime (fst pe) /\ 0 <= snd pe) fs ->
  forall k, 1 < k -> (k | fprod fs) -> exists pe, In pe fs /\ (fst pe | k).
Proof.
  induction fs as [|[p e] fs IH]; intros HF k Hk Hdiv; cbn in *.
  - apply Z.divide_1_r_nonneg in Hdiv; lia.
  - inversion HF as [|? ? [Hp He] HF']; subst; cbn in *.
    destruct (Zdivide_dec p k) as [Hpk|Hnpk].
    + exists (p, e); cbn; auto.
    + assert (rel_prime k (p ^ e)).
      { apply rel_prime_Zpower_r; [exact He|]. apply rel_prime_sym, prime_rel_prime; assumption. }
      assert (k | fprod fs) by (eapply Gauss; eauto).
      destruct (IH HF' k Hk H0) as [pe [Hin Hd]]. exists pe; auto.
Qed.

Lemma least (Q : Z -> Prop) (Qdec : forall z, {Q z} + {~ Q z}) :
  forall k, 0 < k -> Q k -> exists d, 0 < d <= k /\ Q d /\ forall e, 0 < e < d -> ~ Q e.
Proof.
  assert (S : forall m : nat, (forall e, 0 < e <= Z.of_nat m -> ~ Q e) \/
            (exists d, 0 < d <= Z.of_nat m /\ Q d /\ forall e, 0 < e < d -> ~ Q e)).
  { induction m as [|m [IH|IH]].
    - left; intros; lia.
    - destruct (Qdec (Z.of_nat (S m))) as [Hq|Hq].
      + right. exists (Z.of_nat (S m)). split; [lia|]. split; [exact Hq|]. intros e He. apply IH; lia.
      + left. intros e He. destruct (Z.eq_dec e (Z.of_nat (S m))) as [->|Hne]; [exact Hq|]. apply IH; lia.
    - right. destruct IH as [d [Hd [Hq Hm]]]. exists d. split; [lia|]. split; assumption. }
  intros k Hk HQ. destruct (S (Z.to_nat k)) as [H|[d [Hd H]]].
  - exfalso. apply (H k); [lia|exact HQ].
  - exists d. split; [lia|exact H].
Qed.

Section Lucas.
Variables n a : Z.
Hypothesis Hn : 1 < n.
Variable fs : list (Z * Z).
Hypothesis Hfs : Forall (fun pe => prime (fst pe) /\ 0 <= snd pe) fs.
Hypothesis Hprod : fprod fs = n - 1.
Hypothesis H1 : a ^ (n - 1) mod n = 1.
Hypothesis H2 : forall pe, In pe fs -> rel_prime (a ^ ((n - 1) / fst pe) mod n - 1) n.

Section Divisor.
Variable r : Z.
Hypothesis Hr : 1 < r.
Hypothesis Hrn : (r | n).

Lemma modr x : (x mod n) mod r = x mod r.
Proof. symmetry. apply Zmod_div_mod; [lia|lia|exact Hrn]. Qed.

Definition P e := a ^ e mod r = 1.

Lemma P_top : P (n - 1).
Proof. unfold P. rewrite <- modr, H1. apply Z.mod_1_l; lia. Qed.

Lemma pow_add_mod i j : 0 <= i -> 0 <= j -> a ^ (i + j) mod r = ((a ^ i mod r) * (a ^ j mod r)) mod r.
Proof. intros. rewrite Z.pow_add_r by assumption. apply Z.mul_mod; lia. Qed.

Lemma pow_mul_one d k : 0 <= d -> 0 <= k -> P d -> P (d * k).
Proof. unfold P; intros Hd Hk HP. rewrite Z.pow_mul_r by assumption.
  rewrite Zpower_mod by lia. rewrite HP. rewrite Z.pow_1_l by assumption. apply Z.mod_1_l; lia. Qed.

Lemma order_exists : exists d, 0 < d <= n - 1 /\ P d /\ forall e, 0 < e < d -> ~ P e.
Proof. apply least; [intro z; apply Z.eq_dec | lia | exact P_top]. Qed.

Lemma order_is_top d : 0 < d <= n - 1 -> P d -> (forall e, 0 < e < d -> ~ P e) -> d = n - 1.
Proof.
  intros Hd HP Hmin.
  (* d | n-1 *)
  assert (Hdiv : (d | n - 1)).
  { apply Zmod_divide; [lia|].
    pose proof (Z.div_mod (n - 1) d ltac:(lia)) as E.
    pose proof (Z.mod_pos_bound (n - 1) d ltac:(lia)) as B.
    assert (0 <= (n - 1) / d) by (apply Z.div_pos; lia).
    destruct (Z.eq_dec ((n - 1) mod d) 0) as [|Hne]; [assumption|exfalso].
    apply (Hmin ((n - 1) mod d)); [lia|].
    pose proof P_top as T. unfold P in T. rewrite E in T.
    rewrite pow_add_mod in T by nia.
    pose proof (pow_mul_one d ((n - 1) / d) ltac:(lia) ltac:(lia) HP) as M. unfold P in M.
    rewrite M in T. rewrite Z.mul_1_l in T. rewrite Z.mod_mod in T by lia. exact T. }
  destruct Hdiv as [k Hk].
  assert (Hkpos : 0 < k) by nia.
  destruct (Z.eq_dec k 1) as [->|Hk1]; [lia|exfalso].
  assert (Hk2 : 1 < k) by lia.
  assert (Hkd : (k | fprod fs)) by (rewrite Hprod; exists d; lia).
  destruct (factor_hit fs Hfs k Hk2 Hkd) as [[p e] [Hin [k' Hk']]]. cbn in Hk'.
  rewrite Forall_forall in Hfs. destruct (Hfs _ Hin) as [Hp _]. cbn in Hp.
  assert (Hp2 : 1 < p) by (destruct Hp; lia).
  assert (Hk'pos : 0 < k') by nia.
  assert (E : (n - 1) / p = d * k').
  { rewrite Hk, Hk'. replace (k' * p * d) with (d * k' * p) by ring. apply Z.div_mul; lia. }
  pose proof (H2 _ Hin) as R. cbn in R. rewrite E in R.
  pose proof (pow_mul_one d k' ltac:(lia) ltac:(lia) HP) as M. unfold P in M.
  assert (Hd1 : (r | a ^ (d * k') mod n - 1)).
  { apply Zmod_divide_minus; [lia|]. rewrite modr. exact M. }
  destruct R as [_ _ R]. specialize (R r Hd1 Hrn).
  apply Z.divide_1_r_nonneg in R; lia.
Qed.

Definition f (i : nat) := a ^ Z.of_nat i mod r.

Lemma order_le d : 0 < d -> P d -> (forall e, 0 < e < d -> ~ P e) -> d <= r - 1.
Proof.
  intros Hd HP Hmin.
  set (dn := Z.to_nat d).
  set (L := map f (seq 0 dn)).
  set (T := map Z.of_nat (seq 1 (Z.to_nat (r - 1)))).
  assert (Hnz : forall i, (i < dn)%nat -> f i <> 0).
  { intros i Hi Hz. unfold P in HP.
    replace d with (Z.of_nat i + (d - Z.of_nat i)) in HP by lia.
    rewrite pow_add_mod in HP by lia. unfold f in Hz. rewrite Hz in HP.
    rewrite Z.mul_0_l, Z.mod_0_l in HP by lia. discriminate. }
  assert (Hinj : forall i j, (i < j)%nat -> (j < dn)%nat -> f i <> f j).
  { intros i j Hij Hj Heq.
    apply (Hmin (Z.of_nat i + (d - Z.of_nat j))); [lia|].
    unfold P. rewrite pow_add_mod by lia. fold (f i). rewrite Heq. unfold f.
    rewrite <- pow_add_mod by lia. replace (Z.of_nat j + (d - Z.of_nat j)) with d by lia. exact HP. }
  assert (HND : NoDup L).
  { unfold L. assert (G : forall s len, (s + len <= dn)%nat -> NoDup (map f (seq s len))).
    { intros s len; revert s; induction len as [|len IH]; intros s Hs; cbn; constructor.
      - intros Hin. apply in_map_iff in Hin. destruct Hin as [j [Hj Hjin]]. apply in_seq in Hjin.
        apply (Hinj s j); [lia|lia|]. symmetry; exact Hj.
      - apply IH; lia. }
    apply G; lia. }
  assert (Hincl : incl L T).
  { intros x Hx. unfold L in Hx. apply in_map_iff in Hx. destruct Hx as [i [Hi Hin]].
    apply in_seq in Hin. unfold T. apply in_map_iff. exists (Z.to_nat x).
    pose proof (Z.mod_pos_bound (a ^ Z.of_nat i) r ltac:(lia)) as B. fold (f i) in B.
    pose proof (Hnz i ltac:(lia)). rewrite Hi in *.
    split; [lia|]. apply in_seq. lia. }
  pose proof (NoDup_incl_length HND Hincl) as Hlen.
  unfold L, T in Hlen. rewrite !map_length, !seq_length in Hlen. lia.
Qed.

Lemma divisor_is_n : r = n.
Proof.
  destruct order_exists as [d [Hd [HP Hmin]]].
  pose proof (order_is_top d Hd HP Hmin) as E.
  pose proof (order_le d ltac:(lia) HP Hmin) as L.
  assert (r <= n) by (apply Z.divide_pos_le; [lia|exact Hrn]). lia.
Qed.
End Divisor.

Theorem lucas : prime n.
Proof.
  apply prime_alt. split; [exact Hn|]. intros m Hm Hdiv.
  pose proof (divisor_is_n m ltac:(lia) Hdiv). lia.
Qed.
End Lucas.

Definition q_bls : Z := 0x73eda753299d7d483339d80809a1d80553bda402fffe5bfeffffffff00000001.
Definition q_factors : list (Z * Z) :=
  [(2,32);(3,1);(11,1);(19,1);(10177,1);(125527,1);(859267,1);(906349,2);(2508409,1);(2529403,1);(52437899,1);(254760293,2)].

Ltac small_prime := apply (prime_trial (Z.to_nat 20000)); [lia | vm_compute; reflexivity].

Lemma q_factors_prime : Forall (fun pe => prime (fst pe) /\ 0 <= snd pe) q_factors.
Proof. unfold q_factors. repeat (constructor; [cbn [fst snd]; split; [small_prime | lia] |]). constructor. Qed.

Lemma q_factors_prod : fprod q_factors = q_bls - 1.
Proof. vm_compute. reflexivity. Qed.

Theorem q_bls_prime : prime q_bls.
Proof.
  apply (lucas q_bls 7 ltac:(unfold q_bls; lia) q_factors q_factors_prime q_factors_prod).
  - rewrite <- Zpow_mod_correct by (unfold q_bls; lia). vm_compute. reflexivity.
  - intros pe Hin. rewrite <- Zpow_mod_correct by (unfold q_bls; lia).
    apply Zgcd_1_rel_prime.
    unfold q_factors in Hin. cbn [In] in Hin.
    repeat (destruct Hin as [<-|Hin]; [vm_compute; reflexivity|]). destruct Hin.
Qed.

From ZK Require Import Model.Field Model.Zq.
(** The executable scalar field of the model. *)
Definition Fq : Fld := ZqFld q_bls q_bls_prime.
Definition fq (z : Z) : Fq := zq_of_Z q_bls z.
