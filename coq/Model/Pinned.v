(** * The PINNED (pre-repair) behaviour of the defects repaired in /repo (DESIGN.md section 7), kept as a faithful
    model so that the record of what was wrong is itself machine-checked.  D1: the revealed commitment scalars of
    EstablishProof / PayProof were not part of the Fiat-Shamir transcript. *)
From ZK Require Import Model.Field Model.Pedersen Model.PS Model.Schnorr Model.Range Model.Abacus.
Local Open Scope fld_scope.

Section Pinned.
Variable K : Fld.
Variable close_tag : K.
Variable chal : list (atom K) -> K.

Definition establish_transcript_pinned (pk : pkey K) (cid cb mb : K) (p : eproof K) (ctx : list Z) : list (atom K) :=
  pk_chunks pk ++ [AS cid; AS close_tag; AS cb; AS mb]
  ++ cp1_chunks (e_sp p) ++ cp1_chunks (e_csp p)
  ++ [AB ctx].

Definition establish_verify_pinned (pk : pkey K) (cid cb mb : K) (p : eproof K) (ctx : list Z) : option (K * K) :=
  establish_verify_with close_tag pk cid cb mb p (chal (establish_transcript_pinned pk cid cb mb p ctx)).

(** the forger: commit to ANY hidden messages honestly, learn the challenge (it does not depend on the revealed
    scalars), answer honestly for the hidden messages, and only then choose the four revealed scalars k := r - c*v *)
Definition forge (pk : pkey K) (cid cb mb : K) (ms mc : list K) (bfs kbfs : K) (ks : list K) (bfc kbfc : K) (kc : list K)
           (ctx : list Z) : eproof K :=
  let first := mkEP f0 f0 f0 f0
                 (mkCP (blind pk ms bfs) (commit (pk_g1 pk) (pk_y1s pk) ks kbfs) f0 [])
                 (mkCP (blind pk mc bfc) (commit (pk_g1 pk) (pk_y1s pk) kc kbfc) f0 []) in
  let c := chal (establish_transcript_pinned pk cid cb mb first ctx) in
  let sp := req_prove pk ms bfs kbfs ks c in
  let csp := req_prove pk mc bfc kbfc kc c in
  mkEP (rs_at csp 0 - c * cid) (rs_at csp 1 - c * close_tag) (rs_at csp 3 - c * cb) (rs_at csp 4 - c * mb) sp csp.

Definition pay_transcript_pinned (pk : pkey K) (rp : rparams K) (nonce : K) (p : pproof K) (ctx : list Z) : list (atom K) :=
  pk_chunks pk ++ rp_chunks rp ++ [AS nonce; AS close_tag]
  ++ cp1_chunks (p_rev p) ++ cp1_chunks (p_sp p) ++ cp1_chunks (p_csp p)
  ++ sp_chunks (p_tok p) ++ range_chunks (p_crange p) ++ range_chunks (p_mrange p)
  ++ [AB ctx].

End Pinned.
Arguments establish_transcript_pinned {_}. Arguments establish_verify_pinned {_}. Arguments forge {_}.
Arguments pay_transcript_pinned {_}.
