(** * The customer state machine ([zkabacus-crypto/src/customer.rs]) and its closing messages.

    A merchant reply is an ARBITRARY pair of G1 elements: this one quantifier covers every fault that can be
    injected (garbage, signatures on other states, other keys, replays, wrong message type, identity). *)
From ZK Require Import Model.Field Model.Pedersen Model.PS Model.Abacus Model.Amount.
Local Open Scope fld_scope.

Section Customer.
Variable K : Fld.
Variable close_tag : K.

(** [State] (the revocation secret travels with the lock; it plays no algebraic role) *)
Record cstate := mkCS { s_cid : K; s_nonce : K; s_lock : K; s_cb : Z; s_mb : Z }.
Definition smsg (s : cstate) : list K := state_msg (s_cid s) (s_nonce s) (s_lock s) (of_Z (s_cb s)) (of_Z (s_mb s)).
Definition cmsg (s : cstate) : list K := close_msg close_tag (s_cid s) (s_lock s) (of_Z (s_cb s)) (of_Z (s_mb s)).

Inductive stage :=
| Requested (s : cstate) (bfc bft : K)
| Inactive (s : cstate) (bft : K) (csig : sigt K)
| Ready (s : cstate) (tok csig : sigt K)
| Started (new old : cstate) (bfr bft bfc : K) (ocsig : sigt K)
| Locked (s : cstate) (bft : K) (csig : sigt K).

(** what a step hands to the caller besides the next stage *)
Inductive output :=
| ONone
| ORefused                                 (* [Err(self)]: the stage is returned unchanged *)
| OStart (nonce : K)                       (* StartMessage: the revealed old nonce (+ the pay proof) *)
| OLockMsg (lock : K) (bfr : K)            (* LockMessage: the old revocation pair and its blinding factor *)
| OError (e : error).                      (* [Err((self, error))] of [Ready::start] *)

Inductive event :=
| EvComplete (reply : sigt K)              (* Requested::complete(closing signature) *)
| EvActivate (reply : sigt K)              (* Inactive::activate(pay token) *)
| EvStart (amount : Z) (nonce' lock' bfr bft bfc : K)   (* Ready::start with its fresh randomness *)
| EvLock (reply : sigt K)                  (* Started::lock(closing signature) *)
| EvUnlock (reply : sigt K).               (* Locked::unlock(pay token) *)

Definition step (pk : pkey K) (st : stage) (ev : event) : stage * output :=
  match st, ev with
  | Requested s bfc bft, EvComplete r =>
      let cs := unblind bfc r in
      if verify pk (cmsg s) cs then (Inactive s bft cs, ONone) else (st, ORefused)
  | Inactive s bft cs, EvActivate r =>
      let t := unblind bft r in
      if verify pk (smsg s) t then (Ready s t cs, ONone) else (st, ORefused)
  | Ready s tok cs, EvStart a nonce' lock' bfr bft bfc =>
      match apply_payment (s_cb s) (s_mb s) a with
      | Err e => (st, OError e)
      | Ok (cb', mb') => (Started (mkCS (s_cid s) nonce' lock' cb' mb') s bfr bft bfc cs, OStart (s_nonce s))
      end
  | Started new old bfr bft bfc ocs, EvLock r =>
      let cs := unblind bfc r in
      if verify pk (cmsg new) cs then (Locked new bft cs, OLockMsg (s_lock old) bfr) else (st, ORefused)
  | Locked s bft cs, EvUnlock r =>
      let t := unblind bft r in
      if verify pk (smsg s) t then (Ready s t cs, ONone) else (st, ORefused)
  | _, _ => (st, ORefused)      (* not expressible in Rust: the typestate API has no such call *)
  end.

(** [close()] of each stage: the randomised closing signature and the close state it is for *)
Definition close_of (st : stage) (rho : K) : option (sigt K * cstate) :=
  match st with
  | Requested _ _ _ => None
  | Inactive s _ cs => Some (randomize rho cs, s)
  | Ready s _ cs => Some (randomize rho cs, s)
  | Started _ old _ _ _ ocs => Some (randomize rho ocs, old)
  | Locked s _ cs => Some (randomize rho cs, s)
  end.

(** merchant side [check_close_signature] *)
Definition check_close (pk : pkey K) (sig : sigt K) (s : cstate) : bool := verify pk (cmsg s) sig.

(** ** the system: customer stage, ideal ledger, disclosed locks *)
Record sys := mkSys { sy_stage : stage; sy_cb : Z; sy_mb : Z; sy_disclosed : list K }.

Definition sys_step (pk : pkey K) (y : sys) (ev : event) : sys * output :=
  let '(st', out) := step pk (sy_stage y) ev in
  match out, st' with
  | OLockMsg l _, Locked s _ _ => (mkSys st' (s_cb s) (s_mb s) (l :: sy_disclosed y), out)
  | _, _ => (mkSys st' (sy_cb y) (sy_mb y) (sy_disclosed y), out)
  end.

Fixpoint run (pk : pkey K) (y : sys) (evs : list event) : sys :=
  match evs with
  | [] => y
  | ev :: evs => run pk (fst (sys_step pk y ev)) evs
  end.

(** the state a close would use, with its signature *)
Definition closing_view (st : stage) : option (sigt K * cstate) :=
  match st with
  | Requested _ _ _ => None
  | Inactive s _ cs => Some (cs, s)
  | Ready s _ cs => Some (cs, s)
  | Started _ old _ _ _ ocs => Some (ocs, old)
  | Locked s _ cs => Some (cs, s)
  end.

End Customer.
Arguments mkCS {_}. Arguments s_cid {_}. Arguments s_nonce {_}. Arguments s_lock {_}. Arguments s_cb {_}. Arguments s_mb {_}.
Arguments smsg {_}. Arguments cmsg {_}. Arguments Requested {_}. Arguments Inactive {_}. Arguments Ready {_}.
Arguments Started {_}. Arguments Locked {_}. Arguments ONone {_}. Arguments ORefused {_}. Arguments OStart {_}.
Arguments OLockMsg {_}. Arguments OError {_}. Arguments EvComplete {_}. Arguments EvActivate {_}. Arguments EvStart {_}.
Arguments EvLock {_}. Arguments EvUnlock {_}. Arguments step {_}. Arguments close_of {_}. Arguments check_close {_}.
Arguments mkSys {_}. Arguments sy_stage {_}. Arguments sy_cb {_}. Arguments sy_mb {_}. Arguments sy_disclosed {_}.
Arguments sys_step {_}. Arguments run {_}. Arguments closing_view {_}.
