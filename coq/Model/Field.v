(** * Scalars: an arbitrary field, bundled.

    Every algebraic definition and theorem of the model is stated over an arbitrary
    [K : Fld]; the executable instance is [Zq q_bls] (files [Zq.v], [QBls.v]). *)
From Coq Require Export Field Ring List Bool ZArith Lia.
Export ListNotations.

Record Fld := mkFld {
  F :> Type;
  f0 : F;
  f1 : F;
  fadd : F -> F -> F;
  fmul : F -> F -> F;
  fsub : F -> F -> F;
  fopp : F -> F;
  fdiv : F -> F -> F;
  finv : F -> F;
  feqb : F -> F -> bool;
  Fth : field_theory f0 f1 fadd fmul fsub fopp fdiv finv eq;
  feqb_ok : forall a b, feqb a b = true <-> a = b
}.

Arguments f0 {_}. Arguments f1 {_}.
Arguments fadd {_}. Arguments fmul {_}. Arguments fsub {_}. Arguments fopp {_}.
Arguments fdiv {_}. Arguments finv {_}. Arguments feqb {_}.

Declare Scope fld_scope.
Delimit Scope fld_scope with fld.
Infix "+" := fadd : fld_scope.
Infix "*" := fmul : fld_scope.
Infix "-" := fsub : fld_scope.
Infix "/" := fdiv : fld_scope.
Notation "- x" := (fopp x) : fld_scope.
Infix "=?" := feqb : fld_scope.

Section Basic.
Variable K : Fld.
Local Open Scope fld_scope.

(** inner product of two lists (truncating at the shorter one, like [zip] in the code) *)
Fixpoint ip (gs ms : list K) : K :=
  match gs, ms with
  | g :: gs, m :: ms => g * m + ip gs ms
  | _, _ => f0
  end.

Fixpoint map2 {A B C} (f : A -> B -> C) (a : list A) (b : list B) : list C :=
  match a, b with
  | x :: a, y :: b => f x y :: map2 f a b
  | _, _ => []
  end.

(** [Scalar::from(u64)] etc.: the image of an integer. *)
Fixpoint of_pos (p : positive) : K :=
  match p with
  | xH => f1
  | xO p => let x := of_pos p in x + x
  | xI p => let x := of_pos p in x + x + f1
  end.
Definition of_Z (z : Z) : K :=
  match z with
  | Z0 => f0
  | Zpos p => of_pos p
  | Zneg p => - of_pos p
  end.

Definition fneqb (a b : K) : bool := negb (a =? b).

(** list equality by [feqb] *)
Fixpoint list_feqb (a b : list K) : bool :=
  match a, b with
  | [], [] => true
  | x :: a, y :: b => (x =? y) && list_feqb a b
  | _, _ => false
  end.

End Basic.
Arguments ip {_}. Arguments of_Z {_}. Arguments of_pos {_}. Arguments fneqb {_}. Arguments list_feqb {_}.

(** replace position [j] of a list (no change when out of range) *)
Fixpoint upd {A} (j : nat) (v : A) (l : list A) : list A :=
  match l, j with
  | [], _ => []
  | _ :: l, O => v :: l
  | x :: l, S j => x :: upd j v l
  end.
