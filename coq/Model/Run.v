(** Entry points for the correspondence check: every function takes integers and returns a
    [list Z] (booleans as 0/1, scalars and discrete logs as canonical representatives), so that
    the driver can print one result per case and parse it without knowing Coq's syntax.
    Nothing here is used by a theorem; it only exposes the model's own definitions. *)
From ZK Require Import Model.Field Model.Zq Model.QBls Model.Pedersen Model.PS.
Open Scope Z_scope.

Definition K := Fq.
Definition v (x : K) : Z := val x.
Definition vs (xs : list K) : list Z := map v xs.
Definition b2z (b : bool) : Z := if b then 1 else 0.
Definition fqs (zs : list Z) : list K := map fq zs.

(** Pedersen *)
Definition r_commit (h : Z) (gs ms : list Z) (bf : Z) : list Z :=
  [v (commit (fq h) (fqs gs) (fqs ms) (fq bf))].
Definition r_open (h : Z) (gs : list Z) (c bf : Z) (ms : list Z) : list Z :=
  [b2z (verify_opening (fq h) (fqs gs) (fq c) (fq bf) (fqs ms))].

(** Pointcheval-Sanders.  A public key is given as g1, y1s, g2, x2, y2s; a secret key as x, ys, x1. *)
Definition mk_pk (g1 : Z) (y1s : list Z) (g2 x2 : Z) (y2s : list Z) : pkey K :=
  mkPk (fq g1) (fqs y1s) (fq g2) (fq x2) (fqs y2s).
Definition mk_sk (x : Z) (ys : list Z) (x1 : Z) : skey K := mkSk (fq x) (fqs ys) (fq x1).
Definition sig (s1 s2 : Z) : sigt K := (fq s1, fq s2).
Definition vsig (s : sigt K) : list Z := [v (fst s); v (snd s)].

Definition r_keygen (g1 x : Z) (ys : list Z) (g2 : Z) : list Z :=
  let kp := keygen (fq g1) (fq x) (fqs ys) (fq g2) in
  let sk := fst kp in let pk := snd kp in
  [v (sk_x1 sk); v (pk_x2 pk)] ++ vs (pk_y1s pk) ++ vs (pk_y2s pk) ++ [b2z (pk_wf pk); b2z (sk_wf sk)].
Definition r_sign (sk : skey K) (h : Z) (ms : list Z) : list Z := vsig (sign sk (fq h) (fqs ms)).
Definition r_verify (pk : pkey K) (ms : list Z) (s1 s2 : Z) : list Z :=
  [b2z (verify pk (fqs ms) (sig s1 s2))].
Definition r_randomize (r s1 s2 : Z) : list Z := vsig (randomize (fq r) (sig s1 s2)).
Definition r_bar (r bf s1 s2 : Z) : list Z := vsig (blind_and_randomize (fq r) (fq bf) (sig s1 s2)).
Definition r_unblind (bf s1 s2 : Z) : list Z := vsig (unblind (fq bf) (sig s1 s2)).
Definition r_blind (pk : pkey K) (ms : list Z) (bf : Z) : list Z := [v (blind pk (fqs ms) (fq bf))].
Definition r_blind_sign (sk : skey K) (pk : pkey K) (u c : Z) : list Z :=
  vsig (blind_sign sk pk (fq u) (fq c)).

(** a chain of signature transformations, evaluated step by step; each step reports the
    signature and whether it verifies on [ms]:  (1,r,_) randomize, (2,r,bf) blind_and_randomize,
    (3,bf,_) unblind *)
Fixpoint r_chain_go (pk : pkey K) (ms : list Z) (s : sigt K) (ops : list (Z * Z * Z)) : list Z :=
  match ops with
  | [] => []
  | (t, a, b) :: ops =>
      let s' := if t =? 1 then randomize (fq a) s
                else if t =? 2 then blind_and_randomize (fq a) (fq b) s
                else if t =? 3 then unblind (fq a) s else s in
      vsig s' ++ [b2z (verify pk (fqs ms) s')] ++ r_chain_go pk ms s' ops
  end.
Definition r_chain (pk : pkey K) (ms : list Z) (s1 s2 : Z) (ops : list (Z * Z * Z)) : list Z :=
  [b2z (verify pk (fqs ms) (sig s1 s2))] ++ r_chain_go pk ms (sig s1 s2) ops.

(** Schnorr proofs.  A commitment proof travels as C, T, rbf, rs. *)
From ZK Require Import Model.Schnorr Model.Range.
Definition vcp (p : cproof K) : list Z := [v (cp_C p); v (cp_T p); v (cp_rbf p)] ++ vs (cp_rs p).
Definition mk_cp (C T rbf : Z) (rs : list Z) : cproof K := mkCP (fq C) (fq T) (fq rbf) (fqs rs).
Definition vsp (p : sproof K) : list Z := vsig (sp_sig p) ++ vcp (sp_cp p).
Definition mk_sp (t : list Z) : sproof K :=
  match t with
  | s1 :: s2 :: C :: T :: rbf :: rs => mkSP (sig s1 s2) (mk_cp C T rbf rs)
  | _ => mkSP (sig 0 0) (mk_cp 0 0 0 [])
  end.

Definition r_cp_prove (h : Z) (gs ms : list Z) (bf kbf : Z) (ks : list Z) (c : Z) : list Z :=
  vcp (cp_prove (fq h) (fqs gs) (fqs ms) (fq bf) (fq kbf) (fqs ks) (fq c)).
Definition r_cp_verify (h : Z) (gs : list Z) (C T rbf : Z) (rs : list Z) (c : Z) : list Z :=
  [b2z (cp_verify (fq h) (fqs gs) (mk_cp C T rbf rs) (fq c))].
Definition r_req_prove (pk : pkey K) (ms : list Z) (bf kbf : Z) (ks : list Z) (c : Z) : list Z :=
  vcp (req_prove pk (fqs ms) (fq bf) (fq kbf) (fqs ks) (fq c)).
Definition r_req_verify (pk : pkey K) (C T rbf : Z) (rs : list Z) (c : Z) : list Z :=
  match req_verify pk (mk_cp C T rbf rs) (fq c) with Some x => [1; v x] | None => [0] end.
Definition r_sp_prove (pk : pkey K) (ms : list Z) (s1 s2 bf kbf : Z) (ks : list Z) (r c : Z) : list Z :=
  vsp (sig_prove pk (fqs ms) (sig s1 s2) (fq bf) (fq kbf) (fqs ks) (fq r) (fq c)).
Definition r_sp_verify (pk : pkey K) (t : list Z) (c : Z) : list Z := [b2z (sig_verify pk (mk_sp t) (fq c))].

(** range constraints *)
Definition mk_rp (sigs : list (Z * Z)) (pk : pkey K) : rparams K :=
  mkRP (map (fun s => sig (fst s) (snd s)) sigs) pk.
Definition mk_rd (t : Z * Z * Z * Z) : rdraw K :=
  let '(a, b, c, d) := t in mkRD (fq a) (fq b) (fq c) (fq d).
Definition r_range_prove (rp : rparams K) (value : Z) (ds : list (Z * Z * Z * Z)) (c : Z) : list Z :=
  match range_prove rp value (map mk_rd ds) (fq c) with
  | None => [0]
  | Some ps => 1 :: v (range_commitment_scalar (map mk_rd ds)) :: flat_map vsp ps
  end.
Definition r_range_verify (rp : rparams K) (ps : list (list Z)) (c e : Z) : list Z :=
  [b2z (range_verify rp (map mk_sp ps) (fq c) (fq e))].
Definition r_validate (rp : rparams K) : list Z := [b2z (validate rp)].
Definition r_digits (value : Z) : list Z := digits value.

(** zkAbacus proofs *)
From ZK Require Import Model.Abacus Model.Amount.
Definition CLOSEZ : Z := 0x45534f4c43000000000000000000000000000000000000000000000000000000.
Definition closeK : K := fq CLOSEZ.
Definition enc_atom (a : atom K) : list Z :=
  match a with
  | A1 x => [1; v x] | A2 x => [2; v x] | AS x => [3; v x]
  | AB bs => 4 :: Z.of_nat (length bs) :: bs
  end.
Definition enc_atoms (l : list (atom K)) : list Z := flat_map enc_atom l.

Definition mk_cpl (t : list Z) : cproof K :=
  match t with C :: T :: rbf :: rs => mk_cp C T rbf rs | _ => mk_cp 0 0 0 [] end.
Definition mk_ep (ks sp csp : list Z) : eproof K :=
  match ks with
  | [a; b; c; d] => mkEP (fq a) (fq b) (fq c) (fq d) (mk_cpl sp) (mk_cpl csp)
  | _ => mkEP (fq 0) (fq 0) (fq 0) (fq 0) (mk_cpl sp) (mk_cpl csp)
  end.
Definition vep (p : eproof K) : list Z :=
  [v (e_kcid p); v (e_kclose p); v (e_kcb p); v (e_kmb p)] ++ vcp (e_sp p) ++ vcp (e_csp p).

Definition r_establish_verify (pk : pkey K) (cid cb mb : Z) (ks sp csp : list Z) (c : Z) : list Z :=
  match establish_verify_with closeK pk (fq cid) (fq cb) (fq mb) (mk_ep ks sp csp) (fq c) with
  | Some (a, b) => [1; v a; v b] | None => [0]
  end.
Definition r_establish_prove (pk : pkey K) (cid nonce lock cb mb bfs kbfs : Z) (ks : list Z)
           (bfc kbfc kclose c : Z) : list Z :=
  vep (establish_prove_with closeK pk (fq cid) (fq nonce) (fq lock) (fq cb) (fq mb) (fq bfs) (fq kbfs)
                            (fqs ks) (fq bfc) (fq kbfc) (fq kclose) (fq c)).
Definition r_establish_transcript (pk : pkey K) (cid cb mb : Z) (ks sp csp : list Z) (ctx : list Z) : list Z :=
  enc_atoms (establish_transcript closeK pk (fq cid) (fq cb) (fq mb) (mk_ep ks sp csp) ctx).

Definition mk_pp (knonce kclose : Z) (tok rev sp csp : list Z) (cr mr : list (list Z)) : pproof K :=
  mkPP (fq knonce) (fq kclose) (mk_sp tok) (mk_cpl rev) (mk_cpl sp) (mk_cpl csp) (map mk_sp cr) (map mk_sp mr).
Definition vpp (p : pproof K) : list Z :=
  [v (p_knonce p); v (p_kclose p)] ++ vsp (p_tok p) ++ vcp (p_rev p) ++ vcp (p_sp p) ++ vcp (p_csp p)
  ++ flat_map vsp (p_crange p) ++ flat_map vsp (p_mrange p).

Definition r_pay_verify (pk : pkey K) (rp : rparams K) (hr gr nonce amount : Z) (p : pproof K) (c : Z) : list Z :=
  match pay_verify_with closeK pk rp (fq hr) (fq gr) (fq nonce) (amount_scalar amount) p (fq c) with
  | Some (a, b, r) => [1; v a; v b; v r] | None => [0]
  end.
Definition r_pay_transcript (pk : pkey K) (rp : rparams K) (nonce : Z) (p : pproof K) (ctx : list Z) : list Z :=
  enc_atoms (pay_transcript closeK pk rp (fq nonce) p ctx).

Definition mk_pd (dsc dsm : list (Z * Z * Z * Z)) (t : list Z) : pdraws K :=
  match t with
  | [bfr; kbfr; krev; bft; kbft; kcid; knonce; rt; bfs; kbfs; knn; klock; bfc; kbfc; kclose] =>
      mkPD (map mk_rd dsc) (map mk_rd dsm) (fq bfr) (fq kbfr) (fq krev) (fq bft) (fq kbft) (fq kcid) (fq knonce)
           (fq rt) (fq bfs) (fq kbfs) (fq knn) (fq klock) (fq bfc) (fq kbfc) (fq kclose)
  | _ => mkPD [] [] (fq 0) (fq 0) (fq 0) (fq 0) (fq 0) (fq 0) (fq 0) (fq 0) (fq 0) (fq 0) (fq 0) (fq 0) (fq 0) (fq 0) (fq 0)
  end.
Definition r_pay_prove (pk : pkey K) (rp : rparams K) (hr gr : Z) (t1 t2 : Z) (old : list Z) (cbz mbz : Z)
           (new : list Z) (d : pdraws K) (c : Z) : list Z :=
  match pay_prove_with closeK pk rp (fq hr) (fq gr) (sig t1 t2) (fqs old) cbz mbz (fqs new) d (fq c) with
  | Some p => 1 :: vpp p | None => [0]
  end.

(** challenge inputs of the library types *)
Definition r_chunks_pk (pk : pkey K) : list Z := enc_atoms (pk_chunks pk).
Definition r_pk_to_bytes (pk : pkey K) : list Z := enc_atoms (pk_to_bytes_atoms pk).
Definition r_chunks_cp (g : Z) (t : list Z) : list Z :=
  enc_atoms (if g =? 1 then cp1_chunks (mk_cpl t) else cp2_chunks (mk_cpl t)).
Definition r_chunks_sp (t : list Z) : list Z := enc_atoms (sp_chunks (mk_sp t)).
Definition r_chunks_rp (rp : rparams K) : list Z := enc_atoms (rp_chunks rp).
Definition r_chunks_range (ps : list (list Z)) : list Z := enc_atoms (range_chunks (map mk_sp ps)).
Definition r_chunks_sig (s1 s2 : Z) : list Z := enc_atoms (sig_chunks (sig s1 s2)).
Definition r_chunks_ped (g h : Z) (gs : list Z) : list Z :=
  enc_atoms (if g =? 1 then A1 (fq h) :: map A1 (fqs gs) else A2 (fq h) :: map A2 (fqs gs)).

(** balances and amounts *)
Definition enc_result (r : result Z) : list Z :=
  match r with Ok a => [1; a] | Err (AmountTooLarge x) => [2; x] | Err InsufficientFunds => [3] end.
Definition r_try_new (x : Z) : list Z := enc_result (balance_try_new x).
Definition r_pay_merchant (x : Z) : list Z := enc_result (pay_merchant x).
Definition r_pay_customer (x : Z) : list Z := enc_result (pay_customer x).
Definition r_apply (cb mb a : Z) : list Z :=
  match apply_payment cb mb a with Ok (c, m) => [1; c; m] | Err (AmountTooLarge x) => [2; x] | Err InsufficientFunds => [3] end.
Definition r_try_add (debug : Z) (mb cb : Z) : list Z :=
  match balance_decode mb, balance_decode cb with
  | Some m, Some c => match try_add (if debug =? 1 then Debug else Release) m c with
                      | Panics => [9] | Val r => enc_result r end
  | _, _ => [8]
  end.
Definition r_amount_scalar (a : Z) : list Z := [v (amount_scalar a)].

(** nonces, revocation pairs, channel ids, contexts - with the Gallina SHA3 *)
From ZK Require Import Model.Ids Model.Sha3 Model.Merchant.
Definition enc_scalar (x : K) : list Z := Z_to_le 32 (v x).
Definition r_nonce_new (draws : list Z) : list Z :=
  match nonce_new closeK (fqs draws) with Some n => [1; v n] | None => [0] end.
Definition r_nonce_decode (n : Z) : list Z :=
  if n <? q_bls then match nonce_decode closeK (fq n) with Some x => [1; v x] | None => [0] end else [0].
Definition r_revpair_new (secret : Z) : list Z :=
  match revpair_new q_bls sha3_256_z enc_scalar (fq secret) with
  | Some (l, s, i) => [1; v l; v s; i] | None => [0] end.
Definition r_revpair_decode (lock secret index : Z) : list Z :=
  if (lock <? q_bls) && (secret <? q_bls) then
    match revpair_decode q_bls sha3_256_z enc_scalar (fq lock) (fq secret) index with
    | Some (l, s, i) => [1; v l; v s; i] | None => [0] end
  else [0].
Definition r_channel_id (mr cr pkb ma ca : list Z) : list Z := channel_id sha3_256_z mr cr pkb ma ca.
Definition r_context (bs : list Z) : list Z := context sha3_256_z bs.
Definition r_sha3_challenge (bs : list Z) : list Z := [v (bytes_to_scalar_reduced (K:=K) (sha3_256_z bs))].
Definition r_complete_payment (sk : skey K) (pk : pkey K) (hr gr com st urand lock bf : Z) : list Z :=
  match complete_payment sk pk (fq hr) (fq gr) (mkU (fq com) (fq st)) (fq urand) (fq lock) (fq bf) with
  | inl s => 1 :: vsig s | inr u => [0; v (u_com u); v (u_state u)] end.

(** key generation over streams: g1 and g2 are taken as the basis (1); the scalar stream is what matters *)
From ZK Require Import Model.Keygen.
Definition r_keygen_stream (n : Z) (scalars : list Z) : list Z :=
  match keygen_stream (Z.to_nat n) [fq 1] (fqs scalars) [fq 1] with
  | Some (sk, pk) => [1; v (sk_x sk)] ++ vs (sk_ys sk) ++ [v (sk_x1 sk); v (pk_x2 pk)] ++ vs (pk_y1s pk) ++ vs (pk_y2s pk)
                     ++ [b2z (sk_wf sk); b2z (pk_wf pk)]
  | None => [0]
  end.

(** codecs: run a decoder on bytes; result = status (1 ok / 0 error / 9 panic), largest capacity requested,
    number of unread bytes, re-encoded value *)
From ZK Require Import Model.Wire Model.Codecs.
Definition run_codec {A} (c : codec A) (bs : list Z) : list Z :=
  match dec c bs with
  | DOk a rest al => 1 :: al :: Z.of_nat (length rest) :: enc c a
  | DErr al => [0; al]
  | DPanic => [9]
  end.
(** long inputs are built inside Coq (a list literal of tens of thousands of numbers is beyond the parser's and the printer's
    recursion depth): prefix ++ k blocks taken cyclically from a pool; the answer is a summary - status, largest
    capacity requested, unread bytes, and whether the re-encoding equals prefix' ++ the same blocks *)
Definition cycle_bytes (pool : list (list Z)) (k : Z) : list Z :=
  flat_map (fun i => nth (Nat.modulo i (length pool)) pool []) (seq 0 (Z.to_nat k)).
Fixpoint list_zeqb (a b : list Z) : bool :=
  match a, b with [], [] => true | x :: a, y :: b => (x =? y) && list_zeqb a b | _, _ => false end.
Definition run_codec_long {A} (c : codec A) (prefix : Z) (pool : list (list Z)) (k : Z) : list Z :=
  let input := Z_to_le 8 prefix ++ cycle_bytes pool k in
  match dec c input with
  | DOk a rest al => [1; al; Z.of_nat (length rest); b2z (list_zeqb (enc c a) input)]
  | DErr al => [0; al]
  | DPanic => [9]
  end.
Definition lock_okq (lock secret : K) (index : Z) : bool :=
  match lock_of q_bls sha3_256_z enc_scalar secret index with Some l => feqb l lock | None => false end.

(** the customer state machine *)
From ZK Require Import Model.Customer.
Definition mk_cs (t : list Z) : cstate K :=
  match t with
  | [cid; n; l; cb; mb] => mkCS (fq cid) (fq n) (fq l) cb mb
  | _ => mkCS (fq 0) (fq 0) (fq 0) 0 0
  end.
Definition enc_cs (s : cstate K) : list Z := [v (s_cid s); v (s_nonce s); v (s_lock s); s_cb s; s_mb s].
Definition enc_stage (st : stage K) : list Z :=
  match st with
  | Requested s bfc bft => 0 :: enc_cs s ++ [v bfc; v bft]
  | Inactive s bft cs => 1 :: enc_cs s ++ [v bft] ++ vsig cs
  | Ready s tok cs => 2 :: enc_cs s ++ vsig tok ++ vsig cs
  | Started new old bfr bft bfc ocs => 3 :: enc_cs new ++ enc_cs old ++ [v bfr; v bft; v bfc] ++ vsig ocs
  | Locked s bft cs => 4 :: enc_cs s ++ [v bft] ++ vsig cs
  end.
Definition enc_out (o : output K) : list Z :=
  match o with
  | ONone => [0] | ORefused => [1] | OStart n => [2; v n] | OLockMsg l b => [3; v l; v b]
  | OError (AmountTooLarge x) => [4; x] | OError InsufficientFunds => [5]
  end.
Definition r_step (pk : pkey K) (st : stage K) (ev : event K) : list Z :=
  let '(st', o) := step closeK pk st ev in enc_out o ++ enc_stage st'.
Definition r_close (pk : pkey K) (st : stage K) (rho : Z) : list Z :=
  match close_of st (fq rho) with
  | Some (sg, s) => 1 :: vsig sg ++ enc_cs s ++ [b2z (check_close closeK pk sg s)]
  | None => [0]
  end.

(** channel id text form *)
From ZK Require Import Model.Base64.
Definition r_cid_print (bs : list Z) : list Z := cid_print bs.
Definition r_cid_parse (cs : list Z) : list Z :=
  match cid_parse cs with CidOk bs => 1 :: bs | CidIncorrectLength n => [2; n] | CidDecodeError => [3] end.

(** the two parties composed (Model/Protocol.v): one whole payment - Ready::start with its proof, allow_payment, lock,
    complete_payment, unlock - with the Fiat-Shamir hash given as a table from (encoded transcript) to challenge, the
    transcripts being the ones the model itself produces (r_pay_transcript) and the challenges the ones the code derived *)
From ZK Require Import Model.Merchant Model.Protocol.
Definition table_chal (tbl : list (list Z * Z)) (atoms : list (atom K)) : K :=
  match find (fun e => list_zeqb (fst e) (enc_atoms atoms)) tbl with Some e => fq (snd e) | None => fq 0 end.
Definition mk_m (sk : skey K) (pk : pkey K) (hr gr : Z) (rp : rparams K) : mconfig K := mkM sk pk (fq hr) (fq gr) rp.
Definition r_full_payment (m : mconfig K) (tbl : list (list Z * Z)) (st : stage K) (a : Z) (nonce' lock' : Z) (d : pdraws K)
           (ctx : list Z) (u1 u2 : Z) : list Z :=
  match full_payment closeK (table_chal tbl) m st a (mkSD (fq nonce') (fq lock') d) ctx (fq u1) (fq u2) with
  | PDone st' => 1 :: enc_stage st'
  | PAmountRefused st' e => 2 :: enc_out (OError e) ++ enc_stage st'
  | PStuck k st' => [3; Z.of_nat k]
  end.
Definition r_full_establish (m : mconfig K) (tbl : list (list Z * Z)) (cid cb mb : Z)
           (nonce lock bfs kbfs : Z) (ks : list Z) (bfc kbfc kclose : Z) (ctx : list Z) (u1 u2 : Z) : list Z :=
  match full_establish closeK (table_chal tbl) m (fq cid) cb mb
          (mkED (fq nonce) (fq lock) (fq bfs) (fq kbfs) (fqs ks) (fq bfc) (fq kbfc) (fq kclose)) ctx (fq u1) (fq u2) with
  | PDone st' => 1 :: enc_stage st'
  | PAmountRefused st' e => 2 :: enc_out (OError e) ++ enc_stage st'
  | PStuck k st' => [3; Z.of_nat k]
  end.
