(** * The executable scalar field: integers modulo a prime, in canonical form.

    The operations need no hypothesis on [q]; only the field laws ([ZqFld]) take [prime q]. *)
From Coq Require Import ZArith Znumtheory Bool Eqdep_dec Lia Field.
From ZK Require Import Model.Field.
Open Scope Z_scope.

Section Zq.
Variable q : Z.

Record Zq := mkZq { val : Z; canon : (val mod q =? val) = true }.

Lemma canon_mod z : ((z mod q) mod q =? z mod q) = true.
Proof. apply Z.eqb_eq, Zmod_mod. Qed.

Definition zq_of_Z z := mkZq (z mod q) (canon_mod z).
Definition z0 := zq_of_Z 0.
Definition z1 := zq_of_Z 1.
Definition zadd a b := zq_of_Z (val a + val b).
Definition zmul a b := zq_of_Z (val a * val b).
Definition zsub a b := zq_of_Z (val a - val b).
Definition zopp a := zq_of_Z (- val a).
Definition zinv a := match euclid (val a) q with Euclid_intro _ _ u _ d _ _ => zq_of_Z (u * d) end.
Definition zdiv a b := zmul a (zinv b).
Definition zeqb a b := val a =? val b.

Lemma Zq_eq a b : val a = val b -> a = b.
Proof. destruct a as [x p], b as [y r]; simpl; intros ->. f_equal. apply UIP_dec, bool_dec. Qed.

Lemma zeqb_spec a b : zeqb a b = true <-> a = b.
Proof. unfold zeqb. rewrite Z.eqb_eq. split; [apply Zq_eq | now intros ->]. Qed.

Hypothesis qprime : prime q.
Lemma qpos : 0 < q. Proof. destruct qprime; lia. Qed.

Lemma val_range a : 0 <= val a < q.
Proof. destruct a as [x p]; simpl. apply Z.eqb_eq in p. rewrite <- p. apply Z.mod_pos_bound, qpos. Qed.
Lemma of_Z_val a : zq_of_Z (val a) = a.
Proof. apply Zq_eq; cbn. apply Z.mod_small, val_range. Qed.

Lemma add_of a b : zadd (zq_of_Z a) (zq_of_Z b) = zq_of_Z (a + b).
Proof. apply Zq_eq; cbn. pose proof qpos. now rewrite <- Z.add_mod by lia. Qed.
Lemma mul_of a b : zmul (zq_of_Z a) (zq_of_Z b) = zq_of_Z (a * b).
Proof. apply Zq_eq; cbn. pose proof qpos. now rewrite <- Z.mul_mod by lia. Qed.
Lemma sub_of a b : zsub (zq_of_Z a) (zq_of_Z b) = zq_of_Z (a - b).
Proof. apply Zq_eq; cbn. pose proof qpos. now rewrite <- Zminus_mod by lia. Qed.
Lemma opp_of a : zopp (zq_of_Z a) = zq_of_Z (- a).
Proof. apply Zq_eq; cbn. pose proof qpos.
  change (- (a mod q)) with (0 - a mod q). replace (- a) with (0 - a) by lia.
  now rewrite Zminus_mod_idemp_r. Qed.

Ltac lift := intros;
  repeat match goal with a : Zq |- _ => rewrite <- (of_Z_val a); generalize (val a); clear a; intro a end;
  unfold z0, z1; rewrite ?add_of, ?mul_of, ?sub_of, ?opp_of, ?add_of, ?mul_of, ?sub_of, ?opp_of;
  f_equal; try ring.

Lemma Zq_ring : ring_theory z0 z1 zadd zmul zsub zopp eq.
Proof. constructor; lift. Qed.

Lemma zinv_l a : a <> z0 -> zmul (zinv a) a = z1.
Proof. intros Ha. unfold zinv. destruct (euclid (val a) q) as [u v d Huv Hg].
  assert (Hr : rel_prime (val a) q).
  { apply rel_prime_sym, prime_rel_prime; [exact qprime|]. intros Hd.
    apply Ha, Zq_eq. cbn. pose proof (val_range a). pose proof qpos. rewrite ?Z.mod_0_l by lia.
    apply Z.mod_divide in Hd; [|lia]. rewrite Z.mod_small in Hd; lia. }
  assert (d = 1 \/ d = -1) as Hd.
  { destruct (Zis_gcd_unique _ _ _ _ Hg Hr); [left|right]; lia. }
  apply Zq_eq. cbn. pose proof qpos. rewrite Z.mul_mod_idemp_l by lia.
  replace (u * d * val a) with (1 + (- v * d) * q) by (destruct Hd; subst d; nia).
  rewrite Z.mod_add by lia. reflexivity.
Qed.

Lemma z1_neq_z0 : z1 <> z0.
Proof. intros H. apply (f_equal val) in H. cbn in H. destruct qprime as [H1 _].
  rewrite ?Z.mod_0_l in H by lia. rewrite Z.mod_1_l in H by lia. discriminate. Qed.

Lemma Zq_field : field_theory z0 z1 zadd zmul zsub zopp zdiv zinv eq.
Proof. constructor; [exact Zq_ring | exact z1_neq_z0 | reflexivity | exact zinv_l]. Qed.

Definition ZqFld : Fld :=
  mkFld Zq z0 z1 zadd zmul zsub zopp zdiv zinv zeqb Zq_field zeqb_spec.

End Zq.
Arguments val {_}.
