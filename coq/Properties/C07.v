(** C07 — Signature verification accepts exactly the Pointcheval-Sanders relation.
    Pinned statements only; proofs are in Proofs/PSProofs.v. *)
From ZK Require Import Model.Field Model.Zq Model.QBls Model.Pedersen Model.PS Proofs.PSProofs.
Local Open Scope fld_scope.

Theorem C07_verify_iff : forall (K : Fld) (pk : pkey K) ms (s : sigt K),
  verify pk ms s = true <->
  fst s <> f0 /\ fst s * (pk_x2 pk + ip (pk_y2s pk) ms) = snd s * pk_g2 pk.
Proof. exact verify_iff. Qed.

Theorem C07_sign_verifies : forall (K : Fld) (sk : skey K) (pk : pkey K) h ms,
  key_ok K sk pk -> h <> f0 -> verify pk ms (sign sk h ms) = true.
Proof. exact sign_verifies. Qed.

Theorem C07_keygen_ok : forall (K : Fld) (g1 x : K) ys g2, g2 <> f0 ->
  key_ok K (fst (keygen g1 x ys g2)) (snd (keygen g1 x ys g2)).
Proof. exact keygen_ok. Qed.

(** re-randomising with r keeps validity exactly when r <> 0; r = 0 gives the all-identity signature *)
Theorem C07_randomize_verify : forall (K : Fld) (pk : pkey K) ms r s,
  verify pk ms (randomize r s) = fneqb r f0 && verify pk ms s.
Proof. exact randomize_verify. Qed.

Theorem C07_all_identity_rejects : forall (K : Fld) (pk : pkey K) ms s2, verify pk ms (f0, s2) = false.
Proof. exact all_identity_rejects. Qed.

Theorem C07_unblind_blind : forall (K : Fld) r bf (s : sigt K),
  unblind bf (blind_and_randomize r bf s) = randomize r s.
Proof. exact unblind_blind. Qed.

Theorem C07_blind_sign_unblind : forall (K : Fld) (sk : skey K) (pk : pkey K) u bf ms,
  key_ok K sk pk -> pk_g1 pk <> f0 -> u <> f0 ->
  verify pk ms (unblind bf (blind_sign sk pk u (blind pk ms bf))) = true.
Proof. exact blind_sign_unblind. Qed.

Theorem C07_verify_other_message : forall (K : Fld) (pk : pkey K) ms ms' s, verify pk ms s = true ->
  (verify pk ms' s = true <-> ip (pk_y2s pk) ms = ip (pk_y2s pk) ms').
Proof. exact verify_other_message. Qed.

Theorem C07_single_coordinate_rejects : forall (K : Fld) (pk : pkey K) ms s j v, verify pk ms s = true ->
  (j < length ms)%nat -> (j < length (pk_y2s pk))%nat -> nth j (pk_y2s pk) f0 <> f0 -> v <> nth j ms f0 ->
  verify pk (upd j v ms) s = false.
Proof. exact single_coordinate_rejects. Qed.

Theorem C07_wrong_bf_rejects : forall (K : Fld) (pk : pkey K) ms s bf bf', pk_g2 pk <> f0 -> bf' <> bf ->
  verify pk ms (unblind bf s) = true -> verify pk ms (unblind bf' s) = false.
Proof. exact wrong_bf_rejects. Qed.

Theorem C07_x2_change_rejects : forall (K : Fld) (pk : pkey K) ms s x2', x2' <> pk_x2 pk -> verify pk ms s = true ->
  verify (mkPk (pk_g1 pk) (pk_y1s pk) (pk_g2 pk) x2' (pk_y2s pk)) ms s = false.
Proof. exact x2_change_rejects. Qed.

Theorem C07_g2_change_rejects : forall (K : Fld) (pk : pkey K) ms s g2', g2' <> pk_g2 pk -> snd s <> f0 ->
  verify pk ms s = true ->
  verify (mkPk (pk_g1 pk) (pk_y1s pk) g2' (pk_x2 pk) (pk_y2s pk)) ms s = false.
Proof. exact g2_change_rejects. Qed.

Theorem C07_y2_change_rejects : forall (K : Fld) (pk : pkey K) ms s j y', verify pk ms s = true ->
  (j < length ms)%nat -> (j < length (pk_y2s pk))%nat -> nth j ms f0 <> f0 -> y' <> nth j (pk_y2s pk) f0 ->
  verify (mkPk (pk_g1 pk) (pk_y1s pk) (pk_g2 pk) (pk_x2 pk) (upd j y' (pk_y2s pk))) ms s = false.
Proof. exact y2_change_rejects. Qed.

(** the all-zero message keeps the X~ term: verification is e(s1, X~) = e(s2, g~) *)
Theorem C07_verify_zero_message : forall (K : Fld) (pk : pkey K) n s,
  verify pk (repeat f0 n) s = true <-> fst s <> f0 /\ (fst s * pk_x2 pk = snd s * pk_g2 pk)%fld.
Proof. exact verify_zero_message. Qed.

Theorem C07_zero_message_signature_is_h_hx : forall (K : Fld) (sk : skey K) (pk : pkey K) n s, key_ok K sk pk ->
  (verify pk (repeat f0 n) s = true <-> fst s <> f0 /\ snd s = (fst s * sk_x sk)%fld).
Proof. exact zero_message_signature_is_h_hx. Qed.

Theorem C07_zero_message_not_signed_by_trivial_pair : forall (K : Fld) (sk : skey K) (pk : pkey K) n h,
  key_ok K sk pk -> sk_x sk <> f0 -> verify pk (repeat f0 n) (h, f0) = false.
Proof. exact zero_message_not_signed_by_trivial_pair. Qed.

Example C07_nonvacuous :
  let kp := keygen (fq 11) (fq 17) [fq 19; fq 23; fq 29] (fq 13) in
  let ms := [fq 0; fq 1; fq (-1)] in let s := sign (fst kp) (fq 31) ms in
  verify (snd kp) ms s = true /\ verify (snd kp) (upd 1 (fq 2) ms) s = false /\
  verify (snd kp) ms (randomize (fq 0) s) = false /\
  verify (snd kp) ms (unblind (fq 9) (blind_sign (fst kp) (snd kp) (fq 3) (blind (snd kp) ms (fq 9)))) = true.
Proof. vm_compute. auto. Qed.

Print Assumptions C07_verify_iff.
Print Assumptions C07_sign_verifies.
Print Assumptions C07_keygen_ok.
Print Assumptions C07_randomize_verify.
Print Assumptions C07_all_identity_rejects.
Print Assumptions C07_unblind_blind.
Print Assumptions C07_blind_sign_unblind.
Print Assumptions C07_verify_other_message.
Print Assumptions C07_single_coordinate_rejects.
Print Assumptions C07_wrong_bf_rejects.
Print Assumptions C07_x2_change_rejects.
Print Assumptions C07_g2_change_rejects.
Print Assumptions C07_y2_change_rejects.
Print Assumptions C07_verify_zero_message.
Print Assumptions C07_zero_message_signature_is_h_hx.
Print Assumptions C07_zero_message_not_signed_by_trivial_pair.
Print Assumptions C07_nonvacuous.
