(** C04 — Honest runs always complete and track the ideal ledger exactly.
    Composition of: merchant acceptance of honest proofs (C01_honest_proof_accepted, C02_honest_payment_accepted, for every
    randomness with non-zero randomisers), customer acceptance of honest replies (below, from blind-sign/unblind
    correctness), revocation acceptance (C05) and exact balance arithmetic (C17). *)
From ZK Require Import Model.Field Model.Zq Model.QBls Model.Pedersen Model.PS Model.Schnorr Model.Range Model.Abacus
  Model.Amount Model.Customer Model.Merchant Proofs.PSProofs Proofs.PedersenProofs Proofs.EstablishProofs Proofs.PayProofs
  Proofs.CustomerProofs Proofs.MerchantProofs Proofs.AmountProofs.
Local Open Scope fld_scope.

Theorem C04_honest_establish_proof_accepted : forall (K : Fld) (close_tag : K) (chal : list (atom K) -> K) (pk : pkey K)
    cid nonce lock cb mb bfs kbfs ks bfc kbfc kclose ctx, length ks = 5%nat ->
  establish_verify close_tag chal pk cid cb mb
    (establish_prove close_tag chal pk cid nonce lock cb mb bfs kbfs ks bfc kbfc kclose ctx) ctx
  = Some (blind pk (state_msg cid nonce lock cb mb) bfs, blind pk (close_msg close_tag cid lock cb mb) bfc).
Proof. exact establish_fiat_shamir_complete. Qed.

Theorem C04_honest_closing_reply_accepted : forall (K : Fld) (close_tag : K) (sk : skey K) (pk : pkey K),
  key_ok K sk pk -> pk_g1 pk <> f0 -> forall s bfc bft u, u <> f0 ->
  step close_tag pk (Requested s bfc bft) (EvComplete (blind_sign sk pk u (blind pk (cmsg close_tag s) bfc)))
  = (Inactive s bft (unblind bfc (blind_sign sk pk u (blind pk (cmsg close_tag s) bfc))), ONone).
Proof. exact honest_closing_reply_accepted. Qed.

Theorem C04_honest_token_reply_accepted : forall (K : Fld) (close_tag : K) (sk : skey K) (pk : pkey K),
  key_ok K sk pk -> pk_g1 pk <> f0 -> forall s bft cs u, u <> f0 ->
  step close_tag pk (Inactive s bft cs) (EvActivate (blind_sign sk pk u (blind pk (smsg s) bft)))
  = (Ready s (unblind bft (blind_sign sk pk u (blind pk (smsg s) bft))) cs, ONone).
Proof. exact honest_token_reply_accepted. Qed.

Theorem C04_honest_revocation_accepted : forall (K : Fld) (sk : skey K) (pk : pkey K) hr gr lock bf st u,
  complete_payment sk pk hr gr (mkU (commit hr [gr] [lock] bf) st) u lock bf = inl (blind_sign sk pk u st).
Proof. exact honest_revocation_accepted. Qed.

(** one whole payment with honest replies: completes with exactly the integer balances when both stay in [0, 2^63-1];
    otherwise the documented error is returned before anything is sent and the customer keeps the unchanged state *)
Theorem C04_honest_payment_tracks_ledger : forall (K : Fld) (close_tag : K) (sk : skey K) (pk : pkey K),
  key_ok K sk pk -> pk_g1 pk <> f0 -> forall s tok cs a nonce' lock' bfr bft bfc u1 u2,
  (0 <= s_cb s <= i64_max)%Z -> (0 <= s_mb s <= i64_max)%Z -> is_i64 a -> u1 <> f0 -> u2 <> f0 ->
  ((0 <= s_cb s - a <= i64_max)%Z /\ (0 <= s_mb s + a <= i64_max)%Z ->
     exists tok' cs', honest_payment K close_tag sk pk (Ready s tok cs) a nonce' lock' bfr bft bfc u1 u2
                      = (Ready (mkCS (s_cid s) nonce' lock' (s_cb s - a) (s_mb s + a)) tok' cs', ONone)) /\
  (~ ((0 <= s_cb s - a <= i64_max)%Z /\ (0 <= s_mb s + a <= i64_max)%Z) ->
     exists e, honest_payment K close_tag sk pk (Ready s tok cs) a nonce' lock' bfr bft bfc u1 u2 = (Ready s tok cs, OError e)).
Proof. exact honest_payment_tracks_ledger. Qed.

Theorem C04_payment_arithmetic : forall cb mb a, (0 <= cb <= i64_max)%Z -> (0 <= mb <= i64_max)%Z -> is_i64 a ->
  forall cb' mb', apply_payment cb mb a = Ok (cb', mb') ->
  cb' = (cb - a)%Z /\ mb' = (mb + a)%Z /\ (0 <= cb' <= i64_max)%Z /\ (0 <= mb' <= i64_max)%Z /\ (cb' + mb' = cb + mb)%Z.
Proof. intros cb mb a Hc Hm Ha cb' mb' H. exact (apply_payment_ok_inv cb mb a cb' mb' Hc Hm Ha H). Qed.

Print Assumptions C04_honest_establish_proof_accepted.
Print Assumptions C04_honest_closing_reply_accepted.
Print Assumptions C04_honest_token_reply_accepted.
Print Assumptions C04_honest_revocation_accepted.
Print Assumptions C04_honest_payment_tracks_ledger.
Print Assumptions C04_payment_arithmetic.
