(** C04 — Honest runs always complete and track the ideal ledger exactly.
    Composition of: merchant acceptance of honest proofs (C01_honest_proof_accepted, C02_honest_payment_accepted, for every
    randomness with non-zero randomisers), customer acceptance of honest replies (below, from blind-sign/unblind
    correctness), revocation acceptance (C05) and exact balance arithmetic (C17). *)
From ZK Require Import Model.Field Model.Zq Model.QBls Model.Pedersen Model.PS Model.Schnorr Model.Range Model.Abacus
  Model.Amount Model.Customer Model.Merchant Model.Protocol Model.Keygen Proofs.ProtocolProofs Proofs.PSProofs Proofs.PedersenProofs Proofs.EstablishProofs Proofs.PayProofs
  Proofs.CustomerProofs Proofs.MerchantProofs Proofs.AmountProofs.
Local Open Scope fld_scope.

Theorem C04_honest_establish_proof_accepted : forall (K : Fld) (close_tag : K) (chal : list (atom K) -> K) (pk : pkey K)
    cid nonce lock cb mb bfs kbfs ks bfc kbfc kclose ctx, length ks = 5%nat ->
  establish_verify close_tag chal pk cid cb mb
    (establish_prove close_tag chal pk cid nonce lock cb mb bfs kbfs ks bfc kbfc kclose ctx) ctx
  = Some (blind pk (state_msg cid nonce lock cb mb) bfs, blind pk (close_msg close_tag cid lock cb mb) bfc).
Proof. exact establish_fiat_shamir_complete. Qed.

Theorem C04_honest_closing_reply_accepted : forall (K : Fld) (close_tag : K) (sk : skey K) (pk : pkey K),
  key_ok K sk pk -> pk_g1 pk <> f0 -> forall s bfc bft u, u <> f0 ->
  step close_tag pk (Requested s bfc bft) (EvComplete (blind_sign sk pk u (blind pk (cmsg close_tag s) bfc)))
  = (Inactive s bft (unblind bfc (blind_sign sk pk u (blind pk (cmsg close_tag s) bfc))), ONone).
Proof. exact honest_closing_reply_accepted. Qed.

Theorem C04_honest_token_reply_accepted : forall (K : Fld) (close_tag : K) (sk : skey K) (pk : pkey K),
  key_ok K sk pk -> pk_g1 pk <> f0 -> forall s bft cs u, u <> f0 ->
  step close_tag pk (Inactive s bft cs) (EvActivate (blind_sign sk pk u (blind pk (smsg s) bft)))
  = (Ready s (unblind bft (blind_sign sk pk u (blind pk (smsg s) bft))) cs, ONone).
Proof. exact honest_token_reply_accepted. Qed.

Theorem C04_honest_revocation_accepted : forall (K : Fld) (sk : skey K) (pk : pkey K) hr gr lock bf st u,
  complete_payment sk pk hr gr (mkU (commit hr [gr] [lock] bf) st) u lock bf = inl (blind_sign sk pk u st).
Proof. exact honest_revocation_accepted. Qed.

(** one whole payment with honest replies: completes with exactly the integer balances when both stay in [0, 2^63-1];
    otherwise the documented error is returned before anything is sent and the customer keeps the unchanged state *)
Theorem C04_honest_payment_tracks_ledger : forall (K : Fld) (close_tag : K) (sk : skey K) (pk : pkey K),
  key_ok K sk pk -> pk_g1 pk <> f0 -> forall s tok cs a nonce' lock' bfr bft bfc u1 u2,
  (0 <= s_cb s <= i64_max)%Z -> (0 <= s_mb s <= i64_max)%Z -> is_i64 a -> u1 <> f0 -> u2 <> f0 ->
  ((0 <= s_cb s - a <= i64_max)%Z /\ (0 <= s_mb s + a <= i64_max)%Z ->
     exists tok' cs', honest_payment K close_tag sk pk (Ready s tok cs) a nonce' lock' bfr bft bfc u1 u2
                      = (Ready (mkCS (s_cid s) nonce' lock' (s_cb s - a) (s_mb s + a)) tok' cs', ONone)) /\
  (~ ((0 <= s_cb s - a <= i64_max)%Z /\ (0 <= s_mb s + a <= i64_max)%Z) ->
     exists e, honest_payment K close_tag sk pk (Ready s tok cs) a nonce' lock' bfr bft bfc u1 u2 = (Ready s tok cs, OError e)).
Proof. exact honest_payment_tracks_ledger. Qed.

Theorem C04_payment_arithmetic : forall cb mb a, (0 <= cb <= i64_max)%Z -> (0 <= mb <= i64_max)%Z -> is_i64 a ->
  forall cb' mb', apply_payment cb mb a = Ok (cb', mb') ->
  cb' = (cb - a)%Z /\ mb' = (mb + a)%Z /\ (0 <= cb' <= i64_max)%Z /\ (0 <= mb' <= i64_max)%Z /\ (cb' + mb' = cb + mb)%Z.
Proof. intros cb mb a Hc Hm Ha cb' mb' H. exact (apply_payment_ok_inv cb mb a cb' mb' Hc Hm Ha H). Qed.

(** ** the two parties composed (Model/Protocol.v): prover, Fiat-Shamir hash (any function), merchant verification, blind
    signing, unblinding, revocation - for every randomness with non-zero randomisers *)

Theorem C04_honest_pay_proof_accepted_fiat_shamir : forall (K : Fld) (close_tag : K) (chal : list (atom K) -> K)
    (pk : pkey K) rp hr gr (tok : sigt K) cid nonce lock ocb omb nn lock' cbz mbz eps d ctx,
  verify pk [cid; nonce; lock; ocb; omb] tok = true ->
  validate rp = true -> length (rp_sigs rp) = 128%nat ->
  (0 <= cbz < 2 ^ 63)%Z -> (0 <= mbz < 2 ^ 63)%Z ->
  of_Z cbz = ocb - eps -> of_Z mbz = omb + eps ->
  length (d_dsc d) = 9%nat -> length (d_dsm d) = 9%nat ->
  Forall (fun rd => rd_r rd <> f0) (d_dsc d) -> Forall (fun rd => rd_r rd <> f0) (d_dsm d) ->
  d_rt d <> f0 ->
  let old := [cid; nonce; lock; ocb; omb] in
  let new := [cid; nn; lock'; of_Z cbz; of_Z mbz] in
  exists p, pay_prove close_tag chal pk rp hr gr tok old cbz mbz new d ctx = Some p /\
    pay_verify close_tag chal pk rp hr gr nonce eps p ctx
    = Some (blind pk new (d_bfs d), blind pk [cid; close_tag; lock'; of_Z cbz; of_Z mbz] (d_bfc d),
            commit hr [gr] [lock] (d_bfr d)).
Proof. exact pay_fiat_shamir_complete. Qed.

Theorem C04_full_establish_completes : forall (K : Fld) (close_tag : K) (chal : list (atom K) -> K)
    (m : mconfig K) cid cb mb e ctx u1 u2,
  mconfig_ok K m -> length (ed_ks e) = 5%nat -> u1 <> f0 -> u2 <> f0 ->
  (0 <= cb <= i64_max)%Z -> (0 <= mb <= i64_max)%Z ->
  exists st, full_establish close_tag chal m cid cb mb e ctx u1 u2 = PDone st /\
             ready_ok K close_tag (m_pk m) cid (cb, mb) st.
Proof. exact full_establish_completes. Qed.

Theorem C04_full_payment_spec : forall (K : Fld) (close_tag : K) (chal : list (atom K) -> K)
    (m : mconfig K) cid l st a sd ctx u1 u2,
  mconfig_ok K m -> ready_ok K close_tag (m_pk m) cid l st -> is_i64 a -> draws_ok K (sd_pd sd) -> u1 <> f0 -> u2 <> f0 ->
  (in_range l a -> exists st', full_payment close_tag chal m st a sd ctx u1 u2 = PDone st' /\
                               ready_ok K close_tag (m_pk m) cid ((fst l - a)%Z, (snd l + a)%Z) st') /\
  (~ in_range l a -> exists e, full_payment close_tag chal m st a sd ctx u1 u2 = PAmountRefused st e).
Proof. exact full_payment_spec. Qed.

(** by induction over the list of payment attempts: never stuck, and the customer ends Ready (valid token, valid closing
    signature) on exactly the ideal ledger's balances *)
Theorem C04_full_run_tracks_ledger : forall (K : Fld) (close_tag : K) (chal : list (atom K) -> K) (m : mconfig K) cid,
  mconfig_ok K m -> forall ats l st,
  Forall (attempt_ok K) ats -> ready_ok K close_tag (m_pk m) cid l st ->
  exists st', full_run close_tag chal m st ats = PDone st' /\
              ready_ok K close_tag (m_pk m) cid (ledger_run l (map (@at_amount K) ats)) st'.
Proof. exact full_run_tracks_ledger. Qed.

Theorem C04_channel_lifecycle : forall (K : Fld) (close_tag : K) (chal : list (atom K) -> K)
    (m : mconfig K) cid cb mb e ctx u1 u2 ats rho,
  mconfig_ok K m -> length (ed_ks e) = 5%nat -> u1 <> f0 -> u2 <> f0 ->
  (0 <= cb <= i64_max)%Z -> (0 <= mb <= i64_max)%Z -> Forall (attempt_ok K) ats -> rho <> f0 ->
  exists st0 st, full_establish close_tag chal m cid cb mb e ctx u1 u2 = PDone st0 /\
    full_run close_tag chal m st0 ats = PDone st /\
    let l := ledger_run (cb, mb) (map (@at_amount K) ats) in
    ready_ok K close_tag (m_pk m) cid l st /\
    exists sig s, close_of st rho = Some (sig, s) /\ check_close close_tag (m_pk m) sig s = true /\
                  s_cid s = cid /\ (s_cb s, s_mb s) = l /\ (fst l + snd l = cb + mb)%Z.
Proof. exact channel_lifecycle. Qed.

Theorem C04_ledger_conserves_and_stays_in_range : forall amounts l,
  (0 <= fst l <= i64_max)%Z -> (0 <= snd l <= i64_max)%Z ->
  let l' := ledger_run l amounts in
  (fst l' + snd l' = fst l + snd l)%Z /\ (0 <= fst l' <= i64_max)%Z /\ (0 <= snd l' <= i64_max)%Z.
Proof. exact ledger_run_invariant. Qed.

(** non-vacuity: a concrete merchant configuration has valid range parameters, and a concrete run is evaluated through
    the composed model: establish with balances (10, 3); pay 4 -> (6, 7); attempt 7: 6 - 7 < 0, refused; attempt -9:
    7 - 9 < 0, refused; the customer ends Ready on (6, 7), the ideal ledger's value. *)
Definition ex_chal (l : list (atom Fq)) : Fq := fq (Z.of_nat (length l) + 7).
Definition ex_rd (i : Z) : rdraw Fq := mkRD (fq (1000 + i)) (fq (2000 + i)) (fq (3000 + i)) (fq (4000 + i)).
Definition ex_pd (b : Z) : pdraws Fq :=
  mkPD (map ex_rd [b+1;b+2;b+3;b+4;b+5;b+6;b+7;b+8;b+9]%Z) (map ex_rd [b+11;b+12;b+13;b+14;b+15;b+16;b+17;b+18;b+19]%Z)
       (fq (b+21)) (fq (b+22)) (fq (b+23)) (fq (b+24)) (fq (b+25)) (fq (b+26)) (fq (b+27)) (fq (b+28))
       (fq (b+29)) (fq (b+30)) (fq (b+31)) (fq (b+32)) (fq (b+33)) (fq (b+34)) (fq (b+35)).
Definition ex_m : mconfig Fq :=
  let kp := keygen (fq 11) (fq 17) [fq 19; fq 23; fq 29; fq 31; fq 37] (fq 13) in
  let rk := keygen (fq 3) (fq 5) [fq 7] (fq 9) in
  mkM (fst kp) (snd kp) (fq 41) (fq 43)
      (range_params_new (fst rk) (snd rk) (map (fun i => fq (Z.of_nat i + 100)) (seq 0 128))).
Definition ex_at (a b : Z) : attempt Fq := mkAt a (mkSD (fq (b+50)) (fq (b+51)) (ex_pd b)) [b] (fq (b+60)) (fq (b+61)).

Example C04_nonvacuous :
  validate (m_rp ex_m) = true /\ length (rp_sigs (m_rp ex_m)) = 128%nat /\
  match full_establish (fq 77) ex_chal ex_m (fq 5) 10 3
          (mkED (fq 6) (fq 7) (fq 41) (fq 43) [fq 51; fq 52; fq 53; fq 54; fq 55] (fq 61) (fq 63) (fq 71)) [1%Z] (fq 81) (fq 82) with
  | PDone st0 =>
      match full_run (fq 77) ex_chal ex_m st0 [ex_at 4 100; ex_at 7 200; ex_at (-9) 300] with
      | PDone (Ready s _ _) => (s_cb s, s_mb s) = (6, 7)%Z /\ ledger_run (10, 3)%Z [4; 7; -9]%Z = (6, 7)%Z
      | _ => False
      end
  | _ => False
  end.
Proof. vm_compute. auto. Qed.

Print Assumptions C04_honest_establish_proof_accepted.
Print Assumptions C04_honest_closing_reply_accepted.
Print Assumptions C04_honest_token_reply_accepted.
Print Assumptions C04_honest_revocation_accepted.
Print Assumptions C04_honest_payment_tracks_ledger.
Print Assumptions C04_payment_arithmetic.
Print Assumptions C04_honest_pay_proof_accepted_fiat_shamir.
Print Assumptions C04_full_establish_completes.
Print Assumptions C04_full_payment_spec.
Print Assumptions C04_full_run_tracks_ledger.
Print Assumptions C04_channel_lifecycle.
Print Assumptions C04_ledger_conserves_and_stays_in_range.
Print Assumptions C04_nonvacuous.
