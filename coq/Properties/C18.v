(** C18 — Pay tokens and closing signatures can never stand in for each other. *)
From ZK Require Import Model.Field Model.Zq Model.QBls Model.Pedersen Model.PS Model.Abacus Model.Ids
  Proofs.PSProofs Proofs.IdsProofs Proofs.MerchantProofs.
From ZK Require Import Model.PS Model.Abacus Proofs.ChallengeProofs.
Local Open Scope fld_scope.

(** for EVERY stream of draws, a generated nonce is the first draw different from the close tag *)
Theorem C18_nonce_new_not_close : forall (K : Fld) (close_tag : K) (draws : list K) n,
  nonce_new close_tag draws = Some n ->
  n <> close_tag /\ exists pre post, draws = pre ++ n :: post /\ Forall (fun y => y = close_tag) pre.
Proof. exact nonce_new_not_close. Qed.

Theorem C18_nonce_new_terminates : forall (K : Fld) (close_tag : K) (draws : list K),
  (exists y, In y draws /\ y <> close_tag) -> exists n, nonce_new close_tag draws = Some n.
Proof. exact nonce_new_terminates. Qed.

Theorem C18_nonce_decode_spec : forall (K : Fld) (close_tag n v : K),
  nonce_decode close_tag n = Some v <-> v = n /\ n <> close_tag.
Proof. exact nonce_decode_spec. Qed.

Theorem C18_state_close_messages_differ : forall (K : Fld) (close_tag cid nonce lock cb mb : K), nonce <> close_tag ->
  state_msg cid nonce lock cb mb <> close_msg close_tag cid lock cb mb /\
  close_msg close_tag cid lock cb mb = upd 1 close_tag (state_msg cid nonce lock cb mb).
Proof. exact state_close_messages_differ. Qed.

Theorem C18_token_not_closing_signature : forall (K : Fld) (close_tag : K) (pk : pkey K) cid nonce lock cb mb tok,
  nonce <> close_tag -> length (pk_y2s pk) = 5%nat -> nth 1 (pk_y2s pk) f0 <> f0 ->
  verify pk (state_msg cid nonce lock cb mb) tok = true ->
  verify pk (close_msg close_tag cid lock cb mb) tok = false.
Proof. exact token_not_closing_signature. Qed.

Theorem C18_closing_signature_not_token : forall (K : Fld) (close_tag : K) (pk : pkey K) cid nonce lock cb mb s,
  nonce <> close_tag -> length (pk_y2s pk) = 5%nat -> nth 1 (pk_y2s pk) f0 <> f0 ->
  verify pk (close_msg close_tag cid lock cb mb) s = true ->
  verify pk (state_msg cid nonce lock cb mb) s = false.
Proof. exact closing_signature_not_token. Qed.

(** a channel id is the hash of the concatenation of its five inputs; that byte string changes whenever exactly
    one input changes (the two account strings are unframed: simultaneous changes of both are outside this) *)
Theorem C18_channel_id_deterministic : forall (H : list Z -> list Z) mr cr pkb ma ca,
  channel_id H mr cr pkb ma ca = H (cid_preimage mr cr pkb ma ca).
Proof. exact channel_id_deterministic. Qed.

Theorem C18_channel_id_preimage_single_change : forall mr cr pkb ma ca mr' cr' pkb' ma' ca',
  length mr = length mr' -> length cr = length cr' -> length pkb = length pkb' ->
  ((mr <> mr' /\ cr = cr' /\ pkb = pkb' /\ ma = ma' /\ ca = ca') \/
   (mr = mr' /\ cr <> cr' /\ pkb = pkb' /\ ma = ma' /\ ca = ca') \/
   (mr = mr' /\ cr = cr' /\ pkb <> pkb' /\ ma = ma' /\ ca = ca') \/
   (mr = mr' /\ cr = cr' /\ pkb = pkb' /\ ma <> ma' /\ ca = ca') \/
   (mr = mr' /\ cr = cr' /\ pkb = pkb' /\ ma = ma' /\ ca <> ca')) ->
  cid_preimage mr cr pkb ma ca <> cid_preimage mr' cr' pkb' ma' ca'.
Proof. exact channel_id_preimage_single_change. Qed.

(** the key enters the channel id through its byte representation (g1, y1s, g2, x2, y2s), which determines every element of the key *)
Theorem C18_channel_id_key_bytes_determine_key : forall (K : Fld) (pk pk' : pkey K),
  length (pk_y1s pk) = length (pk_y1s pk') -> pk_to_bytes_atoms pk = pk_to_bytes_atoms pk' -> pk = pk'.
Proof. exact pk_to_bytes_atoms_injective. Qed.

Example C18_nonvacuous :
  nonce_new (fq 7) [fq 7; fq 7; fq 9; fq 7] = Some (fq 9) /\ nonce_new (fq 7) [fq 7; fq 7] = None /\
  nonce_decode (fq 7) (fq 7) = None /\ nonce_decode (fq 7) (fq 8) = Some (fq 8).
Proof. vm_compute. auto. Qed.

Print Assumptions C18_nonce_new_not_close.
Print Assumptions C18_nonce_new_terminates.
Print Assumptions C18_nonce_decode_spec.
Print Assumptions C18_state_close_messages_differ.
Print Assumptions C18_token_not_closing_signature.
Print Assumptions C18_closing_signature_not_token.
Print Assumptions C18_channel_id_deterministic.
Print Assumptions C18_channel_id_preimage_single_change.
Print Assumptions C18_nonvacuous.
Print Assumptions C18_channel_id_key_bytes_determine_key.
