(** C01 — Merchant establishes only channels whose hidden state matches the agreed values.
    Partial: exact relation, special soundness, transcript binding and blind-signature correctness
    are proved; the rewinding step to "no efficient prover" is not formalised (DESIGN.md section 6). *)
From ZK Require Import Model.Field Model.Zq Model.QBls Model.Pedersen Model.PS Model.Schnorr Model.Range
  Model.Abacus Model.Pinned Proofs.PSProofs Proofs.SchnorrProofs Proofs.EstablishProofs Proofs.ChallengeProofs
  Proofs.PinnedProofs.
Local Open Scope fld_scope.

(** the merchant accepts exactly the two Schnorr relations and the eight response-scalar equations,
    and hands over the proof's own two commitments for blind signing *)
Theorem C01_establish_verify_spec : forall (K : Fld) (close_tag : K) (pk : pkey K) cid cb mb (p : eproof K) c v,
  establish_verify_with close_tag pk cid cb mb p c = Some v <->
  establish_rel K close_tag pk cid cb mb p c /\ v = (cp_C (e_sp p), cp_C (e_csp p)).
Proof. exact establish_verify_spec. Qed.

(** whoever can answer two challenges for one first message holds openings of both commitments whose
    slots are exactly the agreed channel id and balances, one shared lock, and the close tag *)
Theorem C01_establish_special_soundness : forall (K : Fld) (close_tag : K) (pk : pkey K) cid cb mb (p p' : eproof K) c c',
  c - c' <> f0 -> length (pk_y1s pk) = 5%nat ->
  length (cp_rs (e_sp p)) = 5%nat -> length (cp_rs (e_sp p')) = 5%nat ->
  length (cp_rs (e_csp p)) = 5%nat -> length (cp_rs (e_csp p')) = 5%nat ->
  same_first_message K p p' ->
  establish_rel K close_tag pk cid cb mb p c -> establish_rel K close_tag pk cid cb mb p' c' ->
  let d := c - c' in
  let ms := xs K d (e_sp p) (e_sp p') in let mc := xs K d (e_csp p) (e_csp p') in
  cp_C (e_sp p) = blind pk ms (xbf K d (e_sp p) (e_sp p')) /\
  cp_C (e_csp p) = blind pk mc (xbf K d (e_csp p) (e_csp p')) /\
  nth 0 ms f0 = cid /\ nth 0 mc f0 = cid /\ nth 1 mc f0 = close_tag /\ nth 2 ms f0 = nth 2 mc f0 /\
  nth 3 ms f0 = cb /\ nth 3 mc f0 = cb /\ nth 4 ms f0 = mb /\ nth 4 mc f0 = mb.
Proof. exact establish_special_soundness. Qed.

(** "first message" is what is hashed: the transcript determines the key, the agreed values, both
    (C, T) pairs, the four revealed commitment scalars and the context *)
Theorem C01_establish_transcript_binds : forall (K : Fld) (close_tag : K) (pk pk' : pkey K)
    cid cb mb cid' cb' mb' (p p' : eproof K) ctx ctx',
  length (pk_y1s pk) = length (pk_y1s pk') -> length (pk_y2s pk) = length (pk_y2s pk') ->
  establish_transcript close_tag pk cid cb mb p ctx = establish_transcript close_tag pk' cid' cb' mb' p' ctx' ->
  pk = pk' /\ cid = cid' /\ cb = cb' /\ mb = mb' /\
  cp_C (e_sp p) = cp_C (e_sp p') /\ cp_T (e_sp p) = cp_T (e_sp p') /\
  cp_C (e_csp p) = cp_C (e_csp p') /\ cp_T (e_csp p) = cp_T (e_csp p') /\
  e_kcid p = e_kcid p' /\ e_kclose p = e_kclose p' /\ e_kcb p = e_kcb p' /\ e_kmb p = e_kmb p' /\ ctx = ctx'.
Proof. exact establish_transcript_binds. Qed.

(** what the merchant then signs unblinds to signatures on exactly the opened messages ... *)
Theorem C01_establish_then_sign : forall (K : Fld) (sk : skey K) (pk : pkey K) ms bf u,
  key_ok K sk pk -> pk_g1 pk <> f0 -> u <> f0 ->
  verify pk ms (unblind bf (blind_sign sk pk u (blind pk ms bf))) = true.
Proof. exact establish_then_sign. Qed.

(** ... and on no message differing in one slot *)
Theorem C01_signature_on_no_other_slot : forall (K : Fld) (pk : pkey K) ms s j v,
  verify pk ms s = true -> (j < length ms)%nat -> (j < length (pk_y2s pk))%nat ->
  nth j (pk_y2s pk) f0 <> f0 -> v <> nth j ms f0 -> verify pk (upd j v ms) s = false.
Proof. exact single_coordinate_rejects. Qed.

(** completeness with the Fiat-Shamir challenge, for every hash function *)
Theorem C01_honest_proof_accepted : forall (K : Fld) (close_tag : K) (chal : list (atom K) -> K) (pk : pkey K)
    cid nonce lock cb mb bfs kbfs ks bfc kbfc kclose ctx,
  length ks = 5%nat ->
  establish_verify close_tag chal pk cid cb mb
    (establish_prove close_tag chal pk cid nonce lock cb mb bfs kbfs ks bfc kbfc kclose ctx) ctx
  = Some (blind pk (state_msg cid nonce lock cb mb) bfs, blind pk (close_msg close_tag cid lock cb mb) bfc).
Proof. exact establish_fiat_shamir_complete. Qed.

(** REFUTATION of the pinned code (D1, repaired by /repo commit e01599f): when the four revealed commitment scalars are
    not hashed, every self-consistent hidden (state, close state) pair - any balances, any channel id, anything in the
    close-tag slot - is accepted for any agreed values, for every hash function *)
Theorem C01_pinned_establish_forgery_refuted : forall (K : Fld) (close_tag : K) (chal : list (atom K) -> K) (pk : pkey K)
    cid cb mb m0 m1 m2 m3 m4 c1 bfs kbfs k0 k1 k2 k3 k4 bfc kbfc kc1 ctx,
  let ms := [m0; m1; m2; m3; m4] in let mc := [m0; c1; m2; m3; m4] in
  let ks := [k0; k1; k2; k3; k4] in let kc := [k0; kc1; k2; k3; k4] in
  establish_verify_pinned close_tag chal pk cid cb mb (forge close_tag chal pk cid cb mb ms mc bfs kbfs ks bfc kbfc kc ctx) ctx
  = Some (blind pk ms bfs, blind pk mc bfc).
Proof. exact pinned_establish_forgery. Qed.

Example C01_nonvacuous :
  let kp := keygen (fq 11) (fq 17) [fq 19; fq 23; fq 29; fq 31; fq 37] (fq 13) in
  let p := establish_prove_with (fq 77) (snd kp) (fq 5) (fq 6) (fq 7) (fq 10) (fq 1000) (fq 41) (fq 43)
             [fq 51; fq 52; fq 53; fq 54; fq 55] (fq 61) (fq 63) (fq 71) (fq 999) in
  (exists v, establish_verify_with (fq 77) (snd kp) (fq 5) (fq 10) (fq 1000) p (fq 999) = Some v) /\
  establish_verify_with (fq 77) (snd kp) (fq 5) (fq 1010) (fq 0) p (fq 999) = None /\
  establish_verify_with (fq 77) (snd kp) (fq 5) (fq 10) (fq 1000) p (fq 998) = None.
Proof. vm_compute. split; [eexists; reflexivity | auto]. Qed.

Print Assumptions C01_establish_verify_spec.
Print Assumptions C01_establish_special_soundness.
Print Assumptions C01_establish_transcript_binds.
Print Assumptions C01_establish_then_sign.
Print Assumptions C01_signature_on_no_other_slot.
Print Assumptions C01_honest_proof_accepted.
Print Assumptions C01_pinned_establish_forgery_refuted.
Print Assumptions C01_nonvacuous.
