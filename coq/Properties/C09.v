(** C09 — Commitments are the exact Pedersen map and open only to what was committed.
    Pinned statements only; proofs are in Proofs/PedersenProofs.v. *)
From ZK Require Import Model.Field Model.Zq Model.QBls Model.Pedersen Proofs.PedersenProofs.
Local Open Scope fld_scope.

(** the commitment is h^bf * prod gi^mi (additively, in discrete-log form: bf*h + sum mi*gi) *)
Theorem C09_commit_spec : forall (K : Fld) (h : K) gs ms bf,
  commit h gs ms bf = h * bf + ip gs ms.
Proof. reflexivity. Qed.

Theorem C09_verify_opening_iff : forall (K : Fld) (h : K) gs c bf ms,
  verify_opening h gs c bf ms = true <-> commit h gs ms bf = c.
Proof. exact verify_opening_iff. Qed.

Theorem C09_opening_accepts_original : forall (K : Fld) (h : K) gs bf ms,
  verify_opening h gs (commit h gs ms bf) bf ms = true.
Proof. exact opening_accepts_original. Qed.

Theorem C09_single_coordinate_rejects : forall (K : Fld) (h : K) gs ms bf j v,
  (j < length ms)%nat -> (j < length gs)%nat -> nth j gs f0 <> f0 -> v <> nth j ms f0 ->
  verify_opening h gs (commit h gs ms bf) bf (upd j v ms) = false.
Proof. exact single_coordinate_rejects. Qed.

Theorem C09_single_coordinate_iff : forall (K : Fld) (h : K) gs ms bf j v,
  (j < length ms)%nat -> (j < length gs)%nat ->
  (verify_opening h gs (commit h gs ms bf) bf (upd j v ms) = true <-> nth j gs f0 = f0 \/ v = nth j ms f0).
Proof. exact single_coordinate_iff. Qed.

Theorem C09_wrong_bf_rejects : forall (K : Fld) (h : K) gs ms bf bf', h <> f0 -> bf' <> bf ->
  verify_opening h gs (commit h gs ms bf) bf' ms = false.
Proof. exact wrong_bf_rejects. Qed.

Theorem C09_wrong_commitment_rejects : forall (K : Fld) (h : K) gs ms bf c, c <> commit h gs ms bf ->
  verify_opening h gs c bf ms = false.
Proof. exact wrong_commitment_rejects. Qed.

Theorem C09_commit_add : forall (K : Fld) (h : K) gs ms ms' bf bf', length ms = length ms' ->
  commit h gs (map2 fadd ms ms') (bf + bf') = commit h gs ms bf + commit h gs ms' bf'.
Proof. exact commit_add. Qed.

(** degenerate inputs: a zero blinding factor, or an all-zero message, change nothing in the formula *)
Theorem C09_commit_zero_bf : forall (K : Fld) (h : K) gs ms, commit h gs ms f0 = ip gs ms.
Proof. exact commit_zero_bf. Qed.

Theorem C09_commit_zero_message : forall (K : Fld) (h : K) gs n bf, commit h gs (repeat f0 n) bf = (h * bf)%fld.
Proof. exact commit_zero_message. Qed.

Theorem C09_zero_bf_still_binds : forall (K : Fld) (h : K) gs ms j v,
  (j < length ms)%nat -> (j < length gs)%nat -> nth j gs f0 <> f0 -> v <> nth j ms f0 ->
  verify_opening h gs (commit h gs ms f0) f0 (upd j v ms) = false.
Proof. exact zero_bf_still_binds. Qed.

Theorem C09_zero_message_commitment_is_not_identity : forall (K : Fld) (h : K) gs n bf, h <> f0 -> bf <> f0 ->
  commit h gs (repeat f0 n) bf <> f0.
Proof. exact zero_message_commitment_is_not_identity. Qed.

(** non-vacuity at the BLS12-381 scalar field: a concrete opening, one changed coordinate, one changed factor *)
Example C09_nonvacuous :
  let h := fq 11 in let gs := [fq 13; fq 17; fq 19] in let ms := [fq 0; fq 1; fq (-1)] in
  verify_opening h gs (commit h gs ms (fq 5)) (fq 5) ms = true /\
  verify_opening h gs (commit h gs ms (fq 5)) (fq 5) (upd 2 (fq 7) ms) = false /\
  verify_opening h gs (commit h gs ms (fq 5)) (fq 6) ms = false.
Proof. vm_compute. auto. Qed.

Print Assumptions C09_commit_spec.
Print Assumptions C09_verify_opening_iff.
Print Assumptions C09_opening_accepts_original.
Print Assumptions C09_single_coordinate_rejects.
Print Assumptions C09_single_coordinate_iff.
Print Assumptions C09_wrong_bf_rejects.
Print Assumptions C09_wrong_commitment_rejects.
Print Assumptions C09_commit_add.
Print Assumptions C09_commit_zero_bf.
Print Assumptions C09_commit_zero_message.
Print Assumptions C09_zero_bf_still_binds.
Print Assumptions C09_zero_message_commitment_is_not_identity.
Print Assumptions C09_nonvacuous.
