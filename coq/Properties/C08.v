(** C08 — Blind signing yields a signature on exactly the message proven in the request. *)
From ZK Require Import Model.Field Model.Zq Model.QBls Model.Pedersen Model.PS Model.Schnorr
  Proofs.PSProofs Proofs.SchnorrProofs.
Local Open Scope fld_scope.

(** a blind-signable value exists only for a verifying proof, and it is the proof's own commitment *)
Theorem C08_vbm_only_from_verifying_proof : forall (K : Fld) (pk : pkey K) (p : cproof K) c v,
  req_verify pk p c = Some v <->
  commit (pk_g1 pk) (pk_y1s pk) (cp_rs p) (cp_rbf p) = cp_T p + cp_C p * c /\ v = cp_C p.
Proof. exact req_verify_iff. Qed.

Theorem C08_rejected_request_yields_nothing : forall (K : Fld) (pk : pkey K) (p : cproof K) c,
  req_verify pk p c = None <-> cp_verify (pk_g1 pk) (pk_y1s pk) p c = false.
Proof. exact req_verify_none_iff. Qed.

(** end to end: honest request -> blind-signable value -> blind signature -> unblinded signature on ms *)
Theorem C08_request_sign_unblind : forall (K : Fld) (sk : skey K) (pk : pkey K) ms bf kbf ks c u,
  key_ok K sk pk -> pk_g1 pk <> f0 -> u <> f0 -> length ms = length ks ->
  exists v, req_verify pk (req_prove pk ms bf kbf ks c) c = Some v /\
            verify pk ms (unblind bf (blind_sign sk pk u v)) = true.
Proof. exact request_sign_unblind. Qed.

(** ... and on no message differing in a single coordinate (multi-coordinate differences are accepted
    iff <Y~, m - m'> = 0, which requires a discrete logarithm of the key: named, not proved) *)
Theorem C08_signature_on_no_other_message : forall (K : Fld) (pk : pkey K) ms s j v,
  verify pk ms s = true -> (j < length ms)%nat -> (j < length (pk_y2s pk))%nat ->
  nth j (pk_y2s pk) f0 <> f0 -> v <> nth j ms f0 -> verify pk (upd j v ms) s = false.
Proof. exact single_coordinate_rejects. Qed.

Theorem C08_other_message_iff : forall (K : Fld) (pk : pkey K) ms ms' s, verify pk ms s = true ->
  (verify pk ms' s = true <-> ip (pk_y2s pk) ms = ip (pk_y2s pk) ms').
Proof. exact verify_other_message. Qed.

Example C08_nonvacuous :
  let kp := keygen (fq 11) (fq 17) [fq 19; fq 23] (fq 13) in
  let ms := [fq 5; fq (-1)] in
  let p := req_prove (snd kp) ms (fq 7) (fq 9) [fq 21; fq 22] (fq 99) in
  req_verify (snd kp) p (fq 99) = Some (blind (snd kp) ms (fq 7)) /\
  req_verify (snd kp) p (fq 98) = None /\
  verify (snd kp) ms (unblind (fq 7) (blind_sign (fst kp) (snd kp) (fq 3) (cp_C p))) = true /\
  verify (snd kp) ms (unblind (fq 7) (blind_sign (fst kp) (snd kp) (fq 3) (cp_T p))) = false.
Proof. vm_compute. auto. Qed.

(** several coordinates at once: moving value d from coordinate j to coordinate i keeps a signature valid exactly when
    (y~_i - y~_j) * d = 0; with pairwise different exponents (independent draws: C19) every such move is rejected. The general
    multi-coordinate statement - acceptance iff <y~, m - m'> = 0 - is C07_verify_other_message; solving it without the secret
    exponents is the discrete-log residue named in the manifest. *)
Theorem C08_moved_value_iff : forall (K : Fld) (pk : pkey K) ms s i j d, verify pk ms s = true ->
  (i < length ms)%nat -> (j < length ms)%nat -> (i < length (pk_y2s pk))%nat -> (j < length (pk_y2s pk))%nat -> i <> j ->
  (verify pk (upd i (nth i ms f0 + d) (upd j (nth j ms f0 - d) ms)) s = true <->
   (nth i (pk_y2s pk) f0 - nth j (pk_y2s pk) f0) * d = f0).
Proof. exact moved_value_iff. Qed.
Theorem C08_moved_value_rejected : forall (K : Fld) (pk : pkey K) ms s i j d, verify pk ms s = true ->
  (i < length ms)%nat -> (j < length ms)%nat -> (i < length (pk_y2s pk))%nat -> (j < length (pk_y2s pk))%nat -> i <> j ->
  nth i (pk_y2s pk) f0 <> nth j (pk_y2s pk) f0 -> d <> f0 ->
  verify pk (upd i (nth i ms f0 + d) (upd j (nth j ms f0 - d) ms)) s = false.
Proof. exact moved_value_rejected. Qed.

Print Assumptions C08_vbm_only_from_verifying_proof.
Print Assumptions C08_rejected_request_yields_nothing.
Print Assumptions C08_request_sign_unblind.
Print Assumptions C08_signature_on_no_other_message.
Print Assumptions C08_other_message_iff.
Print Assumptions C08_nonvacuous.
Print Assumptions C08_moved_value_iff.
Print Assumptions C08_moved_value_rejected.
