(** C19 — Generated keys and parameters are well-formed for every randomness stream. *)
From ZK Require Import Model.Field Model.Zq Model.QBls Model.Pedersen Model.PS Model.Range Model.Keygen
  Proofs.PSProofs Proofs.KeygenProofs.
From ZK Require Import Model.Abacus Model.Customer Model.Merchant Model.Protocol Proofs.ProtocolProofs.
Local Open Scope fld_scope.

Theorem C19_keygen_wf : forall (K : Fld) n (g1s scalars g2s : list K) sk pk,
  keygen_stream n g1s scalars g2s = Some (sk, pk) ->
  length (sk_ys sk) = n /\ sk_wf sk = true /\ pk_wf pk = true /\ key_ok K sk pk /\ pk_g1 pk <> f0 /\
  (forall h ms, h <> f0 -> verify pk ms (sign sk h ms) = true).
Proof. exact keygen_wf. Qed.

Theorem C19_keygen_terminates : forall (K : Fld) n (g1s scalars g2s : list K),
  (exists y, In y g1s /\ y <> f0) -> (exists y, In y g2s /\ y <> f0) ->
  (exists r, take_nonzero (S n) scalars = Some r) ->
  exists kp, keygen_stream n g1s scalars g2s = Some kp.
Proof. exact keygen_terminates. Qed.

Theorem C19_nonzero_draws_skip_exactly_the_zeros : forall (K : Fld) (draws : list K) x rest,
  next_nonzero draws = Some (x, rest) ->
  x <> f0 /\ exists pre, draws = pre ++ x :: rest /\ Forall (fun y => y = f0) pre.
Proof. exact next_nonzero_spec. Qed.

Theorem C19_pedersen_new_wf : forall (K : Fld) n (gdraws : list K) h gs,
  pedersen_new_stream n gdraws = Some (h, gs) -> length gs = n /\ params_wf h gs = true.
Proof. exact pedersen_new_wf. Qed.

Theorem C19_range_params_new_valid : forall (K : Fld) (sk : skey K) (pk : pkey K) hs,
  key_ok K sk pk -> Forall (fun h => h <> f0) hs ->
  validate (range_params_new sk pk hs) = true /\ length (rp_sigs (range_params_new sk pk hs)) = length hs.
Proof. exact range_params_new_valid. Qed.

(** [merchant::Config::new] as a whole: for every choice of streams in which each generator finds enough non-identity /
    non-zero draws, the generated configuration is fit for honest runs ([mconfig_ok]: consistent key with non-identity g1, valid
    range parameters with 128 digit signatures), its revocation-commitment generators are not the identity, and the key
    lengths are 5 and 1 - so the whole-run theorems of C04 apply to generated configurations *)
Theorem C19_generated_merchant_config_fit_for_honest_runs : forall (K : Fld) g1s scalars g2s rev_draws rg1s rscalars rg2s bases (m : mconfig K),
  merchant_config_new g1s scalars g2s rev_draws rg1s rscalars rg2s bases = Some m ->
  mconfig_ok K m /\ m_hr m <> f0 /\ m_gr m <> f0 /\ length (pk_y1s (m_pk m)) = 5%nat /\ length (pk_y2s (rp_pk (m_rp m))) = 1%nat.
Proof. exact generated_config_ok. Qed.

Example C19_nonvacuous :
  match keygen_stream 2 [fq 0; fq 11] [fq 0; fq 0; fq 17; fq 0; fq 19; fq 23; fq 99] [fq 13] with
  | Some (sk, pk) => sk_x sk = fq 17 /\ sk_ys sk = [fq 19; fq 23] /\ pk_wf pk = true
  | None => False end.
Proof. vm_compute. auto. Qed.

Print Assumptions C19_keygen_wf.
Print Assumptions C19_keygen_terminates.
Print Assumptions C19_nonzero_draws_skip_exactly_the_zeros.
Print Assumptions C19_pedersen_new_wf.
Print Assumptions C19_range_params_new_valid.
Print Assumptions C19_nonvacuous.
Print Assumptions C19_generated_merchant_config_fit_for_honest_runs.
