(** C06 — An accepted proof is rejected under any other statement, key or context.
    Shape: the verifiers factor as  verify t p = verify_with t p (chal (transcript t p)).
    Proved: (1) a proof with a non-identity commitment is accepted under at most ONE challenge value, which is
    a function of the proof and the parameters; (2) acceptance under two statements that differ in a component
    used in an equation forces that challenge to be 0; (3) the two transcripts differ (binding, C12).  Hence a
    second acceptance requires the hash to send a different transcript to one prescribed value (for equation
    components: to 0) - the random-oracle step is the named gap.  Known finding F5: channel ids enter only
    through their scalar, so ids congruent mod q are indistinguishable ([C06_cid_alias_exists]). *)
From ZK Require Import Model.Field Model.Zq Model.QBls Model.Pedersen Model.PS Model.Schnorr Model.Range
  Model.Abacus Model.Ids Proofs.PSProofs Proofs.SchnorrProofs Proofs.EstablishProofs Proofs.PayProofs
  Proofs.ChallengeProofs Proofs.IdsProofs.
Local Open Scope fld_scope.

Theorem C06_unique_accepting_challenge : forall (K : Fld) (h : K) gs p c c', cp_C p <> f0 ->
  cp_verify h gs p c = true -> cp_verify h gs p c' = true -> c = c'.
Proof. exact unique_accepting_challenge. Qed.

Theorem C06_accepting_challenge_formula : forall (K : Fld) (h : K) gs (p : cproof K) c, cp_C p <> f0 ->
  cp_verify h gs p c = true -> c = (commit h gs (cp_rs p) (cp_rbf p) - cp_T p) / cp_C p.
Proof. exact accepting_challenge_formula. Qed.

(** establish: another (channel-id scalar, balances) tuple with the same challenge forces c = 0 *)
Theorem C06_establish_two_statements : forall (K : Fld) (close_tag : K) (pk : pkey K) cid cb mb cid' cb' mb' (p : eproof K) c,
  establish_rel K close_tag pk cid cb mb p c -> establish_rel K close_tag pk cid' cb' mb' p c ->
  (cid, cb, mb) <> (cid', cb', mb') -> c = f0.
Proof. exact establish_two_statements. Qed.

Theorem C06_establish_unique_challenge : forall (K : Fld) (close_tag : K) (pk : pkey K) cid cb mb cid' cb' mb' (p : eproof K) c c',
  cp_C (e_sp p) <> f0 ->
  establish_rel K close_tag pk cid cb mb p c -> establish_rel K close_tag pk cid' cb' mb' p c' -> c = c'.
Proof. exact establish_unique_challenge. Qed.

(** pay: another nonce / another amount with the same challenge forces c = 0 *)
Theorem C06_pay_two_nonces : forall (K : Fld) (close_tag : K) (pk : pkey K) rp hr gr nonce nonce' eps eps' (p : pproof K) c,
  pay_rel K close_tag pk rp hr gr nonce eps p c -> pay_rel K close_tag pk rp hr gr nonce' eps' p c ->
  nonce <> nonce' -> c = f0.
Proof. exact one_token_two_nonces. Qed.

Theorem C06_replace_amount : forall (K : Fld) (close_tag : K) (pk : pkey K) rp hr gr nonce eps eps' (p : pproof K) c,
  pay_rel K close_tag pk rp hr gr nonce eps p c -> pay_rel K close_tag pk rp hr gr nonce eps' p c ->
  eps <> eps' -> c = f0.
Proof. exact replace_amount. Qed.

(** the revocation-commitment parameters are not hashed: acceptance under other parameters is exactly a linear
    condition on the two responses (false for honestly random responses unless the parameters are equal) *)
Theorem C06_replace_rev_params : forall (K : Fld) (hr gr hr' gr' : K) (p : cproof K) c, length (cp_rs p) = 1%nat ->
  cp_verify hr [gr] p c = true ->
  (cp_verify hr' [gr'] p c = true <-> cp_rbf p * (hr' - hr) + rs_at p 0 * (gr' - gr) = f0).
Proof. exact replace_rev_params. Qed.

(** key / range parameters / context / channel id / balances / nonce are hashed: the transcripts differ *)
Theorem C06_establish_transcripts_differ : forall (K : Fld) (close_tag : K) (pk pk' : pkey K)
    cid cb mb cid' cb' mb' (p : eproof K) ctx ctx',
  length (pk_y1s pk) = length (pk_y1s pk') -> length (pk_y2s pk) = length (pk_y2s pk') ->
  (pk, cid, cb, mb, ctx) <> (pk', cid', cb', mb', ctx') ->
  establish_transcript close_tag pk cid cb mb p ctx <> establish_transcript close_tag pk' cid' cb' mb' p ctx'.
Proof. exact establish_transcripts_differ. Qed.

(** a valid closing signature rejects any single-field substitution in the close-state message (as scalars) *)
Theorem C06_close_message_substitution : forall (K : Fld) (pk : pkey K) ms s j v,
  verify pk ms s = true -> (j < length ms)%nat -> (j < length (pk_y2s pk))%nat ->
  nth j (pk_y2s pk) f0 <> f0 -> v <> nth j ms f0 -> verify pk (upd j v ms) s = false.
Proof. exact single_coordinate_rejects. Qed.

(** known finding F5: two different 256-bit channel ids with one scalar *)
Theorem C06_cid_alias_exists : exists n n' : Z, n <> n' /\ (0 <= n < 2 ^ 256)%Z /\ (0 <= n' < 2 ^ 256)%Z /\
  @of_Z Fq n = @of_Z Fq n'.
Proof. exact cid_alias_exists. Qed.

(** ... and the known class is exact: two ids share a scalar if and only if they are congruent modulo q; in particular changing
    any single bit of a 256-bit id changes its scalar *)
Theorem C06_cid_scalars_equal_iff_congruent : forall n n' : Z, @of_Z Fq n = @of_Z Fq n' <-> (n mod q_bls = n' mod q_bls)%Z.
Proof. exact scalars_equal_iff_congruent. Qed.
Theorem C06_cid_bit_flip_changes_scalar : forall n k : Z, (0 <= k < 256)%Z ->
  @of_Z Fq n <> @of_Z Fq (n + 2 ^ k) /\ @of_Z Fq n <> @of_Z Fq (n - 2 ^ k).
Proof. exact cid_bit_flip_changes_scalar. Qed.

Print Assumptions C06_unique_accepting_challenge.
Print Assumptions C06_accepting_challenge_formula.
Print Assumptions C06_establish_two_statements.
Print Assumptions C06_establish_unique_challenge.
Print Assumptions C06_pay_two_nonces.
Print Assumptions C06_replace_amount.
Print Assumptions C06_replace_rev_params.
Print Assumptions C06_establish_transcripts_differ.
Print Assumptions C06_close_message_substitution.
Print Assumptions C06_cid_alias_exists.
Print Assumptions C06_cid_scalars_equal_iff_congruent.
Print Assumptions C06_cid_bit_flip_changes_scalar.
