(** C02 — Merchant approves payments only for a correct, unspent, in-range state update.
    Partial: exact relation, special soundness (incl. a valid merchant signature on the old state and
    valid range-key signatures on the digits), transcript binding, "one token, two nonces" are proved;
    rewinding and PS unforgeability are not formalised (DESIGN.md section 6). *)
From ZK Require Import Model.Field Model.Zq Model.QBls Model.Pedersen Model.PS Model.Schnorr Model.Range
  Model.Abacus Model.Amount Proofs.PSProofs Proofs.SchnorrProofs Proofs.RangeProofs Proofs.EstablishProofs
  Proofs.PayProofs Proofs.ChallengeProofs Proofs.AmountProofs.
Local Open Scope fld_scope.

Theorem C02_pay_verify_spec : forall (K : Fld) (close_tag : K) (pk : pkey K) rp hr gr nonce eps (p : pproof K) c v,
  pay_verify_with close_tag pk rp hr gr nonce eps p c = Some v <->
  pay_rel K close_tag pk rp hr gr nonce eps p c /\ v = (cp_C (p_sp p), cp_C (p_csp p), cp_C (p_rev p)).
Proof. exact pay_verify_spec. Qed.

Theorem C02_pay_special_soundness : forall (K : Fld) (close_tag : K) (pk : pkey K) rp hr gr nonce eps (p p' : pproof K) c c',
  c - c' <> f0 -> length (pk_y1s pk) = 5%nat -> length (pk_y2s pk) = 5%nat ->
  length (pk_y2s (rp_pk rp)) = 1%nat ->
  pay_lengths K pk p -> pay_lengths K pk p' -> pay_same_first K p p' ->
  pay_rel K close_tag pk rp hr gr nonce eps p c -> pay_rel K close_tag pk rp hr gr nonce eps p' c' ->
  let d := c - c' in
  let mo := xs K d (sp_cp (p_tok p)) (sp_cp (p_tok p')) in
  let mn := xs K d (p_sp p) (p_sp p') in
  let mc := xs K d (p_csp p) (p_csp p') in
  let ml := xs K d (p_rev p) (p_rev p') in
  verify pk mo (unblind (xbf K d (sp_cp (p_tok p)) (sp_cp (p_tok p'))) (sp_sig (p_tok p))) = true /\
  cp_C (p_sp p) = blind pk mn (xbf K d (p_sp p) (p_sp p')) /\
  cp_C (p_csp p) = blind pk mc (xbf K d (p_csp p) (p_csp p')) /\
  cp_C (p_rev p) = commit hr [gr] ml (xbf K d (p_rev p) (p_rev p')) /\
  nth 1 mo f0 = nonce /\
  nth 0 mn f0 = nth 0 mo f0 /\ nth 0 mc f0 = nth 0 mo f0 /\
  nth 1 mc f0 = close_tag /\
  nth 0 ml f0 = nth 2 mo f0 /\
  nth 2 mn f0 = nth 2 mc f0 /\
  nth 3 mn f0 = nth 3 mo f0 - eps /\ nth 4 mn f0 = nth 4 mo f0 + eps /\
  nth 3 mc f0 = nth 3 mn f0 /\ nth 4 mc f0 = nth 4 mn f0 /\
  (Forall2 (fun q q' => exists bf, verify (rp_pk rp) [xdigit K d q q'] (unblind bf (sp_sig q)) = true)
           (p_crange p) (p_crange p') /\
   horner K (map2 (xdigit K d) (p_crange p) (p_crange p')) = nth 3 mn f0) /\
  (Forall2 (fun q q' => exists bf, verify (rp_pk rp) [xdigit K d q q'] (unblind bf (sp_sig q)) = true)
           (p_mrange p) (p_mrange p') /\
   horner K (map2 (xdigit K d) (p_mrange p) (p_mrange p')) = nth 4 mn f0).
Proof. exact pay_special_soundness. Qed.

Theorem C02_pay_transcript_binds : forall (K : Fld) (close_tag : K) (pk pk' : pkey K) (rp rp' : rparams K)
    nonce nonce' (p p' : pproof K) ctx ctx',
  length (pk_y1s pk) = length (pk_y1s pk') -> length (pk_y2s pk) = length (pk_y2s pk') ->
  length (rp_sigs rp) = length (rp_sigs rp') ->
  length (pk_y1s (rp_pk rp)) = length (pk_y1s (rp_pk rp')) ->
  length (pk_y2s (rp_pk rp)) = length (pk_y2s (rp_pk rp')) ->
  length (p_crange p) = length (p_crange p') -> length (p_mrange p) = length (p_mrange p') ->
  pay_transcript close_tag pk rp nonce p ctx = pay_transcript close_tag pk' rp' nonce' p' ctx' ->
  pk = pk' /\ rp = rp' /\ nonce = nonce' /\
  cp_C (p_rev p) = cp_C (p_rev p') /\ cp_T (p_rev p) = cp_T (p_rev p') /\
  cp_C (p_sp p) = cp_C (p_sp p') /\ cp_T (p_sp p) = cp_T (p_sp p') /\
  cp_C (p_csp p) = cp_C (p_csp p') /\ cp_T (p_csp p) = cp_T (p_csp p') /\
  sp_first K (p_tok p) = sp_first K (p_tok p') /\
  map (sp_first K) (p_crange p) = map (sp_first K) (p_crange p') /\
  map (sp_first K) (p_mrange p) = map (sp_first K) (p_mrange p') /\
  p_knonce p = p_knonce p' /\ p_kclose p = p_kclose p' /\ ctx = ctx'.
Proof. exact pay_transcript_binds. Qed.

(** one proof accepted under two nonces with the same challenge forces that challenge to be 0 ... *)
Theorem C02_one_token_two_nonces : forall (K : Fld) (close_tag : K) (pk : pkey K) rp hr gr nonce nonce' eps eps' (p : pproof K) c,
  pay_rel K close_tag pk rp hr gr nonce eps p c -> pay_rel K close_tag pk rp hr gr nonce' eps' p c ->
  nonce <> nonce' -> c = f0.
Proof. exact one_token_two_nonces. Qed.

(** ... and a proof with a non-identity state commitment is accepted under at most one challenge, so a
    second acceptance (other nonce: another transcript, by binding) needs a hash collision onto 0 *)
Theorem C02_pay_unique_challenge : forall (K : Fld) (close_tag : K) (pk : pkey K) rp hr gr nonce eps nonce' eps' (p : pproof K) c c',
  cp_C (p_sp p) <> f0 ->
  pay_rel K close_tag pk rp hr gr nonce eps p c -> pay_rel K close_tag pk rp hr gr nonce' eps' p c' -> c = c'.
Proof. exact pay_unique_challenge. Qed.

Theorem C02_honest_payment_accepted : forall (K : Fld) (close_tag : K) (pk : pkey K) rp hr gr (tok : sigt K)
    cid nonce lock ocb omb nn lock' cbz mbz eps d c,
  verify pk [cid; nonce; lock; ocb; omb] tok = true ->
  validate rp = true -> length (rp_sigs rp) = 128%nat ->
  (0 <= cbz < 2 ^ 63)%Z -> (0 <= mbz < 2 ^ 63)%Z ->
  of_Z cbz = ocb - eps -> of_Z mbz = omb + eps ->
  length (d_dsc d) = 9%nat -> length (d_dsm d) = 9%nat ->
  Forall (fun rd => rd_r rd <> f0) (d_dsc d) -> Forall (fun rd => rd_r rd <> f0) (d_dsm d) ->
  d_rt d <> f0 ->
  let old := [cid; nonce; lock; ocb; omb] in
  let new := [cid; nn; lock'; of_Z cbz; of_Z mbz] in
  exists p, pay_prove_with close_tag pk rp hr gr tok old cbz mbz new d c = Some p /\
    pay_verify_with close_tag pk rp hr gr nonce eps p c
    = Some (blind pk new (d_bfs d), blind pk [cid; close_tag; lock'; of_Z cbz; of_Z mbz] (d_bfc d),
            commit hr [gr] [lock] (d_bfr d)).
Proof. exact pay_complete. Qed.

(** from the field to the integers (BLS12-381 scalar field): if the nine digit messages extracted for each new balance are
    genuine digits (each in [0,128) - what the range key's signatures attest; PS unforgeability is the named assumption) and
    the old balances and the amount are in their machine ranges, then the field equations of an accepted payment are integer
    equations: exactly the amount moves, both new balances are in [0, 2^63-1], the sum is conserved. No reduction modulo q can
    hide an overdraft. *)
Theorem C02_accepted_payment_moves_exactly_the_amount : forall (ocb omb a : Z) dsc dsm,
  (0 <= ocb <= i64_max)%Z -> (0 <= omb <= i64_max)%Z -> is_i64 a ->
  length dsc = 9%nat -> Forall (fun d => (0 <= d < 128)%Z) dsc ->
  length dsm = 9%nat -> Forall (fun d => (0 <= d < 128)%Z) dsm ->
  horner Fq (map (@of_Z Fq) dsc) = fsub (balance_scalar (K:=Fq) ocb) (amount_scalar a) ->
  horner Fq (map (@of_Z Fq) dsm) = fadd (balance_scalar (K:=Fq) omb) (amount_scalar a) ->
  zweighted dsc = (ocb - a)%Z /\ zweighted dsm = (omb + a)%Z /\
  (0 <= ocb - a <= i64_max)%Z /\ (0 <= omb + a <= i64_max)%Z /\ (zweighted dsc + zweighted dsm = ocb + omb)%Z.
Proof. exact accepted_payment_moves_exactly_the_amount. Qed.

(** non-vacuity, and the failure it excludes: with out-of-range "digits" the same field equation is satisfiable for an overdraft *)
Example C02_integer_update_nonvacuous :
  horner Fq (map (@of_Z Fq) [90; 0; 0; 0; 0; 0; 0; 0; 0]%Z) = fsub (balance_scalar (K:=Fq) 100) (amount_scalar 10) /\
  horner Fq (map (@of_Z Fq) [-900; 0; 0; 0; 0; 0; 0; 0; 0]%Z) = fsub (balance_scalar (K:=Fq) 100) (amount_scalar 1000).
Proof. split; apply (feqb_ok Fq); vm_compute; reflexivity. Qed.

Print Assumptions C02_pay_verify_spec.
Print Assumptions C02_pay_special_soundness.
Print Assumptions C02_pay_transcript_binds.
Print Assumptions C02_one_token_two_nonces.
Print Assumptions C02_pay_unique_challenge.
Print Assumptions C02_honest_payment_accepted.
Print Assumptions C02_accepted_payment_moves_exactly_the_amount.
Print Assumptions C02_integer_update_nonvacuous.
