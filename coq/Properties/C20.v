(** C20 — A customer restored from storage at any step continues exactly as the original.
    (1) storing and restoring is the identity on every well-formed state (codec_ok of the stage codecs);
    (2) every reachable state is well formed: balances in range and stored signatures with a non-identity first
    element (from the invariant), nonces different from the close tag and locks equal to the hash of their secret
    (by construction of the generators, C18 / C05);
    (3) every transition and every close is a FUNCTION of (state, reply, randomness) in the model and in the Rust
    typestate API, so equal states continue identically. *)
From Coq Require Import ZArith List Bool Lia.
From ZK Require Import Model.Field Model.Zq Model.QBls Model.Pedersen Model.PS Model.Abacus Model.Amount Model.Customer
  Model.Ids Model.Wire Model.Codecs Proofs.PSProofs Proofs.WireProofs Proofs.CodecsProofs Proofs.CustomerProofs.
Import ListNotations.

Theorem C20_restore_is_identity : forall A (c : codec A), codec_ok c -> forall v, wf c v ->
  res_of (dec c (enc c v)) = Some (v, []).
Proof. exact @restore_is_identity. Qed.

Theorem C20_stage_codecs_ok : forall (K : Fld) (close_tag : K) (c_scalar c_g1 : codec K) (lock_ok : K -> K -> Z -> bool),
  codec_ok c_scalar -> codec_ok c_g1 ->
  codec_ok (c_requested K close_tag c_scalar lock_ok) /\ codec_ok (c_inactive K close_tag c_scalar c_g1 lock_ok) /\
  codec_ok (c_ready K close_tag c_scalar c_g1 lock_ok) /\ codec_ok (c_started K close_tag c_scalar c_g1 lock_ok).
Proof. intros K ct cs c1 lo Hs H1. exact (stage_codecs_ok K ct cs c1 lo Hs H1). Qed.

Theorem C20_reachable_signatures_well_formed : forall (K : Fld) (close_tag cid : K) (pk : pkey K) (y : sys K),
  Inv K close_tag cid pk y ->
  match closing_view (sy_stage y) with Some (sig, _) => fst sig <> f0 | None => True end /\
  match sy_stage y with Ready _ tok _ => fst tok <> f0 | _ => True end.
Proof. exact reachable_signatures_well_formed. Qed.

Theorem C20_reachable_balances_in_range : forall (K : Fld) (close_tag cid : K) (pk : pkey K) evs (y : sys K),
  Inv K close_tag cid pk y -> fresh_along K close_tag pk y evs ->
  (0 <= sy_cb (run close_tag pk y evs) <= i64_max)%Z /\ (0 <= sy_mb (run close_tag pk y evs) <= i64_max)%Z.
Proof. exact reachable_balances_in_range. Qed.

(** equal states continue identically: transitions and closing are functions *)
Theorem C20_equal_states_continue_identically : forall (K : Fld) (close_tag : K) (pk : pkey K) (st st' : stage K) ev rho,
  st = st' -> step close_tag pk st ev = step close_tag pk st' ev /\ close_of st rho = close_of st' rho.
Proof. exact equal_states_continue_identically. Qed.

Print Assumptions C20_restore_is_identity.
Print Assumptions C20_stage_codecs_ok.
Print Assumptions C20_reachable_signatures_well_formed.
Print Assumptions C20_reachable_balances_in_range.
Print Assumptions C20_equal_states_continue_identically.
