(** C17 — Balance and amount arithmetic is total, exact and range-preserving (all 64-bit inputs, both
    overflow profiles). Integers are Z with explicit ranges; "never panics or wraps" is a statement about
    the explicit [outcome] of every operation that can overflow (Model/Amount.v), not about Gallina's totality. *)
From ZK Require Import Model.Field Model.Zq Model.QBls Model.Amount Proofs.AmountProofs.
Open Scope Z_scope.

Theorem C17_try_new_spec : forall v, is_u64 v ->
  (v <= i64_max -> balance_try_new v = Ok v) /\ (v > i64_max -> balance_try_new v = Err (AmountTooLarge v)).
Proof. exact try_new_spec. Qed.

Theorem C17_pay_merchant_spec : forall amount, is_u64 amount ->
  (amount <= i64_max -> pay_merchant amount = Ok amount) /\
  (amount > i64_max -> pay_merchant amount = Err (AmountTooLarge amount)).
Proof. exact pay_merchant_spec. Qed.

Theorem C17_pay_customer_spec : forall amount, is_u64 amount ->
  (amount <= i64_max -> pay_customer amount = Ok (- amount) /\ is_i64 (- amount)) /\
  (amount > i64_max -> pay_customer amount = Err (AmountTooLarge amount)).
Proof. exact pay_customer_spec. Qed.

Theorem C17_apply_payment_spec : forall cb mb a, 0 <= cb <= i64_max -> 0 <= mb <= i64_max -> is_i64 a ->
  (0 <= cb - a <= i64_max /\ 0 <= mb + a <= i64_max -> apply_payment cb mb a = Ok (cb - a, mb + a)) /\
  (forall cb' mb', apply_payment cb mb a = Ok (cb', mb') ->
     cb' = cb - a /\ mb' = mb + a /\ 0 <= cb' <= i64_max /\ 0 <= mb' <= i64_max /\ cb' + mb' = cb + mb) /\
  (cb - a < 0 -> apply_payment cb mb a = Err InsufficientFunds) /\
  (cb - a > i64_max -> apply_payment cb mb a = Err (AmountTooLarge (cb - a))) /\
  (0 <= cb - a <= i64_max -> mb + a < 0 -> apply_payment cb mb a = Err InsufficientFunds) /\
  (0 <= cb - a <= i64_max -> mb + a > i64_max -> apply_payment cb mb a = Err (AmountTooLarge (mb + a))).
Proof. exact apply_payment_spec. Qed.

Theorem C17_try_add_never_overflows : forall pr mb cb, 0 <= mb <= i64_max -> 0 <= cb <= i64_max ->
  try_add pr mb cb = Val (balance_try_new (mb + cb)).
Proof. exact try_add_spec. Qed.

Theorem C17_balance_decode_spec : forall v b, is_u64 v -> (balance_decode v = Some b <-> b = v /\ v <= i64_max).
Proof. exact balance_decode_spec. Qed.

(** the scalar encoding is total on all of i64 (no abs overflow) and is the ring image of the integer ... *)
Theorem C17_amount_scalar_total : forall (K : Fld) a, amount_scalar (K:=K) a = of_Z a.
Proof. exact amount_scalar_spec. Qed.

(** ... hence consistent with integer arithmetic *)
Theorem C17_encoding_homomorphic : forall (K : Fld) (b a : Z),
  fsub (balance_scalar (K:=K) b) (amount_scalar a) = balance_scalar (b - a) /\
  fadd (balance_scalar (K:=K) b) (amount_scalar a) = balance_scalar (b + a).
Proof. exact encoding_homomorphic. Qed.

Theorem C17_encoding_injective_below_q : forall x y, 0 <= x < q_bls -> 0 <= y < q_bls -> @of_Z Fq x = @of_Z Fq y -> x = y.
Proof. exact encoding_injective. Qed.

(** refutation of the pinned code (D4): with overflow checks on, the old encoding panics on i64::MIN *)
Theorem C17_pinned_amount_min_overflows_refuted : forall (K : Fld), amount_scalar_pinned (K:=K) Debug i64_min = Panics.
Proof. exact pinned_amount_min_overflows. Qed.

Theorem C17_try_add_needs_the_decoder_invariant :
  try_add Debug u64_max 1 = Panics /\ exists w, try_add Release u64_max 1 = Val (Ok w) /\ w = 0.
Proof. exact try_add_overflows_without_invariant. Qed.

Example C17_nonvacuous :
  apply_payment (2 ^ 63 - 1) 0 (2 ^ 63 - 1) = Ok (0, 2 ^ 63 - 1) /\
  apply_payment 0 (2 ^ 63 - 1) (- 2 ^ 63) = Err (AmountTooLarge (2 ^ 63)) /\
  apply_payment 5 5 6 = Err InsufficientFunds /\ pay_customer (2 ^ 63) = Err (AmountTooLarge (2 ^ 63)).
Proof. vm_compute. auto. Qed.

(** the amount encoding is injective on ALL i64 values (not only on the amounts a constructor can produce): two different wire
    amounts never share a scalar - so a proof made for one amount cannot pass for another through the encoding *)
Theorem C17_amount_encoding_injective_on_i64 : forall a a', is_i64 a -> is_i64 a' ->
  amount_scalar (K:=Fq) a = amount_scalar a' -> a = a'.
Proof. exact amount_encoding_injective_on_i64. Qed.

Print Assumptions C17_try_new_spec.
Print Assumptions C17_pay_merchant_spec.
Print Assumptions C17_pay_customer_spec.
Print Assumptions C17_apply_payment_spec.
Print Assumptions C17_try_add_never_overflows.
Print Assumptions C17_balance_decode_spec.
Print Assumptions C17_amount_scalar_total.
Print Assumptions C17_encoding_homomorphic.
Print Assumptions C17_encoding_injective_below_q.
Print Assumptions C17_pinned_amount_min_overflows_refuted.
Print Assumptions C17_try_add_needs_the_decoder_invariant.
Print Assumptions C17_nonvacuous.
Print Assumptions C17_amount_encoding_injective_on_i64.
