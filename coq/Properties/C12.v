(** C12 — Challenges bind every first-message element and match for prover and verifier. *)
From ZK Require Import Model.Field Model.Zq Model.QBls Model.Pedersen Model.PS Model.Schnorr Model.Range
  Model.Abacus Model.Pinned Proofs.SchnorrProofs Proofs.EstablishProofs Proofs.ChallengeProofs Proofs.PinnedProofs.
Local Open Scope fld_scope.

(** builder and finished proof feed the same chunks *)
Theorem C12_builder_proof_transcript_eq : forall (K : Fld) (h : K) gs ms bf kbf ks c,
  cp_transcript (cp_prove h gs ms bf kbf ks c) = cp_builder_transcript (cp_commit_phase h gs ms bf kbf ks).
Proof. exact builder_proof_transcript_eq. Qed.

Theorem C12_establish_prover_verifier_same_transcript : forall (K : Fld) (close_tag : K) (pk : pkey K)
    cid nonce lock cb mb bfs kbfs ks bfc kbfc kclose c ctx,
  establish_transcript close_tag pk cid cb mb
    (establish_prove_with close_tag pk cid nonce lock cb mb bfs kbfs ks bfc kbfc kclose c) ctx
  = establish_transcript close_tag pk cid cb mb
      (establish_first close_tag pk cid nonce lock cb mb bfs kbfs ks bfc kbfc kclose) ctx.
Proof. exact establish_transcript_first. Qed.

(** chunk lists of fixed-width chunks concatenate injectively: equal hashed byte strings give equal chunks *)
Theorem C12_concat_chunks_injective : forall (A : Type) (enc : A -> list Z) (width : A -> nat),
  (forall a, length (enc a) = width a) ->
  forall l l', Forall2 (fun a a' => width a = width a') l l' ->
  flat_map enc l = flat_map enc l' -> map enc l = map enc l'.
Proof. exact concat_chunks_injective. Qed.

Theorem C12_public_key_chunks_injective : forall (K : Fld) (pk pk' : pkey K),
  length (pk_y1s pk) = length (pk_y1s pk') -> pk_chunks pk = pk_chunks pk' -> pk = pk'.
Proof. exact pk_chunks_injective. Qed.

Theorem C12_range_parameter_chunks_injective : forall (K : Fld) (rp rp' : rparams K) (r r' : list (atom K)),
  length (rp_sigs rp) = length (rp_sigs rp') ->
  length (pk_y1s (rp_pk rp)) = length (pk_y1s (rp_pk rp')) ->
  length (pk_y2s (rp_pk rp)) = length (pk_y2s (rp_pk rp')) ->
  rp_chunks rp ++ r = rp_chunks rp' ++ r' -> rp = rp' /\ r = r'.
Proof. exact rp_chunks_app_inj. Qed.

Theorem C12_range_constraint_chunks_injective : forall (K : Fld) (ps ps' : list (sproof K)),
  length ps = length ps' -> range_chunks ps = range_chunks ps' -> map (sp_first K) ps = map (sp_first K) ps'.
Proof. exact range_chunks_injective. Qed.

(** no field of an establish proof other than a response scalar can change without changing the transcript *)
Theorem C12_establish_transcript_binds : forall (K : Fld) (close_tag : K) (pk pk' : pkey K)
    cid cb mb cid' cb' mb' (p p' : eproof K) ctx ctx',
  length (pk_y1s pk) = length (pk_y1s pk') -> length (pk_y2s pk) = length (pk_y2s pk') ->
  establish_transcript close_tag pk cid cb mb p ctx = establish_transcript close_tag pk' cid' cb' mb' p' ctx' ->
  pk = pk' /\ cid = cid' /\ cb = cb' /\ mb = mb' /\
  cp_C (e_sp p) = cp_C (e_sp p') /\ cp_T (e_sp p) = cp_T (e_sp p') /\
  cp_C (e_csp p) = cp_C (e_csp p') /\ cp_T (e_csp p) = cp_T (e_csp p') /\
  e_kcid p = e_kcid p' /\ e_kclose p = e_kclose p' /\ e_kcb p = e_kcb p' /\ e_kmb p = e_kmb p' /\ ctx = ctx'.
Proof. exact establish_transcript_binds. Qed.

Theorem C12_pay_transcript_binds : forall (K : Fld) (close_tag : K) (pk pk' : pkey K) (rp rp' : rparams K)
    nonce nonce' (p p' : pproof K) ctx ctx',
  length (pk_y1s pk) = length (pk_y1s pk') -> length (pk_y2s pk) = length (pk_y2s pk') ->
  length (rp_sigs rp) = length (rp_sigs rp') ->
  length (pk_y1s (rp_pk rp)) = length (pk_y1s (rp_pk rp')) ->
  length (pk_y2s (rp_pk rp)) = length (pk_y2s (rp_pk rp')) ->
  length (p_crange p) = length (p_crange p') -> length (p_mrange p) = length (p_mrange p') ->
  pay_transcript close_tag pk rp nonce p ctx = pay_transcript close_tag pk' rp' nonce' p' ctx' ->
  pk = pk' /\ rp = rp' /\ nonce = nonce' /\
  cp_C (p_rev p) = cp_C (p_rev p') /\ cp_T (p_rev p) = cp_T (p_rev p') /\
  cp_C (p_sp p) = cp_C (p_sp p') /\ cp_T (p_sp p) = cp_T (p_sp p') /\
  cp_C (p_csp p) = cp_C (p_csp p') /\ cp_T (p_csp p) = cp_T (p_csp p') /\
  sp_first K (p_tok p) = sp_first K (p_tok p') /\
  map (sp_first K) (p_crange p) = map (sp_first K) (p_crange p') /\
  map (sp_first K) (p_mrange p) = map (sp_first K) (p_mrange p') /\
  p_knonce p = p_knonce p' /\ p_kclose p = p_kclose p' /\ ctx = ctx'.
Proof. exact pay_transcript_binds. Qed.

(** "the challenge changes": two different transcripts with one challenge are an explicit collision of the
    hash-to-scalar map, for whatever hash is used *)
Theorem C12_same_challenge_is_collision : forall (K : Fld) (chal : list (atom K) -> K) t t',
  t <> t' -> chal t = chal t' -> exists a b, a <> b /\ chal a = chal b.
Proof. exact same_challenge_is_collision. Qed.

(** REFUTATIONS of the pinned transcripts (D1): proofs differing in a revealed commitment scalar hashed to the same string *)
Theorem C12_pinned_establish_binds_refuted : forall (K : Fld) (close_tag : K) (pk : pkey K) cid cb mb (p : eproof K) ctx k',
  establish_transcript_pinned close_tag pk cid cb mb p ctx
  = establish_transcript_pinned close_tag pk cid cb mb (mkEP k' (e_kclose p) (e_kcb p) (e_kmb p) (e_sp p) (e_csp p)) ctx.
Proof. exact pinned_establish_binds_refuted. Qed.

Theorem C12_pinned_pay_binds_refuted : forall (K : Fld) (close_tag : K) (pk : pkey K) rp nonce (p : pproof K) ctx k',
  pay_transcript_pinned close_tag pk rp nonce p ctx
  = pay_transcript_pinned close_tag pk rp nonce
      (mkPP k' (p_kclose p) (p_tok p) (p_rev p) (p_sp p) (p_csp p) (p_crange p) (p_mrange p)) ctx.
Proof. exact pinned_pay_binds_refuted. Qed.

Example C12_nonvacuous :
  let kp := keygen (fq 11) (fq 17) [fq 19; fq 23; fq 29; fq 31; fq 37] (fq 13) in
  let p := establish_prove_with (fq 77) (snd kp) (fq 5) (fq 6) (fq 7) (fq 10) (fq 1000) (fq 41) (fq 43)
             [fq 51; fq 52; fq 53; fq 54; fq 55] (fq 61) (fq 63) (fq 71) (fq 999) in
  let p' := mkEP (e_kcid p + fq 1) (e_kclose p) (e_kcb p) (e_kmb p) (e_sp p) (e_csp p) in
  length (establish_transcript (fq 77) (snd kp) (fq 5) (fq 10) (fq 1000) p [1;2;3]%Z) = 26%nat /\
  nth 21 (establish_transcript (fq 77) (snd kp) (fq 5) (fq 10) (fq 1000) p [1;2;3]%Z) (AB [])
  <> nth 21 (establish_transcript (fq 77) (snd kp) (fq 5) (fq 10) (fq 1000) p' [1;2;3]%Z) (AB []).
Proof. split; [vm_compute; reflexivity|]. vm_compute. intros H. inversion H. Qed.

Print Assumptions C12_builder_proof_transcript_eq.
Print Assumptions C12_establish_prover_verifier_same_transcript.
Print Assumptions C12_concat_chunks_injective.
Print Assumptions C12_public_key_chunks_injective.
Print Assumptions C12_range_parameter_chunks_injective.
Print Assumptions C12_range_constraint_chunks_injective.
Print Assumptions C12_establish_transcript_binds.
Print Assumptions C12_pay_transcript_binds.
Print Assumptions C12_same_challenge_is_collision.
Print Assumptions C12_pinned_establish_binds_refuted.
Print Assumptions C12_pinned_pay_binds_refuted.
Print Assumptions C12_nonvacuous.
