(** C03 — The customer can always close on an unrevoked valid state; bad replies are inert.
    A merchant reply is an arbitrary pair of group elements, so the statements cover every fault of the fault
    alphabet injected any number of times.  Hypotheses, explicit: freshly generated revocation locks are new
    (not yet disclosed, different from the current one - a probability statement left outside), amounts are i64,
    and the closing randomiser is non-zero (for 0 the all-identity signature results, which the merchant rejects:
    [C03_close_with_zero_randomiser_rejected]; probability 2^-255, outside the property's quantifiers). *)
From ZK Require Import Model.Field Model.Zq Model.QBls Model.Pedersen Model.PS Model.Abacus Model.Amount Model.Customer
  Proofs.PSProofs Proofs.CustomerProofs.
Local Open Scope fld_scope.

Theorem C03_refused_reply_inert : forall (K : Fld) (close_tag : K) (pk : pkey K) (st st' : stage K) ev,
  step close_tag pk st ev = (st', ORefused) -> st' = st.
Proof. exact refused_reply_inert. Qed.

Theorem C03_refused_payment_inert : forall (K : Fld) (close_tag : K) (pk : pkey K) (st st' : stage K) ev e,
  step close_tag pk st ev = (st', OError e) -> st' = st.
Proof. exact refused_payment_inert. Qed.

Theorem C03_secret_released_only_on_valid : forall (K : Fld) (close_tag : K) (pk : pkey K) (st st' : stage K) ev l b,
  step close_tag pk st ev = (st', OLockMsg l b) ->
  exists new old bfr bft bfc ocs r,
    st = Started new old bfr bft bfc ocs /\ ev = EvLock r /\ verify pk (cmsg close_tag new) (unblind bfc r) = true /\
    l = s_lock old /\ b = bfr /\ st' = Locked new bft (unblind bfc r).
Proof. exact secret_released_only_on_valid. Qed.

Theorem C03_lock_accepts_iff : forall (K : Fld) (close_tag : K) (pk : pkey K) new old bfr bft bfc ocs r,
  (exists st' l b, step close_tag pk (Started new old bfr bft bfc ocs) (EvLock r) = (st', OLockMsg l b)) <->
  verify pk (cmsg close_tag new) (unblind bfc r) = true.
Proof. exact lock_accepts_iff. Qed.

Theorem C03_inv_init : forall (K : Fld) (close_tag cid : K) (pk : pkey K) s bfc bft,
  s_cid s = cid -> (0 <= s_cb s <= i64_max)%Z -> (0 <= s_mb s <= i64_max)%Z ->
  Inv K close_tag cid pk (mkSys (Requested s bfc bft) (s_cb s) (s_mb s) []).
Proof. exact inv_init. Qed.

Theorem C03_inv_step : forall (K : Fld) (close_tag cid : K) (pk : pkey K) (y : sys K) ev,
  Inv K close_tag cid pk y -> event_fresh K y ev -> Inv K close_tag cid pk (fst (sys_step close_tag pk y ev)).
Proof. exact inv_step. Qed.

(** every reachable state - any number of honest steps and arbitrary replies, in any order - satisfies the invariant *)
Theorem C03_inv_reachable : forall (K : Fld) (close_tag cid : K) (pk : pkey K) evs (y : sys K),
  Inv K close_tag cid pk y -> fresh_along K close_tag pk y evs -> Inv K close_tag cid pk (run close_tag pk y evs).
Proof. exact inv_reachable. Qed.

(** and in every such state (after establishment has passed Requested) closing works: accepted by the merchant's check,
    with the channel id, the ledger's balances for the stage and a lock that no earlier lock message disclosed *)
Theorem C03_close_accepted : forall (K : Fld) (close_tag cid : K) (pk : pkey K) (y : sys K) rho,
  Inv K close_tag cid pk y -> rho <> f0 ->
  match close_of (sy_stage y) rho with
  | Some (sig, s) => check_close close_tag pk sig s = true /\ s_cid s = cid /\ s_cb s = sy_cb y /\ s_mb s = sy_mb y /\
                     ~ In (s_lock s) (sy_disclosed y)
  | None => exists s bfc bft, sy_stage y = Requested s bfc bft
  end.
Proof. exact close_accepted. Qed.

Theorem C03_refused_replies_do_not_matter : forall (K : Fld) (close_tag : K) (pk : pkey K) evs (st : stage K),
  Forall (fun ev => snd (step close_tag pk st ev) = ORefused) evs ->
  fold_left (fun s ev => fst (step close_tag pk s ev)) evs st = st.
Proof. exact refused_replies_do_not_matter. Qed.

(** revocation bookkeeping: along any history the state a close would use is either still the same one or its lock has been
    disclosed to the merchant (and stays so): a closing message for a superseded state is refutable, the current one is not *)
Theorem C03_superseded_state_is_revoked : forall (K : Fld) (close_tag : K) (pk : pkey K) evs (y : sys K),
  let y' := run close_tag pk y evs in
  incl (sy_disclosed y) (sy_disclosed y') /\
  (main_state K (sy_stage y') = main_state K (sy_stage y) \/ In (s_lock (main_state K (sy_stage y))) (sy_disclosed y')).
Proof. exact superseded_state_is_revoked. Qed.

Theorem C03_close_with_zero_randomiser_rejected : forall (K : Fld) (close_tag : K) (pk : pkey K) st s sig,
  close_of st f0 = Some (sig, s) -> check_close close_tag pk sig s = false.
Proof. exact close_with_zero_randomiser_rejected. Qed.

Print Assumptions C03_refused_reply_inert.
Print Assumptions C03_refused_payment_inert.
Print Assumptions C03_secret_released_only_on_valid.
Print Assumptions C03_lock_accepts_iff.
Print Assumptions C03_inv_init.
Print Assumptions C03_inv_step.
Print Assumptions C03_inv_reachable.
Print Assumptions C03_close_accepted.
Print Assumptions C03_close_with_zero_randomiser_rejected.
Print Assumptions C03_superseded_state_is_revoked.
Print Assumptions C03_refused_replies_do_not_matter.
