(** C05 — A new pay token is issued only against a valid revocation of the previous state. *)
From ZK Require Import Model.Field Model.Zq Model.QBls Model.Pedersen Model.PS Model.Merchant Model.Ids
  Proofs.PedersenProofs Proofs.IdsProofs Proofs.MerchantProofs.
Local Open Scope fld_scope.

Theorem C05_complete_payment_iff : forall (K : Fld) (sk : skey K) (pk : pkey K) hr gr (u : unrevoked K) urand lock bf,
  (exists tok, complete_payment sk pk hr gr u urand lock bf = inl tok) <->
  verify_opening hr [gr] (u_com u) bf [lock] = true.
Proof. exact complete_payment_iff. Qed.

Theorem C05_issued_token_is_blind_signature_on_pending_state :
  forall (K : Fld) (sk : skey K) (pk : pkey K) hr gr (u : unrevoked K) urand lock bf tok,
  complete_payment sk pk hr gr u urand lock bf = inl tok -> tok = blind_sign sk pk urand (u_state u).
Proof. exact complete_payment_token. Qed.

Theorem C05_refusal_returns_pending : forall (K : Fld) (sk : skey K) (pk : pkey K) hr gr (u u' : unrevoked K) urand lock bf,
  complete_payment sk pk hr gr u urand lock bf = inr u' ->
  u' = u /\ verify_opening hr [gr] (u_com u) bf [lock] = false.
Proof. exact refusal_returns_pending. Qed.

Theorem C05_retry_after_refusal : forall (K : Fld) (sk : skey K) (pk : pkey K) hr gr (u u' : unrevoked K) ur1 ur2 lock bf lock' bf',
  complete_payment sk pk hr gr u ur1 lock' bf' = inr u' ->
  verify_opening hr [gr] (u_com u) bf [lock] = true ->
  complete_payment sk pk hr gr u' ur2 lock bf = inl (blind_sign sk pk ur2 (u_state u)).
Proof. exact retry_after_refusal. Qed.

Theorem C05_only_the_committed_lock_opens : forall (K : Fld) (hr gr lock bf lock' bf' : K), hr <> f0 -> gr <> f0 ->
  verify_opening hr [gr] (commit hr [gr] [lock] bf) bf' [lock'] = true ->
  (bf' = bf -> lock' = lock) /\ (lock' = lock -> bf' = bf).
Proof. exact only_the_committed_lock_opens. Qed.

(** every revocation pair that can exist - generated or decoded - has lock = canonical scalar of H(secret bytes ++ [index]) *)
Theorem C05_pair_wf_new : forall (K : Fld) q (H : list Z -> list Z) (enc : K -> list Z) secret l s i,
  revpair_new q H enc secret = Some (l, s, i) ->
  s = secret /\ lock_of q H enc secret i = Some l /\ (0 <= i < 256)%Z.
Proof. exact revpair_new_wf. Qed.

Theorem C05_pair_wf_decode : forall (K : Fld) q (H : list Z -> list Z) (enc : K -> list Z) lock secret index l s i,
  revpair_decode q H enc lock secret index = Some (l, s, i) ->
  l = lock /\ s = secret /\ i = index /\ lock_of q H enc secret index = Some lock.
Proof. exact revpair_decode_wf. Qed.

Theorem C05_decode_rejects_other_lock : forall (K : Fld) q (H : list Z -> list Z) (enc : K -> list Z) lock lock' secret index,
  lock_of q H enc secret index = Some lock -> lock' <> lock -> revpair_decode q H enc lock' secret index = None.
Proof. exact revpair_decode_rejects_other_lock. Qed.

Theorem C05_decode_rejects_noncanonical_digest : forall (K : Fld) q (H : list Z -> list Z) (enc : K -> list Z) lock secret index,
  lock_of q H enc secret index = None -> revpair_decode q H enc lock secret index = None.
Proof. exact revpair_decode_rejects_noncanonical. Qed.

Theorem C05_lock_is_canonical_hash : forall (K : Fld) q (H : list Z -> list Z) (enc : K -> list Z) secret index l,
  lock_of q H enc secret index = Some l ->
  (le_to_Z (H (enc secret ++ [index])) < q)%Z /\ l = of_Z (le_to_Z (H (enc secret ++ [index]))).
Proof. exact lock_of_spec. Qed.

Print Assumptions C05_complete_payment_iff.
Print Assumptions C05_issued_token_is_blind_signature_on_pending_state.
Print Assumptions C05_refusal_returns_pending.
Print Assumptions C05_retry_after_refusal.
Print Assumptions C05_only_the_committed_lock_opens.
Print Assumptions C05_pair_wf_new.
Print Assumptions C05_pair_wf_decode.
Print Assumptions C05_decode_rejects_other_lock.
Print Assumptions C05_decode_rejects_noncanonical_digest.
Print Assumptions C05_lock_is_canonical_hash.
