(** C11 — Proof verifiers accept exactly the Schnorr and pairing relations. *)
From ZK Require Import Model.Field Model.Zq Model.QBls Model.Pedersen Model.PS Model.Schnorr
  Proofs.PSProofs Proofs.SchnorrProofs.
Local Open Scope fld_scope.

Theorem C11_commitment_verify_iff : forall (K : Fld) (h : K) gs (p : cproof K) c,
  cp_verify h gs p c = true <-> commit h gs (cp_rs p) (cp_rbf p) = cp_T p + cp_C p * c.
Proof. exact cp_verify_iff. Qed.

Theorem C11_sigreq_verify_iff : forall (K : Fld) (pk : pkey K) (p : cproof K) c v,
  req_verify pk p c = Some v <->
  commit (pk_g1 pk) (pk_y1s pk) (cp_rs p) (cp_rbf p) = cp_T p + cp_C p * c /\ v = cp_C p.
Proof. exact req_verify_iff. Qed.

Theorem C11_signature_verify_iff : forall (K : Fld) (pk : pkey K) (p : sproof K) c,
  sig_verify pk p c = true <->
  fst (sp_sig p) <> f0 /\
  commit (pk_g2 pk) (pk_y2s pk) (cp_rs (sp_cp p)) (cp_rbf (sp_cp p)) = cp_T (sp_cp p) + cp_C (sp_cp p) * c /\
  fst (sp_sig p) * (pk_x2 pk + cp_C (sp_cp p)) = snd (sp_sig p) * pk_g2 pk.
Proof. exact sig_verify_iff. Qed.

(** single-field perturbations of an accepted proof, each with its exact side condition *)
Theorem C11_change_commitment_rejects : forall (K : Fld) (h : K) gs p c C',
  cp_verify h gs p c = true -> C' <> cp_C p -> c <> f0 ->
  cp_verify h gs (mkCP C' (cp_T p) (cp_rbf p) (cp_rs p)) c = false.
Proof. exact cp_change_C. Qed.

Theorem C11_change_scalar_commitment_rejects : forall (K : Fld) (h : K) gs p c T',
  cp_verify h gs p c = true -> T' <> cp_T p ->
  cp_verify h gs (mkCP (cp_C p) T' (cp_rbf p) (cp_rs p)) c = false.
Proof. exact cp_change_T. Qed.

Theorem C11_change_bf_response_rejects : forall (K : Fld) (h : K) gs p c r',
  cp_verify h gs p c = true -> r' <> cp_rbf p -> h <> f0 ->
  cp_verify h gs (mkCP (cp_C p) (cp_T p) r' (cp_rs p)) c = false.
Proof. exact cp_change_rbf. Qed.

Theorem C11_change_response_rejects : forall (K : Fld) (h : K) gs p c j v,
  cp_verify h gs p c = true -> (j < length (cp_rs p))%nat -> (j < length gs)%nat ->
  nth j gs f0 <> f0 -> v <> nth j (cp_rs p) f0 ->
  cp_verify h gs (mkCP (cp_C p) (cp_T p) (cp_rbf p) (upd j v (cp_rs p))) c = false.
Proof. exact cp_change_r. Qed.

Theorem C11_change_challenge_rejects : forall (K : Fld) (h : K) gs p c c',
  cp_verify h gs p c = true -> c' <> c -> cp_C p <> f0 -> cp_verify h gs p c' = false.
Proof. exact cp_change_challenge. Qed.

Theorem C11_change_generator_rejects : forall (K : Fld) (h : K) gs p c j g',
  cp_verify h gs p c = true -> (j < length (cp_rs p))%nat -> (j < length gs)%nat ->
  nth j (cp_rs p) f0 <> f0 -> g' <> nth j gs f0 -> cp_verify h (upd j g' gs) p c = false.
Proof. exact cp_change_generator. Qed.

Theorem C11_simulated_other_challenge : forall (K : Fld) (h : K) gs C rbf rs c c',
  cp_verify h gs (simulate K h gs C rbf rs c) c' = true <-> C * (c' - c) = f0.
Proof. exact simulated_other_challenge. Qed.

Theorem C11_identity_signature_rejected : forall (K : Fld) (pk : pkey K) s2 cp c,
  sig_verify pk (mkSP (f0, s2) cp) c = false.
Proof. exact identity_signature_rejected. Qed.

(** whoever answers two challenges for one first message knows an opening (special soundness) *)
Theorem C11_special_soundness : forall (K : Fld) (h : K) gs C T rbf rs rbf' rs' c c',
  c - c' <> f0 -> length rs = length gs -> length rs' = length gs ->
  cp_verify h gs (mkCP C T rbf rs) c = true -> cp_verify h gs (mkCP C T rbf' rs') c' = true ->
  C = commit h gs (map2 (ext K (c - c')) rs rs') (ext K (c - c') rbf rbf').
Proof. exact cp_special_soundness. Qed.

Theorem C11_signature_special_soundness : forall (K : Fld) (pk : pkey K) (s : sigt K) C T rbf rs rbf' rs' c c',
  c - c' <> f0 -> length rs = length (pk_y2s pk) -> length rs' = length (pk_y2s pk) ->
  sig_verify pk (mkSP s (mkCP C T rbf rs)) c = true ->
  sig_verify pk (mkSP s (mkCP C T rbf' rs')) c' = true ->
  C = commit (pk_g2 pk) (pk_y2s pk) (map2 (ext K (c - c')) rs rs') (ext K (c - c') rbf rbf') /\
  verify pk (map2 (ext K (c - c')) rs rs') (unblind (ext K (c - c') rbf rbf') s) = true.
Proof. exact sig_special_soundness. Qed.

Example C11_nonvacuous :
  let p := cp_prove (fq 11) [fq 13; fq 17] [fq 5; fq 0] (fq 7) (fq 9) [fq 21; fq 22] (fq 1000) in
  cp_verify (fq 11) [fq 13; fq 17] p (fq 1000) = true /\
  cp_verify (fq 11) [fq 13; fq 17] p (fq 1001) = false /\
  cp_verify (fq 11) [fq 13; fq 17] (mkCP (cp_C p) (cp_T p) (cp_rbf p) (upd 1 (fq 3) (cp_rs p))) (fq 1000) = false.
Proof. vm_compute. auto. Qed.

Print Assumptions C11_commitment_verify_iff.
Print Assumptions C11_sigreq_verify_iff.
Print Assumptions C11_signature_verify_iff.
Print Assumptions C11_change_commitment_rejects.
Print Assumptions C11_change_scalar_commitment_rejects.
Print Assumptions C11_change_bf_response_rejects.
Print Assumptions C11_change_response_rejects.
Print Assumptions C11_change_challenge_rejects.
Print Assumptions C11_change_generator_rejects.
Print Assumptions C11_simulated_other_challenge.
Print Assumptions C11_identity_signature_rejected.
Print Assumptions C11_special_soundness.
Print Assumptions C11_signature_special_soundness.
Print Assumptions C11_nonvacuous.
