(** C15 — Wire round-trips are lossless and decoded values satisfy every type invariant.
    [codec_ok c] = (1) dec (enc v ++ rest) = (v, rest) for every well-formed v; (2) a successful decode of byte
    input returns a well-formed value and the input is exactly its canonical encoding (++ rest); (3) no panic;
    (4) bounded capacity requests.  Every wire type is a composition of combinators that preserve [codec_ok];
    the laws of the point codecs are hypotheses (trusted: bls12_381), the scalar codec's are proved. *)
From Coq Require Import ZArith List Bool Lia.
From ZK Require Import Model.Field Model.Zq Model.QBls Model.Ids Model.Amount Model.Wire Model.Codecs
  Model.Base64 Proofs.WireProofs Proofs.CodecsProofs Proofs.Base64Proofs.
Import ListNotations.
Open Scope Z_scope.

Theorem C15_scalar_codec_ok : codec_ok c_scalar_q.  Proof. exact c_scalar_q_ok. Qed.
Theorem C15_u64_codec_ok : codec_ok c_u64.  Proof. exact c_u64_ok. Qed.
Theorem C15_i64_codec_ok : codec_ok c_i64.  Proof. exact c_i64_ok. Qed.

Theorem C15_pair_preserves : forall A B (ca : codec A) (cb : codec B), codec_ok ca -> codec_ok cb -> codec_ok (c_pair ca cb).
Proof. exact @ok_pair. Qed.
Theorem C15_validation_preserves : forall A (c : codec A) (p : A -> bool), codec_ok c -> codec_ok (c_validated c p).
Proof. exact @ok_validated. Qed.
Theorem C15_tuple_preserves : forall A (n : nat) (c : codec A), codec_ok c -> codec_ok (c_tuple n c).
Proof. exact @ok_tuple. Qed.
Theorem C15_array_preserves : forall A (c : codec A), codec_ok c -> forall n : nat, Z.of_nat n + 1 < 2 ^ 64 -> codec_ok (c_array n c).
Proof. exact @ok_array. Qed.

Section Types.
Variable K : Fld.
Variable close_tag : K.
Variable c_scalar c_g1 c_g2 : codec K.
Variable lock_ok : K -> K -> Z -> bool.
Hypothesis Hs : codec_ok c_scalar.
Hypothesis H1 : codec_ok c_g1.
Hypothesis H2 : codec_ok c_g2.

Theorem C15_balance : codec_ok c_balance.  Proof. exact c_balance_ok. Qed.
Theorem C15_nonce : codec_ok (c_nonce K close_tag c_scalar).  Proof. exact (c_nonce_ok K close_tag c_scalar Hs). Qed.
Theorem C15_signature : codec_ok (c_sig K c_g1).  Proof. exact (c_sig_ok K c_g1 H1). Qed.
Theorem C15_public_key : forall n : nat, Z.of_nat n + 1 < 2 ^ 64 -> codec_ok (c_pk K c_g1 c_g2 n).
Proof. exact (c_pk_ok K c_g1 c_g2 H1 H2). Qed.
Theorem C15_key_pair : forall n : nat, Z.of_nat n + 1 < 2 ^ 64 -> codec_ok (c_keypair K c_scalar c_g1 c_g2 n).
Proof. exact (c_keypair_ok K c_scalar c_g1 c_g2 Hs H1 H2). Qed.
Theorem C15_pedersen_parameters : forall cg (n : nat), codec_ok cg -> Z.of_nat n + 1 < 2 ^ 64 -> codec_ok (c_pedersen K cg n).
Proof. exact (c_pedersen_ok K). Qed.
Theorem C15_commitment_proof : forall cg (n : nat), codec_ok cg -> Z.of_nat n + 1 < 2 ^ 64 -> codec_ok (c_cp K c_scalar cg n).
Proof. exact (c_cp_ok K c_scalar Hs). Qed.
Theorem C15_signature_proof : forall n : nat, Z.of_nat n + 1 < 2 ^ 64 -> codec_ok (c_sp K c_scalar c_g1 c_g2 n).
Proof. exact (c_sp_ok K c_scalar c_g1 c_g2 Hs H1 H2). Qed.
Theorem C15_range_parameters : codec_ok (c_range_params K c_g1 c_g2).  Proof. exact (c_range_params_ok K c_g1 c_g2 H1 H2). Qed.
Theorem C15_range_constraint : codec_ok (c_range_constraint K c_scalar c_g1 c_g2).
Proof. exact (c_range_constraint_ok K c_scalar c_g1 c_g2 Hs H1 H2). Qed.
Theorem C15_customer_config : codec_ok (c_customer_config K c_g1 c_g2).  Proof. exact (c_customer_config_ok K c_g1 c_g2 H1 H2). Qed.
Theorem C15_establish_proof : codec_ok (c_establish_proof K c_scalar c_g1).  Proof. exact (c_establish_proof_ok K c_scalar c_g1 Hs H1). Qed.
Theorem C15_pay_proof : codec_ok (c_pay_proof K c_scalar c_g1 c_g2).  Proof. exact (c_pay_proof_ok K c_scalar c_g1 c_g2 Hs H1 H2). Qed.
Theorem C15_revocation_pair : codec_ok (c_revpair K c_scalar lock_ok).  Proof. exact (c_revpair_ok K c_scalar lock_ok Hs). Qed.
Theorem C15_state : codec_ok (c_state K close_tag c_scalar lock_ok).  Proof. exact (c_state_ok K close_tag c_scalar lock_ok Hs). Qed.
Theorem C15_closing_message : codec_ok (c_closing_message K c_scalar c_g1).  Proof. exact (c_closing_message_ok K c_scalar c_g1 Hs H1). Qed.
Theorem C15_requested : codec_ok (c_requested K close_tag c_scalar lock_ok).  Proof. exact (c_requested_ok K close_tag c_scalar lock_ok Hs). Qed.
Theorem C15_inactive_locked : codec_ok (c_inactive K close_tag c_scalar c_g1 lock_ok).
Proof. exact (c_inactive_ok K close_tag c_scalar c_g1 lock_ok Hs H1). Qed.
Theorem C15_ready : codec_ok (c_ready K close_tag c_scalar c_g1 lock_ok).  Proof. exact (c_ready_ok K close_tag c_scalar c_g1 lock_ok Hs H1). Qed.
Theorem C15_started : codec_ok (c_started K close_tag c_scalar c_g1 lock_ok).  Proof. exact (c_started_ok K close_tag c_scalar c_g1 lock_ok Hs H1). Qed.

(** the invariants, read off the decoder: *)
Theorem C15_decoded_balance_in_range : forall bs v rest, Forall is_byte bs ->
  res_of (dec c_balance bs) = Some (v, rest) -> 0 <= v <= i64_max.
Proof. exact decoded_balance_in_range. Qed.
Theorem C15_decoded_nonce_not_close : forall bs n rest, (forall a b : K, feqb a b = true <-> a = b) -> Forall is_byte bs ->
  res_of (dec (c_nonce K close_tag c_scalar) bs) = Some (n, rest) -> n <> close_tag.
Proof. intros bs n rest Hf. exact (decoded_nonce_not_close K close_tag c_scalar Hs bs n rest Hf). Qed.
Theorem C15_decoded_signature_well_formed : forall bs s rest, Forall is_byte bs ->
  res_of (dec (c_sig K c_g1) bs) = Some (s, rest) -> fneqb (fst s) f0 = true.
Proof. exact (decoded_signature_well_formed K c_g1 H1). Qed.
End Types.

(** printing and parsing a channel id (base64, standard alphabet, padded): parse inverts print on every 32-byte id,
    printing is injective, the text has 44 characters of the alphabet, a parsed id has 32 bytes, the encoding of any
    other number of bytes is refused with that length, a text starting with a foreign character is refused *)
Theorem C15_channel_id_print_parse : forall cid, Forall is_byte cid -> length cid = 32%nat -> cid_parse (cid_print cid) = CidOk cid.
Proof. exact cid_print_parse. Qed.
Theorem C15_base64_roundtrip_every_length : forall bs, Forall is_byte bs -> b64_decode (b64_encode bs) = Some bs.
Proof. exact b64_roundtrip. Qed.
Theorem C15_channel_id_print_injective : forall a b, Forall is_byte a -> Forall is_byte b -> cid_print a = cid_print b -> a = b.
Proof. exact cid_print_injective. Qed.
Theorem C15_channel_id_text_shape : forall cid, Forall is_byte cid -> length cid = 32%nat ->
  length (cid_print cid) = 44%nat /\ Forall b64_alphabet (cid_print cid).
Proof. intros cid HF HL. split; [now apply cid_print_length | now apply b64_encode_alphabet]. Qed.
Theorem C15_channel_id_parse_length : forall text bs, cid_parse text = CidOk bs -> length bs = 32%nat.
Proof. exact cid_parse_ok_length. Qed.
Theorem C15_channel_id_parse_other_length : forall bs, Forall is_byte bs -> length bs <> 32%nat ->
  cid_parse (b64_encode bs) = CidIncorrectLength (Z.of_nat (length bs)).
Proof. exact cid_parse_other_length. Qed.
Theorem C15_channel_id_parse_foreign_character : forall c0 c1 c2 c3 rest, b64_val c0 = None ->
  cid_parse (c0 :: c1 :: c2 :: c3 :: rest) = CidDecodeError.
Proof. exact cid_parse_rejects_foreign_character. Qed.

Example C15_channel_id_nonvacuous :
  b64_encode [77; 97; 110] = [84; 87; 70; 117] /\ b64_encode [77; 97] = [84; 87; 69; 61] /\ b64_encode [77] = [84; 81; 61; 61] /\
  b64_decode [84; 87; 70; 61] = None /\ cid_parse (cid_print (repeat 255 32)) = CidOk (repeat 255 32).
Proof. vm_compute. auto. Qed.

Example C15_nonvacuous :
  res_of (dec c_balance (Z_to_le 8 (2 ^ 63 - 1))) = Some (2 ^ 63 - 1, []) /\
  res_of (dec c_balance (Z_to_le 8 (2 ^ 63))) = None /\ res_of (dec c_balance (Z_to_le 8 (2 ^ 64 - 1))) = None /\
  res_of (dec c_scalar_q (Z_to_le 32 q_bls)) = None /\ res_of (dec c_scalar_q (Z_to_le 32 (q_bls - 1))) = Some (fq (q_bls - 1), []).
Proof. vm_compute. auto. Qed.

Print Assumptions C15_scalar_codec_ok.
Print Assumptions C15_u64_codec_ok.
Print Assumptions C15_i64_codec_ok.
Print Assumptions C15_pair_preserves.
Print Assumptions C15_validation_preserves.
Print Assumptions C15_tuple_preserves.
Print Assumptions C15_array_preserves.
Print Assumptions C15_balance.
Print Assumptions C15_nonce.
Print Assumptions C15_signature.
Print Assumptions C15_public_key.
Print Assumptions C15_key_pair.
Print Assumptions C15_pedersen_parameters.
Print Assumptions C15_commitment_proof.
Print Assumptions C15_signature_proof.
Print Assumptions C15_range_parameters.
Print Assumptions C15_range_constraint.
Print Assumptions C15_customer_config.
Print Assumptions C15_establish_proof.
Print Assumptions C15_pay_proof.
Print Assumptions C15_revocation_pair.
Print Assumptions C15_state.
Print Assumptions C15_closing_message.
Print Assumptions C15_requested.
Print Assumptions C15_inactive_locked.
Print Assumptions C15_ready.
Print Assumptions C15_started.
Print Assumptions C15_decoded_balance_in_range.
Print Assumptions C15_decoded_nonce_not_close.
Print Assumptions C15_decoded_signature_well_formed.
Print Assumptions C15_nonvacuous.
Print Assumptions C15_channel_id_print_parse.
Print Assumptions C15_base64_roundtrip_every_length.
Print Assumptions C15_channel_id_print_injective.
Print Assumptions C15_channel_id_text_shape.
Print Assumptions C15_channel_id_parse_length.
Print Assumptions C15_channel_id_parse_other_length.
Print Assumptions C15_channel_id_parse_foreign_character.
Print Assumptions C15_channel_id_nonvacuous.
