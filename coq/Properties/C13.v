(** C13 — Range constraints accept exactly values in [0, 2^63) linked to the message. *)
From ZK Require Import Model.Field Model.Zq Model.QBls Model.Pedersen Model.PS Model.Schnorr Model.Range
  Proofs.PSProofs Proofs.SchnorrProofs Proofs.RangeProofs.
Local Open Scope fld_scope.

Theorem C13_prover_refuses_negative : forall (K : Fld) (rp : rparams K) v ds c,
  (v < 0)%Z -> range_prove rp v ds c = None.
Proof. exact prover_refuses_negative. Qed.

Theorem C13_prover_accepts_nonnegative : forall (K : Fld) (rp : rparams K) v ds c,
  (0 <= v)%Z -> exists ps, range_prove rp v ds c = Some ps.
Proof. exact prover_accepts_nonnegative. Qed.

Theorem C13_digits_spec : forall v, (0 <= v < 2 ^ 63)%Z ->
  zweighted (digits v) = v /\ Forall (fun d => (0 <= d < 128)%Z) (digits v) /\ length (digits v) = 9%nat.
Proof. exact digits_spec. Qed.

(** any nine published digits represent at most 2^63 - 1 (< q): this is where u^l = 2^63 lives *)
Theorem C13_digit_sum_bound : forall ds, length ds = 9%nat -> Forall (fun d => (0 <= d < 128)%Z) ds ->
  (0 <= zweighted ds <= 2 ^ 63 - 1)%Z.
Proof. exact digit_sum_bound. Qed.

Theorem C13_two_pow_63_below_q : (2 ^ 63 - 1 < q_bls)%Z.
Proof. vm_compute. reflexivity. Qed.

Theorem C13_range_complete : forall (K : Fld) (rp : rparams K) v ds c,
  validate rp = true -> length (rp_sigs rp) = 128%nat -> (0 <= v < 2 ^ 63)%Z ->
  length ds = 9%nat -> Forall (fun rd => rd_r rd <> f0) ds ->
  exists ps, range_prove rp v ds c = Some ps /\
             range_verify rp ps c (c * of_Z v + range_commitment_scalar ds) = true.
Proof. exact range_complete. Qed.

Theorem C13_range_verify_iff : forall (K : Fld) (rp : rparams K) ps c e,
  range_verify rp ps c e = true <->
  Forall (fun p => sig_verify (rp_pk rp) p c = true) ps /\
  horner K (map (fun p => nth 0 (cp_rs (sp_cp p)) f0) ps) = e.
Proof. exact range_verify_iff. Qed.

Theorem C13_wrong_link_rejected : forall (K : Fld) (rp : rparams K) ps c e e', e' <> e ->
  range_verify rp ps c e = true -> range_verify rp ps c e' = false.
Proof. exact range_wrong_link_rejected. Qed.

(** extraction: an accepted constraint (two transcripts) contains, per digit, a message carrying a VALID
    signature under the range key, and their weighted sum is the value in the linked slot.  With the
    (unproved, computational) premise that only the 128 published signatures exist for that key, the
    messages are digits in [0,128) and [C13_digit_sum_bound] confines the value to [0, 2^63). *)
Theorem C13_range_special_soundness : forall (K : Fld) (rp : rparams K) ps ps' c c' e e',
  c - c' <> f0 -> length (pk_y2s (rp_pk rp)) = 1%nat -> Forall2 (same_first K) ps ps' ->
  range_verify rp ps c e = true -> range_verify rp ps' c' e' = true ->
  Forall2 (fun p p' => exists bf, verify (rp_pk rp) [xdigit K (c - c') p p'] (unblind bf (sp_sig p)) = true) ps ps'
  /\ horner K (map2 (xdigit K (c - c')) ps ps') = (e - e') / (c - c').
Proof. exact range_special_soundness. Qed.

Theorem C13_validate_iff : forall (K : Fld) (rp : rparams K),
  validate rp = true <->
  forall j, (j < length (rp_sigs rp))%nat ->
            verify (rp_pk rp) [of_Z (Z.of_nat j)] (nth j (rp_sigs rp) (f0, f0)) = true.
Proof. exact validate_iff. Qed.

Example C13_nonvacuous :
  digits (2 ^ 63 - 1) = [127; 127; 127; 127; 127; 127; 127; 127; 127]%Z /\
  digits 128 = [0; 1; 0; 0; 0; 0; 0; 0; 0]%Z /\ zweighted (digits 123456789012345) = 123456789012345%Z.
Proof. vm_compute. auto. Qed.

(** why the 128 published digit signatures must be made with independent bases: two signatures sharing a base h on
    different messages yield, by interpolation, a valid signature on EVERY message (e.g. on 128, or on -1) - "only the 128
    published digit signatures exist" would be false. The generation check of C19 / C13 watches that the bases differ. *)
Theorem C13_shared_base_signatures_forge : forall (K : Fld) (sk : skey K) (pk : pkey K) (h m0 m1 m : K),
  key_ok K sk pk -> h <> f0 -> m1 - m0 <> f0 -> length (sk_ys sk) = 1%nat ->
  let s0 := sign sk h [m0] in let s1 := sign sk h [m1] in
  verify pk [m] (h, snd s0 + (m - m0) / (m1 - m0) * (snd s1 - snd s0)) = true.
Proof. exact shared_base_signatures_forge. Qed.

Print Assumptions C13_prover_refuses_negative.
Print Assumptions C13_prover_accepts_nonnegative.
Print Assumptions C13_digits_spec.
Print Assumptions C13_digit_sum_bound.
Print Assumptions C13_two_pow_63_below_q.
Print Assumptions C13_range_complete.
Print Assumptions C13_range_verify_iff.
Print Assumptions C13_wrong_link_rejected.
Print Assumptions C13_range_special_soundness.
Print Assumptions C13_validate_iff.
Print Assumptions C13_nonvacuous.
Print Assumptions C13_shared_base_signatures_forge.
