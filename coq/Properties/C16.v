(** C16 — Decoding untrusted bytes never panics, aborts or over-allocates.
    Partial: exact for the decoder logic of serde.rs as modelled in Model/Wire.v; three behaviours of dependencies
    are MODELLED (validated by the correspondence, not proved): ArrayVec::push panics when full / try_push returns
    an error; bincode's SeqAccess yields exactly the announced number of elements, decoding each on demand with an
    EOF error; Vec::with_capacity(n) requests n elements.  Allocator internals are outside the model. *)
From Coq Require Import ZArith List Bool Lia.
From ZK Require Import Model.Field Model.Zq Model.QBls Model.Ids Model.Wire Model.Codecs
  Proofs.WireProofs Proofs.CodecsProofs.
Import ListNotations.
Open Scope Z_scope.

(** for EVERY byte string: no panic, and never more than 1024 elements of capacity requested *)
Theorem C16_array_never_panics : forall A (c : codec A), codec_ok c -> forall (n : nat), Z.of_nat n + 1 < 2 ^ 64 ->
  forall bs, dec (c_array n c) bs <> DPanic /\ alloc_of (dec (c_array n c) bs) <= 1024.
Proof. exact @array_never_panics. Qed.

Theorem C16_vec_never_panics_and_caps_allocation : forall A (c : codec A), codec_ok c ->
  forall bs, dec (c_vec c) bs <> DPanic /\ alloc_of (dec (c_vec c) bs) <= 1024.
Proof. exact @vec_never_panics_and_caps_allocation. Qed.

Theorem C16_every_codec_total : forall A (c : codec A), codec_ok c ->
  forall bs, dec c bs <> DPanic /\ alloc_of (dec c bs) <= 1024.
Proof. exact @every_codec_total. Qed.

(** hence for every composite wire type (instances: the largest ones) *)
Theorem C16_pay_proof_total : forall (K : Fld) (c_scalar c_g1 c_g2 : codec K),
  codec_ok c_scalar -> codec_ok c_g1 -> codec_ok c_g2 ->
  forall bs, dec (c_pay_proof K c_scalar c_g1 c_g2) bs <> DPanic /\ alloc_of (dec (c_pay_proof K c_scalar c_g1 c_g2) bs) <= 1024.
Proof. intros K cs c1 c2 Hs H1 H2. apply C16_every_codec_total. now apply c_pay_proof_ok. Qed.

Theorem C16_key_pair_total : forall (K : Fld) (c_scalar c_g1 c_g2 : codec K) (n : nat),
  codec_ok c_scalar -> codec_ok c_g1 -> codec_ok c_g2 -> Z.of_nat n + 1 < 2 ^ 64 ->
  forall bs, dec (c_keypair K c_scalar c_g1 c_g2 n) bs <> DPanic.
Proof. intros K cs c1 c2 n Hs H1 H2 Hn bs. apply C16_every_codec_total. now apply c_keypair_ok. Qed.

(** refutations of the pinned decoders (D3), machine-checked witnesses *)
Theorem C16_pinned_array_visitor_panics_refuted : dec (c_array_pinned 2 c_byte) (le8 3 ++ [7; 8; 9]) = DPanic.
Proof. exact array_pinned_panics. Qed.
Theorem C16_pinned_vec_allocation_unbounded_refuted : dec (c_vec_pinned c_byte) (le8 (2 ^ 40)) = DErr (2 ^ 40).
Proof. exact vec_pinned_alloc_unbounded. Qed.
Theorem C16_repaired_behaviour_on_the_same_inputs :
  dec (c_array 2 c_byte) (le8 3 ++ [7; 8; 9]) = DErr 0 /\ dec (c_vec c_byte) (le8 (2 ^ 40)) = DErr 1024.
Proof. split; [exact array_repaired_errors | exact vec_repaired_alloc_capped]. Qed.

Print Assumptions C16_array_never_panics.
Print Assumptions C16_vec_never_panics_and_caps_allocation.
Print Assumptions C16_every_codec_total.
Print Assumptions C16_pay_proof_total.
Print Assumptions C16_key_pair_total.
Print Assumptions C16_pinned_array_visitor_panics_refuted.
Print Assumptions C16_pinned_vec_allocation_unbounded_refuted.
Print Assumptions C16_repaired_behaviour_on_the_same_inputs.
