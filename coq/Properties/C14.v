(** C14 — Customer messages reuse no value the merchant has seen and expose no secret.
    What is proved is the exact-reuse half that the property itself calls necessary (not zero knowledge, which the
    discrete-log representation cannot express): every masked atom of a customer message is an injective function of
    a draw that is fresh to that message, so for any previously seen value at most ONE value of the fresh draw
    collides; and a response scalar is compatible with every message value for exactly one commitment scalar. *)
From ZK Require Import Model.Field Model.Zq Model.QBls Model.Pedersen Model.PS Model.Customer Proofs.CustomerProofs.
Local Open Scope fld_scope.

Theorem C14_randomize_collision_unique : forall (K : Fld) (sig : sigt K) (r v : K), fst sig <> f0 ->
  fst (randomize r sig) = v -> r = v / fst sig.
Proof. exact randomize_collision_unique. Qed.

Theorem C14_rerandomised_signature_injective_in_draw : forall (K : Fld) (s1 r r' : K), s1 <> f0 -> s1 * r = s1 * r' -> r = r'.
Proof. exact randomized_first_element_injective. Qed.

Theorem C14_commitment_injective_in_blinding_factor : forall (K : Fld) (h : K) gs ms bf bf', h <> f0 ->
  commit h gs ms bf = commit h gs ms bf' -> bf = bf'.
Proof. exact commitment_injective_in_blinding_factor. Qed.

Theorem C14_response_injective_in_commitment_scalar : forall (K : Fld) (c m k k' : K), c * m + k = c * m + k' -> k = k'.
Proof. exact response_injective_in_commitment_scalar. Qed.

Theorem C14_response_compatible_with_every_message : forall (K : Fld) (c m m' k : K), exists k', c * m + k = c * m' + k'.
Proof. exact response_hides_message_for_one_scalar. Qed.

Theorem C14_blind_signature_injective_in_randomiser : forall (K : Fld) (sk : skey K) (pk : pkey K) u u' c, pk_g1 pk <> f0 ->
  fst (blind_sign sk pk u c) = fst (blind_sign sk pk u' c) -> u = u'.
Proof. exact blind_signature_injective_in_randomiser. Qed.

(** dropping the re-randomisation shows the merchant's own value again *)
Theorem C14_unrandomised_signature_is_reused : forall (K : Fld) (sig : sigt K), randomize f1 sig = sig.
Proof. exact unrandomised_signature_is_reused. Qed.

Print Assumptions C14_randomize_collision_unique.
Print Assumptions C14_rerandomised_signature_injective_in_draw.
Print Assumptions C14_commitment_injective_in_blinding_factor.
Print Assumptions C14_response_injective_in_commitment_scalar.
Print Assumptions C14_response_compatible_with_every_message.
Print Assumptions C14_blind_signature_injective_in_randomiser.
Print Assumptions C14_unrandomised_signature_is_reused.
