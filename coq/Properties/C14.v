(** C14 — Customer messages reuse no value the merchant has seen and expose no secret.
    What is proved is the exact-reuse half that the property itself calls necessary (not zero knowledge, which the
    discrete-log representation cannot express): every masked atom of a customer message is an injective function of
    a draw that is fresh to that message, so for any previously seen value at most ONE value of the fresh draw
    collides; and a response scalar is compatible with every message value for exactly one commitment scalar. *)
From ZK Require Import Model.Field Model.Zq Model.QBls Model.Pedersen Model.PS Model.Schnorr Model.Range Model.Abacus Model.Customer
  Proofs.CustomerProofs Proofs.MaskingProofs.
Local Open Scope fld_scope.

Theorem C14_randomize_collision_unique : forall (K : Fld) (sig : sigt K) (r v : K), fst sig <> f0 ->
  fst (randomize r sig) = v -> r = v / fst sig.
Proof. exact randomize_collision_unique. Qed.

Theorem C14_rerandomised_signature_injective_in_draw : forall (K : Fld) (s1 r r' : K), s1 <> f0 -> s1 * r = s1 * r' -> r = r'.
Proof. exact randomized_first_element_injective. Qed.

Theorem C14_commitment_injective_in_blinding_factor : forall (K : Fld) (h : K) gs ms bf bf', h <> f0 ->
  commit h gs ms bf = commit h gs ms bf' -> bf = bf'.
Proof. exact commitment_injective_in_blinding_factor. Qed.

Theorem C14_response_injective_in_commitment_scalar : forall (K : Fld) (c m k k' : K), c * m + k = c * m + k' -> k = k'.
Proof. exact response_injective_in_commitment_scalar. Qed.

Theorem C14_response_compatible_with_every_message : forall (K : Fld) (c m m' k : K), exists k', c * m + k = c * m' + k'.
Proof. exact response_hides_message_for_one_scalar. Qed.

Theorem C14_blind_signature_injective_in_randomiser : forall (K : Fld) (sk : skey K) (pk : pkey K) u u' c, pk_g1 pk <> f0 ->
  fst (blind_sign sk pk u c) = fst (blind_sign sk pk u' c) -> u = u'.
Proof. exact blind_signature_injective_in_randomiser. Qed.

(** dropping the re-randomisation shows the merchant's own value again *)
Theorem C14_unrandomised_signature_is_reused : forall (K : Fld) (sig : sigt K), randomize f1 sig = sig.
Proof. exact unrandomised_signature_is_reused. Qed.

(** ** per message constructor (Proofs/MaskingProofs.v): every atom is affine, with a non-zero coefficient, in a value drawn
    for that message *)
Theorem C14_affine_collision_unique : forall (K : Fld) (a b v x : K), a <> f0 -> a * x + b = v -> x = (v - b) / a.
Proof. exact affine_collision_unique. Qed.

Theorem C14_proof_commitment_masked : forall (K : Fld) (h : K) gs ms kbf ks c bf bf', h <> f0 ->
  cp_C (cp_prove h gs ms bf kbf ks c) = cp_C (cp_prove h gs ms bf' kbf ks c) -> bf = bf'.
Proof. exact cp_C_masked. Qed.
Theorem C14_proof_scalar_commitment_masked : forall (K : Fld) (h : K) gs ms bf ks c kbf kbf', h <> f0 ->
  cp_T (cp_prove h gs ms bf kbf ks c) = cp_T (cp_prove h gs ms bf kbf' ks c) -> kbf = kbf'.
Proof. exact cp_T_masked. Qed.
Theorem C14_proof_blinding_response_masked : forall (K : Fld) (h : K) gs ms bf ks c kbf kbf',
  cp_rbf (cp_prove h gs ms bf kbf ks c) = cp_rbf (cp_prove h gs ms bf kbf' ks c) -> kbf = kbf'.
Proof. exact cp_rbf_masked. Qed.
Theorem C14_proof_response_masked : forall (K : Fld) (h : K) gs ms bf kbf ks c j k k', (j < length ms)%nat -> length ks = length ms ->
  nth j (cp_rs (cp_prove h gs ms bf kbf (upd j k ks) c)) f0 = nth j (cp_rs (cp_prove h gs ms bf kbf (upd j k' ks) c)) f0 -> k = k'.
Proof. exact cp_response_masked. Qed.
Theorem C14_response_perfectly_hiding : forall (K : Fld) (c m m' k : K), exists! k', c * m + k = c * m' + k'.
Proof. exact response_perfectly_hiding. Qed.

Theorem C14_shown_sigma1_masked : forall (K : Fld) (s : sigt K) bf r r', fst s <> f0 ->
  fst (blind_and_randomize r bf s) = fst (blind_and_randomize r' bf s) -> r = r'.
Proof. exact shown_sigma1_masked. Qed.
Theorem C14_shown_sigma2_masked : forall (K : Fld) (s : sigt K) r bf bf', fst s <> f0 -> r <> f0 ->
  snd (blind_and_randomize r bf s) = snd (blind_and_randomize r bf' s) -> bf = bf'.
Proof. exact shown_sigma2_masked. Qed.
Theorem C14_shown_signature_differs_from_issued : forall (K : Fld) (s : sigt K) r bf, fst s <> f0 -> r <> f1 ->
  fst (blind_and_randomize r bf s) <> fst s.
Proof. exact shown_signature_differs_from_issued. Qed.

Theorem C14_closing_sigma1_masked : forall (K : Fld) (cs : sigt K) rho rho', fst cs <> f0 ->
  fst (randomize rho cs) = fst (randomize rho' cs) -> rho = rho'.
Proof. exact closing_sigma1_masked. Qed.
Theorem C14_closing_sigma2_masked : forall (K : Fld) (cs : sigt K) rho rho', snd cs <> f0 ->
  snd (randomize rho cs) = snd (randomize rho' cs) -> rho = rho'.
Proof. exact closing_sigma2_masked. Qed.
Theorem C14_closing_signature_differs_from_issued : forall (K : Fld) (cs : sigt K) rho, fst cs <> f0 -> rho <> f1 ->
  fst (randomize rho cs) <> fst cs.
Proof. exact closing_signature_differs_from_issued. Qed.
(** every stage's close re-randomises the stored signature (Inactive, Ready, Started, Locked alike) *)
Theorem C14_every_close_rerandomises : forall (K : Fld) (st : stage K) rho sig s, close_of st rho = Some (sig, s) ->
  exists stored, closing_view st = Some (stored, s) /\ sig = randomize rho stored.
Proof. exact every_close_rerandomises. Qed.

Theorem C14_zero_randomiser_close_sends_identity_pair : forall (K : Fld) (st : stage K) sig s, close_of st f0 = Some (sig, s) ->
  sig = (f0, f0) /\ forall stored, closing_view st = Some (stored, s) -> fst stored <> f0 -> sig <> stored.
Proof. exact zero_randomiser_close_sends_identity_pair. Qed.

(** the establish and pay messages consist of revealed commitment scalars that are draws of the message, and of commitment /
    signature proofs over draws of the message - so the lemmas above cover every atom *)
Theorem C14_establish_message_structure : forall (K : Fld) (close_tag : K) (pk : pkey K) cid nonce lock cb mb bfs kbfs ks bfc kbfc kclose c,
  let p := establish_prove_with close_tag pk cid nonce lock cb mb bfs kbfs ks bfc kbfc kclose c in
  e_kcid p = nth 0 ks f0 /\ e_kclose p = kclose /\ e_kcb p = nth 3 ks f0 /\ e_kmb p = nth 4 ks f0 /\
  e_sp p = req_prove pk (state_msg cid nonce lock cb mb) bfs kbfs ks c /\
  e_csp p = req_prove pk (close_msg close_tag cid lock cb mb) bfc kbfc
              [nth 0 ks f0; kclose; nth 2 ks f0; nth 3 ks f0; nth 4 ks f0] c.
Proof. exact establish_revealed_scalars_are_fresh_draws. Qed.

Theorem C14_pay_message_structure : forall (K : Fld) (close_tag : K) (pk : pkey K) rp hr gr tok old cbz mbz new d c p,
  pay_prove_with close_tag pk rp hr gr tok old cbz mbz new d c = Some p ->
  p_knonce p = d_knonce d /\ p_kclose p = d_kclose d /\
  sp_sig (p_tok p) = blind_and_randomize (d_rt d) (d_bft d) tok /\
  (exists kst, sp_cp (p_tok p) = cp_prove (pk_g2 pk) (pk_y2s pk) old (d_bft d) (d_kbft d) kst c) /\
  p_rev p = cp_prove hr [gr] [nth 2 old f0] (d_bfr d) (d_kbfr d) [d_krev d] c /\
  (exists kss, p_sp p = cp_prove (pk_g1 pk) (pk_y1s pk) new (d_bfs d) (d_kbfs d) kss c) /\
  (exists ksc newc, p_csp p = cp_prove (pk_g1 pk) (pk_y1s pk) newc (d_bfc d) (d_kbfc d) ksc c).
Proof. exact pay_message_structure. Qed.

Theorem C14_range_digit_proofs_structure : forall (K : Fld) (rp : rparams K) v ds c ps, range_prove rp v ds c = Some ps ->
  ps = map2 (fun dg rd => sig_prove (rp_pk rp) [of_Z dg] (nth (Z.to_nat dg) (rp_sigs rp) (f0, f0))
                                    (rd_bf rd) (rd_kbf rd) [rd_k rd] (rd_r rd) c) (digits v) ds.
Proof. exact range_digit_proofs_structure. Qed.

(** non-vacuity: concrete collision - the closing randomiser 1 shows the issued signature again, 2 does not *)
Example C14_nonvacuous : randomize (fq 1) (fq 5, fq 7) = (fq 5, fq 7) /\ fst (randomize (fq 2) (fq 5, fq 7)) <> fq 5.
Proof. split; [vm_compute; reflexivity|]. intro E. apply (f_equal (@val q_bls)) in E. vm_compute in E. discriminate. Qed.

Print Assumptions C14_randomize_collision_unique.
Print Assumptions C14_rerandomised_signature_injective_in_draw.
Print Assumptions C14_commitment_injective_in_blinding_factor.
Print Assumptions C14_response_injective_in_commitment_scalar.
Print Assumptions C14_response_compatible_with_every_message.
Print Assumptions C14_blind_signature_injective_in_randomiser.
Print Assumptions C14_unrandomised_signature_is_reused.
Print Assumptions C14_affine_collision_unique.
Print Assumptions C14_proof_commitment_masked.
Print Assumptions C14_proof_scalar_commitment_masked.
Print Assumptions C14_proof_blinding_response_masked.
Print Assumptions C14_proof_response_masked.
Print Assumptions C14_response_perfectly_hiding.
Print Assumptions C14_shown_sigma1_masked.
Print Assumptions C14_shown_sigma2_masked.
Print Assumptions C14_shown_signature_differs_from_issued.
Print Assumptions C14_closing_sigma1_masked.
Print Assumptions C14_closing_sigma2_masked.
Print Assumptions C14_closing_signature_differs_from_issued.
Print Assumptions C14_every_close_rerandomises.
Print Assumptions C14_zero_randomiser_close_sends_identity_pair.
Print Assumptions C14_establish_message_structure.
Print Assumptions C14_pay_message_structure.
Print Assumptions C14_range_digit_proofs_structure.
Print Assumptions C14_nonvacuous.
