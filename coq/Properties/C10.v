(** C10 — Honest proofs and the documented constraint patterns always verify. *)
From ZK Require Import Model.Field Model.Zq Model.QBls Model.Pedersen Model.PS Model.Schnorr Model.Range
  Proofs.PSProofs Proofs.SchnorrProofs Proofs.RangeProofs.
Local Open Scope fld_scope.

Theorem C10_commitment_proof_complete : forall (K : Fld) (h : K) gs ms bf kbf ks c,
  length ms = length ks -> cp_verify h gs (cp_prove h gs ms bf kbf ks c) c = true.
Proof. exact cp_complete. Qed.

Theorem C10_sigreq_proof_complete : forall (K : Fld) (pk : pkey K) ms bf kbf ks c,
  length ms = length ks -> req_verify pk (req_prove pk ms bf kbf ks c) c = Some (blind pk ms bf).
Proof. exact req_complete. Qed.

(** a signature proof on a valid signature verifies exactly when the randomiser is non-zero *)
Theorem C10_signature_proof_complete : forall (K : Fld) (pk : pkey K) ms s bf kbf ks r c,
  length ms = length ks -> verify pk ms s = true ->
  sig_verify pk (sig_prove pk ms s bf kbf ks r c) c = fneqb r f0.
Proof. exact sig_complete. Qed.

Theorem C10_range_constraint_complete : forall (K : Fld) (rp : rparams K) v ds c,
  validate rp = true -> length (rp_sigs rp) = 128%nat -> (0 <= v < 2 ^ 63)%Z ->
  length ds = 9%nat -> Forall (fun rd => rd_r rd <> f0) ds ->
  exists ps, range_prove rp v ds c = Some ps /\
             range_verify rp ps c (c * of_Z v + range_commitment_scalar ds) = true.
Proof. exact range_complete. Qed.

(** the challenge input of a finished proof is that of its builder *)
Theorem C10_builder_proof_transcript_eq : forall (K : Fld) (h : K) gs ms bf kbf ks c,
  cp_transcript (cp_prove h gs ms bf kbf ks c) = cp_builder_transcript (cp_commit_phase h gs ms bf kbf ks).
Proof. exact builder_proof_transcript_eq. Qed.

(** response scalars: r_j = c * m_j + k_j.  Every documented pattern is an instance:
    partial opening (m_j public), equality (same k, same m), secret sum (k3 = k1 + k2),
    public addition (k2 = k1), public product (k2 = k1 * a), range link (k_j = commitment scalar). *)
Theorem C10_response_scalar_spec : forall (K : Fld) (h : K) gs ms bf kbf ks c j,
  length ms = length ks -> (j < length ms)%nat ->
  nth j (cp_rs (cp_prove h gs ms bf kbf ks c)) f0 = c * nth j ms f0 + nth j ks f0.
Proof. exact response_scalar_spec. Qed.

Theorem C10_range_link : forall (K : Fld) (h : K) gs ms bf kbf ks c j v ds,
  length ms = length ks -> (j < length ms)%nat ->
  nth j ms f0 = of_Z v -> nth j ks f0 = range_commitment_scalar ds ->
  nth j (cp_rs (cp_prove h gs ms bf kbf ks c)) f0 = c * of_Z v + range_commitment_scalar ds.
Proof. exact range_link. Qed.

Example C10_nonvacuous :
  let kp := keygen (fq 11) (fq 17) [fq 19; fq 23] (fq 13) in
  let ms := [fq 0; fq (-1)] in
  req_verify (snd kp) (req_prove (snd kp) ms (fq 7) (fq 9) [fq 21; fq 22] (fq 99)) (fq 99) = Some (blind (snd kp) ms (fq 7)) /\
  sig_verify (snd kp) (sig_prove (snd kp) ms (sign (fst kp) (fq 31) ms) (fq 7) (fq 9) [fq 21; fq 22] (fq 5) (fq 99)) (fq 99) = true /\
  sig_verify (snd kp) (sig_prove (snd kp) ms (sign (fst kp) (fq 31) ms) (fq 7) (fq 9) [fq 21; fq 22] (fq 0) (fq 99)) (fq 99) = false.
Proof. vm_compute. auto. Qed.

Print Assumptions C10_commitment_proof_complete.
Print Assumptions C10_sigreq_proof_complete.
Print Assumptions C10_signature_proof_complete.
Print Assumptions C10_range_constraint_complete.
Print Assumptions C10_builder_proof_transcript_eq.
Print Assumptions C10_response_scalar_spec.
Print Assumptions C10_range_link.
Print Assumptions C10_nonvacuous.
