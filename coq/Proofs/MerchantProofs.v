From ZK Require Import Model.Field Model.Pedersen Model.PS Model.Merchant Model.Abacus
  Proofs.FieldFacts Proofs.PedersenProofs Proofs.PSProofs.
Local Open Scope fld_scope.

Section P.
Variable K : Fld.
Add Field Kf8 : (Fth K).

Theorem complete_payment_iff (sk : skey K) (pk : pkey K) hr gr (u : unrevoked K) urand lock bf :
  (exists tok, complete_payment sk pk hr gr u urand lock bf = inl tok) <->
  verify_opening hr [gr] (u_com u) bf [lock] = true.
Proof. unfold complete_payment, revocation_opens. destruct (verify_opening hr [gr] (u_com u) bf [lock]); split.
  - auto. - intros _. eauto. - intros [tok H]. discriminate. - discriminate. Qed.

Theorem complete_payment_token (sk : skey K) (pk : pkey K) hr gr (u : unrevoked K) urand lock bf tok :
  complete_payment sk pk hr gr u urand lock bf = inl tok -> tok = blind_sign sk pk urand (u_state u).
Proof. unfold complete_payment. destruct (revocation_opens hr gr u lock bf); [intros [= <-]; reflexivity | discriminate]. Qed.

(** a refusal hands the pending payment back unchanged, so the right pair can still complete it *)
Theorem refusal_returns_pending (sk : skey K) (pk : pkey K) hr gr (u u' : unrevoked K) urand lock bf :
  complete_payment sk pk hr gr u urand lock bf = inr u' -> u' = u /\ verify_opening hr [gr] (u_com u) bf [lock] = false.
Proof. unfold complete_payment, revocation_opens. destruct (verify_opening hr [gr] (u_com u) bf [lock]);
  [discriminate | intros [= <-]; auto]. Qed.

Theorem retry_after_refusal (sk : skey K) (pk : pkey K) hr gr (u u' : unrevoked K) ur1 ur2 lock bf lock' bf' :
  complete_payment sk pk hr gr u ur1 lock' bf' = inr u' ->
  verify_opening hr [gr] (u_com u) bf [lock] = true ->
  complete_payment sk pk hr gr u' ur2 lock bf = inl (blind_sign sk pk ur2 (u_state u)).
Proof. intros R V. apply refusal_returns_pending in R. destruct R as [-> _].
  unfold complete_payment, revocation_opens. now rewrite V. Qed.

(** with the commitment coming from an accepted pay proof (it opens to the old lock), exactly the old lock with
    the right factor is accepted (for non-identity parameters) *)
Theorem only_the_committed_lock_opens (hr gr lock bf lock' bf' : K) : hr <> f0 -> gr <> f0 ->
  verify_opening hr [gr] (commit hr [gr] [lock] bf) bf' [lock'] = true ->
  (bf' = bf -> lock' = lock) /\ (lock' = lock -> bf' = bf).
Proof. intros Hh Hg V. apply (verify_opening_iff K) in V. unfold commit in V. simpl in V. split; intros ->.
  - apply (fmul_cancel_l K gr); [assumption|]. apply (fadd_cancel_l K (hr * bf)).
    transitivity (hr * bf + (gr * lock' + f0)); [ring|]. rewrite V. ring.
  - apply (fmul_cancel_l K hr); [assumption|].
    transitivity (hr * bf' + (gr * lock + f0) - (gr * lock + f0)); [ring|]. rewrite V. ring. Qed.

(** state vs close-state message: they differ exactly in the second slot when the nonce is not the close tag *)
Theorem state_close_messages_differ (close_tag cid nonce lock cb mb : K) : nonce <> close_tag ->
  state_msg cid nonce lock cb mb <> close_msg close_tag cid lock cb mb /\
  close_msg close_tag cid lock cb mb = upd 1 close_tag (state_msg cid nonce lock cb mb).
Proof. intros H. split; [|reflexivity]. unfold state_msg, close_msg. intros [= E]. contradiction. Qed.

Theorem token_not_closing_signature (close_tag : K) (pk : pkey K) cid nonce lock cb mb tok :
  nonce <> close_tag -> length (pk_y2s pk) = 5%nat -> nth 1 (pk_y2s pk) f0 <> f0 ->
  verify pk (state_msg cid nonce lock cb mb) tok = true ->
  verify pk (close_msg close_tag cid lock cb mb) tok = false.
Proof. intros Hn Hl Hy V. change (close_msg close_tag cid lock cb mb) with (upd 1 close_tag (state_msg cid nonce lock cb mb)).
  apply (single_coordinate_rejects K pk (state_msg cid nonce lock cb mb) tok 1 close_tag V); simpl; try lia; auto. Qed.

Theorem closing_signature_not_token (close_tag : K) (pk : pkey K) cid nonce lock cb mb s :
  nonce <> close_tag -> length (pk_y2s pk) = 5%nat -> nth 1 (pk_y2s pk) f0 <> f0 ->
  verify pk (close_msg close_tag cid lock cb mb) s = true ->
  verify pk (state_msg cid nonce lock cb mb) s = false.
Proof. intros Hn Hl Hy V. change (state_msg cid nonce lock cb mb) with (upd 1 nonce (close_msg close_tag cid lock cb mb)).
  apply (single_coordinate_rejects K pk (close_msg close_tag cid lock cb mb) s 1 nonce V); simpl; try lia; auto. Qed.


Theorem honest_revocation_accepted (sk : skey K) (pk : pkey K) hr gr lock bf st u :
  complete_payment sk pk hr gr (mkU (commit hr [gr] [lock] bf) st) u lock bf = inl (blind_sign sk pk u st).
Proof. unfold complete_payment, revocation_opens; cbn [u_com u_state]. now rewrite (opening_accepts_original K). Qed.

End P.
