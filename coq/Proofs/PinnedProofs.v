From ZK Require Import Model.Field Model.Pedersen Model.PS Model.Schnorr Model.Range Model.Abacus Model.Pinned
  Proofs.FieldFacts Proofs.SchnorrProofs Proofs.EstablishProofs.
Local Open Scope fld_scope.

Section P.
Variable K : Fld.
Variable close_tag : K.
Variable chal : list (atom K) -> K.
Add Field Kf11 : (Fth K).

(** D1, establish: with the pinned transcript EVERY pair of hidden messages that is consistent with itself
    (same channel id, lock and balances in state and close state - whatever they are, whatever sits in the close-tag
    slot) is accepted for ANY agreed channel id and balances *)
Theorem pinned_establish_forgery (pk : pkey K) cid cb mb m0 m1 m2 m3 m4 c1 bfs kbfs k0 k1 k2 k3 k4 bfc kbfc kc1 ctx :
  let ms := [m0; m1; m2; m3; m4] in let mc := [m0; c1; m2; m3; m4] in
  let ks := [k0; k1; k2; k3; k4] in let kc := [k0; kc1; k2; k3; k4] in
  establish_verify_pinned close_tag chal pk cid cb mb (forge close_tag chal pk cid cb mb ms mc bfs kbfs ks bfc kbfc kc ctx) ctx
  = Some (blind pk ms bfs, blind pk mc bfc).
Proof. cbv zeta. unfold establish_verify_pinned.
  set (p := forge _ _ _ _ _ _ _ _ _ _ _ _ _ _ _).
  set (c := chal (establish_transcript_pinned close_tag pk cid cb mb p ctx)).
  (* the challenge the verifier computes is the one the forger used: the revealed scalars are not hashed *)
  assert (Ec : c = chal (establish_transcript_pinned close_tag pk cid cb mb
                 (mkEP f0 f0 f0 f0
                   (mkCP (blind pk [m0; m1; m2; m3; m4] bfs) (commit (pk_g1 pk) (pk_y1s pk) [k0; k1; k2; k3; k4] kbfs) f0 [])
                   (mkCP (blind pk [m0; c1; m2; m3; m4] bfc) (commit (pk_g1 pk) (pk_y1s pk) [k0; kc1; k2; k3; k4] kbfc) f0 [])) ctx))
    by reflexivity.
  apply (establish_verify_spec K close_tag). split; [|reflexivity].
  unfold establish_rel. subst p. unfold forge. cbn [e_sp e_csp e_kcid e_kclose e_kcb e_kmb]. fold c in Ec. rewrite <- Ec.
  split; [apply (cp_verify_iff K), (cp_complete K); reflexivity|].
  split; [apply (cp_verify_iff K), (cp_complete K); reflexivity|].
  unfold rs_at, req_prove, cp_prove, cp_respond; cbn [cp_rs map2 nth]. repeat split; ring. Qed.

(** in particular: hidden balances (cb + d, mb - d) for agreed (cb, mb) - the replay of DESIGN.md section 7 *)
Corollary pinned_establish_accepts_other_balances (pk : pkey K) (cid nonce lock cb mb d bfs kbfs k0 k1 k2 k3 k4 bfc kbfc kc1 : K) ctx :
  exists p, establish_verify_pinned close_tag chal pk cid cb mb p ctx
            = Some (blind pk (state_msg cid nonce lock (cb + d) (mb - d)) bfs,
                    blind pk (close_msg close_tag cid lock (cb + d) (mb - d)) bfc).
Proof. eexists. apply (pinned_establish_forgery pk cid cb mb cid nonce lock (cb + d) (mb - d) close_tag
                          bfs kbfs k0 k1 k2 k3 k4 bfc kbfc kc1 ctx). Qed.

(** D1, binding: two establish proofs that differ in a revealed commitment scalar have the same pinned transcript *)
Theorem pinned_establish_binds_refuted (pk : pkey K) cid cb mb (p : eproof K) ctx k' :
  establish_transcript_pinned close_tag pk cid cb mb p ctx
  = establish_transcript_pinned close_tag pk cid cb mb (mkEP k' (e_kclose p) (e_kcb p) (e_kmb p) (e_sp p) (e_csp p)) ctx.
Proof. reflexivity. Qed.

Theorem pinned_pay_binds_refuted (pk : pkey K) rp nonce (p : pproof K) ctx k' :
  pay_transcript_pinned close_tag pk rp nonce p ctx
  = pay_transcript_pinned close_tag pk rp nonce
      (mkPP k' (p_kclose p) (p_tok p) (p_rev p) (p_sp p) (p_csp p) (p_crange p) (p_mrange p)) ctx.
Proof. reflexivity. Qed.

End P.
