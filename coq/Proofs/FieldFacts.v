(** General facts about a bundled field, inner products and list updates. *)
From ZK Require Import Model.Field.
Local Open Scope fld_scope.

Section Facts.
Variable K : Fld.
Add Field Kf : (Fth K).

Lemma feqbP (a b : K) : reflect (a = b) (a =? b).
Proof. destruct (a =? b) eqn:E; constructor.
  - now apply feqb_ok.
  - intros H. apply feqb_ok in H. congruence. Qed.

Lemma feqb_refl (a : K) : (a =? a) = true.
Proof. now apply feqb_ok. Qed.

Lemma feqb_false (a b : K) : (a =? b) = false <-> a <> b.
Proof. destruct (feqbP a b); split; congruence. Qed.

Lemma fneqb_true (a b : K) : fneqb a b = true <-> a <> b.
Proof. unfold fneqb. rewrite negb_true_iff. apply feqb_false. Qed.

Lemma fneqb_false (a b : K) : fneqb a b = false <-> a = b.
Proof. unfold fneqb. rewrite negb_false_iff. apply feqb_ok. Qed.

Lemma f1_neq_f0 : (f1 : K) <> f0.
Proof. exact (F_1_neq_0 (Fth K)). Qed.

Lemma fmul_eq0 (a b : K) : a * b = f0 -> a = f0 \/ b = f0.
Proof. intros H. destruct (feqbP a f0) as [|Ha]; [now left|right].
  assert (E : b = (f1 / a) * (a * b)) by (field; assumption).
  rewrite E, H. ring. Qed.

Lemma fmul_neq0 (a b : K) : a <> f0 -> b <> f0 -> a * b <> f0.
Proof. intros Ha Hb H. destruct (fmul_eq0 _ _ H); contradiction. Qed.

Lemma fmul_cancel_l (a b c : K) : a <> f0 -> a * b = a * c -> b = c.
Proof. intros Ha H. assert (E : a * (b - c) = f0) by (transitivity (a * b - a * c); [ring | rewrite H; ring]).
  destruct (fmul_eq0 _ _ E) as [|E']; [contradiction|].
  transitivity (b - c + c); [ring | rewrite E'; ring]. Qed.

Lemma fsub_eq0 (a b : K) : a - b = f0 <-> a = b.
Proof. split; intros H.
  - transitivity (a - b + b); [ring | rewrite H; ring].
  - subst; ring. Qed.

Lemma fadd_cancel_l (a b c : K) : a + b = a + c -> b = c.
Proof. intros H. transitivity (a + b - a); [ring | rewrite H; ring]. Qed.

(** ** inner products *)
Lemma ip_nil_r (gs : list K) : ip gs [] = f0.
Proof. destruct gs; reflexivity. Qed.

Lemma ip_map_mul (g : K) (ys ms : list K) : ip (map (fun y => g * y) ys) ms = g * ip ys ms.
Proof. revert ms; induction ys as [|y ys IH]; intros [|m ms]; simpl; try ring.
  rewrite IH. ring. Qed.

Lemma ip_map2_add (gs ms ms' : list K) : length ms = length ms' ->
  ip gs (map2 fadd ms ms') = ip gs ms + ip gs ms'.
Proof. revert ms ms'; induction gs as [|g gs IH]; intros [|m ms] [|m' ms'] H; simpl in *;
  try discriminate; try ring. rewrite IH by congruence. ring. Qed.

Lemma ip_map_scale (c : K) (gs ms : list K) : ip gs (map (fun m => c * m) ms) = c * ip gs ms.
Proof. revert ms; induction gs as [|g gs IH]; intros [|m ms]; simpl; try ring.
  rewrite IH. ring. Qed.

Lemma ip_upd (gs ms : list K) (j : nat) (v : K) : (j < length ms)%nat -> (j < length gs)%nat ->
  ip gs (upd j v ms) = ip gs ms + nth j gs f0 * (v - nth j ms f0).
Proof. revert ms j; induction gs as [|g gs IH]; intros [|m ms] [|j] Hm Hg; simpl in *; try lia.
  - ring.
  - rewrite IH by lia. ring. Qed.

Lemma upd_length {A} (j : nat) (v : A) (l : list A) : length (upd j v l) = length l.
Proof. revert j; induction l as [|x l IH]; intros [|j]; simpl; auto. Qed.

Lemma nth_upd_same {A} (j : nat) (v d : A) (l : list A) : (j < length l)%nat -> nth j (upd j v l) d = v.
Proof. revert j; induction l as [|x l IH]; intros [|j] H; simpl in *; try lia; auto. apply IH; lia. Qed.

Lemma nth_upd_other {A} (i j : nat) (v d : A) (l : list A) : i <> j -> nth i (upd j v l) d = nth i l d.
Proof. revert i j; induction l as [|x l IH]; intros [|i] [|j] H; simpl; try congruence; auto. Qed.

Lemma map2_length {A B C} (f : A -> B -> C) a b : length a = length b -> length (map2 f a b) = length a.
Proof. revert b; induction a as [|x a IH]; intros [|y b] H; simpl in *; try discriminate; auto. Qed.

Lemma nth_map2 {A B C} (f : A -> B -> C) : forall a b i da db dc, (i < length a)%nat -> length a = length b ->
  nth i (map2 f a b) dc = f (nth i a da) (nth i b db).
Proof. induction a as [|x a IH]; intros [|y b] i da db dc Hi Hl; simpl in *; try lia.
  destruct i; [reflexivity|]. apply IH; lia. Qed.

Lemma forallb_nth {A} (p : A -> bool) (l : list A) (i : nat) (d : A) :
  forallb p l = true -> (i < length l)%nat -> p (nth i l d) = true.
Proof. intros H Hi. rewrite forallb_forall in H. apply H, nth_In, Hi. Qed.

(** ** integers into the field *)
Lemma of_pos_succ p : of_pos (K:=K) (Pos.succ p) = of_pos p + f1.
Proof. induction p as [p IH|p IH|]; simpl; try rewrite IH; ring. Qed.
Lemma of_pos_add p r : of_pos (K:=K) (p + r) = of_pos p + of_pos r.
Proof. revert r; induction p as [p IH|p IH|]; intros [r|r|]; simpl;
  rewrite ?Pos.add_carry_spec, ?of_pos_succ, ?IH; try ring. Qed.
Lemma of_pos_mul p r : of_pos (K:=K) (p * r) = of_pos p * of_pos r.
Proof. induction p as [p IH|p IH|]; simpl; rewrite ?of_pos_add; simpl; rewrite ?IH; ring. Qed.

Lemma of_Z_pos_sub p r : of_Z (K:=K) (Z.pos_sub p r) = of_pos p - of_pos r.
Proof. rewrite Z.pos_sub_spec. destruct (Pos.compare_spec p r) as [->|H|H]; simpl.
  - ring.
  - rewrite <- (Pos.sub_add r p H) at 2. rewrite of_pos_add. ring.
  - rewrite <- (Pos.sub_add p r H) at 2. rewrite of_pos_add. ring. Qed.

Lemma of_Z_add a b : of_Z (K:=K) (a + b) = of_Z a + of_Z b.
Proof. destruct a, b; simpl; rewrite ?of_pos_add, ?of_Z_pos_sub; ring. Qed.
Lemma of_Z_opp a : of_Z (K:=K) (- a) = - of_Z a.
Proof. destruct a; simpl; ring. Qed.
Lemma of_Z_sub a b : of_Z (K:=K) (a - b) = of_Z a - of_Z b.
Proof. unfold Z.sub. rewrite of_Z_add, of_Z_opp. ring. Qed.
Lemma of_Z_mul a b : of_Z (K:=K) (a * b) = of_Z a * of_Z b.
Proof. destruct a, b; simpl; rewrite ?of_pos_mul; ring. Qed.
Lemma of_Z_0 : of_Z (K:=K) 0 = f0. Proof. reflexivity. Qed.
Lemma of_Z_1 : of_Z (K:=K) 1 = f1. Proof. reflexivity. Qed.

End Facts.
