From Coq Require Import ZArith Znumtheory Lia List Bool.
From ZK Require Import Model.Field Model.Zq Model.QBls Model.Ids Proofs.FieldFacts.
Open Scope Z_scope.

(** ** the integer image in the executable field is reduction modulo q *)
Lemma of_pos_fq p : @of_pos Fq p = fq (Zpos p).
Proof. induction p as [p IH|p IH|]; cbn [of_pos].
  - rewrite IH. change (@fadd Fq) with (zadd q_bls). change (@f1 Fq) with (zq_of_Z q_bls 1). unfold fq.
    rewrite !(add_of q_bls q_bls_prime). f_equal. lia.
  - rewrite IH. change (@fadd Fq) with (zadd q_bls). unfold fq. rewrite (add_of q_bls q_bls_prime). f_equal. lia.
  - reflexivity. Qed.

Lemma of_Z_fq z : @of_Z Fq z = fq z.
Proof. destruct z as [|p|p]; cbn [of_Z].
  - reflexivity.
  - apply of_pos_fq.
  - rewrite of_pos_fq. change (@fopp Fq) with (zopp q_bls). unfold fq. now rewrite (opp_of q_bls q_bls_prime). Qed.

(** F5: channel ids (256-bit strings) that differ by q are one scalar *)
Theorem cid_alias (n : Z) : bytes_to_scalar_reduced (K:=Fq) (Z_to_le 32 n) = bytes_to_scalar_reduced (K:=Fq) (Z_to_le 32 n) /\
  @of_Z Fq n = @of_Z Fq (n + q_bls).
Proof. split; [reflexivity|]. rewrite !of_Z_fq. unfold fq. apply Zq_eq. cbn [val zq_of_Z].
  rewrite <- (Z_mod_plus_full n 1 q_bls). f_equal; lia. Qed.

(** ... and ONLY those: two integers have one scalar exactly when they are congruent modulo q. So the known class (ids
    congruent modulo q) is the whole set of invisible channel-id substitutions; every other substitution changes the scalar *)
Theorem scalars_equal_iff_congruent (n n' : Z) : @of_Z Fq n = @of_Z Fq n' <-> n mod q_bls = n' mod q_bls.
Proof. rewrite !of_Z_fq. unfold fq. split.
  - intros E. apply (f_equal (@val q_bls)) in E. exact E.
  - intros E. apply Zq_eq. exact E. Qed.

Corollary cid_bit_flip_changes_scalar (n : Z) (k : Z) : 0 <= k < 256 -> @of_Z Fq n <> @of_Z Fq (n + 2 ^ k) /\ @of_Z Fq n <> @of_Z Fq (n - 2 ^ k).
Proof. intros Hk. assert (P : 0 < 2 ^ k < q_bls \/ q_bls < 2 ^ k < 2 * q_bls).
  { assert (B : k <= 254 \/ k = 255) by lia. destruct B as [B| ->].
    - left. split; [apply Z.pow_pos_nonneg; lia|]. apply Z.le_lt_trans with (2 ^ 254); [apply Z.pow_le_mono_r; lia | apply Z.ltb_lt; reflexivity].
    - right. split; apply Z.ltb_lt; reflexivity. }
  assert (NZ : (2 ^ k) mod q_bls <> 0).
  { destruct P as [[P1 P2]|[P1 P2]].
    - rewrite Z.mod_small; lia.
    - replace (2 ^ k) with ((2 ^ k - q_bls) + 1 * q_bls) by lia. rewrite Z_mod_plus_full, Z.mod_small; lia. }
  assert (Q0 : 0 < q_bls) by (apply Z.ltb_lt; reflexivity).
  split; rewrite scalars_equal_iff_congruent; intros E; apply NZ.
  - assert (D : (n + 2 ^ k - n) mod q_bls = 0) by (rewrite Zminus_mod, <- E, Z.sub_diag; reflexivity).
    replace (n + 2 ^ k - n) with (2 ^ k) in D by lia. exact D.
  - assert (D : (n - (n - 2 ^ k)) mod q_bls = 0) by (rewrite Zminus_mod, <- E, Z.sub_diag; reflexivity).
    replace (n - (n - 2 ^ k)) with (2 ^ k) in D by lia. exact D. Qed.

(** integers closer than q have different scalars: in particular the scalar encoding is injective on all i64 amounts and
    on all u64 balances *)
Theorem scalar_encoding_injective_within_q (a a' : Z) : - q_bls < a - a' < q_bls -> @of_Z Fq a = @of_Z Fq a' -> a = a'.
Proof. intros Hd E. apply scalars_equal_iff_congruent in E.
  assert (Q0 : 0 < q_bls) by (apply Z.ltb_lt; reflexivity).
  assert (D : (a - a') mod q_bls = 0) by (rewrite Zminus_mod, E, Z.sub_diag; reflexivity).
  apply Z.mod_divide in D; [|lia]. destruct D as [t Ht].
  assert (t = 0) by nia. lia. Qed.

Theorem cid_alias_exists : exists n n' : Z, n <> n' /\ 0 <= n < 2 ^ 256 /\ 0 <= n' < 2 ^ 256 /\ @of_Z Fq n = @of_Z Fq n'.
Proof. exists 5, (5 + q_bls). split; [unfold q_bls; lia|]. split; [lia|]. split; [unfold q_bls; lia|].
  apply cid_alias. Qed.

Lemma le_roundtrip n z : 0 <= z < 256 ^ Z.of_nat n -> le_to_Z (Z_to_le n z) = z.
Proof. revert z; induction n as [|n IH]; intros z Hz.
  - simpl in *. lia.
  - rewrite Nat2Z.inj_succ, Z.pow_succ_r in Hz by lia. cbn [Z_to_le le_to_Z]. rewrite IH.
    + pose proof (Z.div_mod z 256 ltac:(lia)). lia.
    + split; [apply Z.div_pos; lia | apply Z.div_lt_upper_bound; lia]. Qed.

Section P.
Variable K : Fld.
Variable q : Z.
Variable H : list Z -> list Z.
Variable close_tag : K.

(** ** retry loops *)
Lemma first_accepted_spec {A} (p : A -> bool) draws x : first_accepted p draws = Some x ->
  p x = true /\ exists pre post, draws = pre ++ x :: post /\ forallb (fun y => negb (p y)) pre = true.
Proof. induction draws as [|y draws IH]; simpl; [discriminate|]. destruct (p y) eqn:E.
  - intros [= <-]. split; [exact E|]. exists [], draws. auto.
  - intros Hx. destruct (IH Hx) as [Hp (pre & post & -> & Hpre)]. split; [exact Hp|].
    exists (y :: pre), post. split; [reflexivity|]. simpl. now rewrite E, Hpre. Qed.

Lemma first_accepted_some {A} (p : A -> bool) draws : existsb p draws = true -> exists x, first_accepted p draws = Some x.
Proof. induction draws as [|y draws IH]; simpl; [discriminate|]. destruct (p y); [eauto|]. exact IH. Qed.

(** C18: for EVERY stream of draws the generated nonce is not the close tag (it is the first draw that is not) *)
Theorem nonce_new_not_close (draws : list K) n : nonce_new close_tag draws = Some n ->
  n <> close_tag /\ exists pre post, draws = pre ++ n :: post /\ Forall (fun y => y = close_tag) pre.
Proof. intros Hn. destruct (first_accepted_spec _ _ _ Hn) as [Hp (pre & post & -> & Hpre)].
  split; [now apply (fneqb_true K)|]. exists pre, post. split; [reflexivity|].
  apply Forall_forall. intros y Hy. rewrite forallb_forall in Hpre. specialize (Hpre y Hy).
  apply negb_true_iff in Hpre. now apply (fneqb_false K). Qed.

Theorem nonce_new_terminates (draws : list K) : (exists y, In y draws /\ y <> close_tag) ->
  exists n, nonce_new close_tag draws = Some n.
Proof. intros (y & Hy & Hne). apply first_accepted_some. apply existsb_exists. exists y. split; [exact Hy|].
  now apply (fneqb_true K). Qed.

Theorem nonce_decode_rejects_close : nonce_decode close_tag close_tag = None.
Proof. unfold nonce_decode, nonce_ok, fneqb. now rewrite (feqb_refl K). Qed.

Theorem nonce_decode_spec n v : nonce_decode close_tag n = Some v <-> v = n /\ n <> close_tag.
Proof. unfold nonce_decode. destruct (nonce_ok close_tag n) eqn:E.
  - apply (fneqb_true K) in E. split; [intros [= <-]; auto | intros [-> _]; reflexivity].
  - apply (fneqb_false K) in E. split; [discriminate | intros [_ Hn]; contradiction]. Qed.

(** ** revocation pairs *)
Variable enc : K -> list Z.

Theorem revpair_search_wf secret fuel i0 l s i : revpair_search q H enc secret fuel i0 = Some (l, s, i) ->
  s = secret /\ lock_of q H enc secret i = Some l /\ i0 <= i < i0 + Z.of_nat fuel.
Proof. revert i0; induction fuel as [|fuel IH]; intros i0; simpl; [discriminate|].
  destruct (lock_of q H enc secret i0) as [l0|] eqn:E.
  - intros [= <- <- <-]. split; [reflexivity|]. split; [exact E|lia].
  - intros Hs. destruct (IH _ Hs) as (-> & Hl & Hi). split; [reflexivity|]. split; [exact Hl|lia]. Qed.

Theorem revpair_new_wf secret l s i : revpair_new q H enc secret = Some (l, s, i) ->
  s = secret /\ lock_of q H enc secret i = Some l /\ 0 <= i < 256.
Proof. intros Hn. apply revpair_search_wf in Hn. simpl in Hn. exact Hn. Qed.

Theorem revpair_decode_wf lock secret index l s i : revpair_decode q H enc lock secret index = Some (l, s, i) ->
  l = lock /\ s = secret /\ i = index /\ lock_of q H enc secret index = Some lock.
Proof. unfold revpair_decode. destruct (lock_of q H enc secret index) as [l0|] eqn:E; [|discriminate].
  destruct (feqb l0 lock) eqn:E2; [|discriminate]. apply (feqb_ok K) in E2. subst l0.
  intros [= <- <- <-]. auto. Qed.

Theorem revpair_decode_accepts lock secret index : lock_of q H enc secret index = Some lock ->
  revpair_decode q H enc lock secret index = Some (lock, secret, index).
Proof. intros E. unfold revpair_decode. rewrite E, (feqb_refl K). reflexivity. Qed.

Theorem revpair_decode_rejects_other_lock lock lock' secret index : lock_of q H enc secret index = Some lock ->
  lock' <> lock -> revpair_decode q H enc lock' secret index = None.
Proof. intros E Hne. unfold revpair_decode. rewrite E. destruct (feqbP K lock lock'); [congruence|reflexivity]. Qed.

Theorem revpair_decode_rejects_noncanonical lock secret index : lock_of q H enc secret index = None ->
  revpair_decode q H enc lock secret index = None.
Proof. intros E. unfold revpair_decode. now rewrite E. Qed.

(** the lock is a canonical scalar: its integer is the digest read little-endian, below q *)
Theorem lock_of_spec secret index l : lock_of q H enc secret index = Some l ->
  le_to_Z (H (enc secret ++ [index])) < q /\ l = of_Z (le_to_Z (H (enc secret ++ [index]))).
Proof. unfold lock_of, bytes_to_scalar_canonical. destruct (Z.ltb_spec (le_to_Z (H (enc secret ++ [index]))) q);
  [intros [= <-]; auto | discriminate]. Qed.

End P.

(** ** channel id: the hashed byte string changes when exactly one of the five inputs changes *)
Section Cid.
Variable H : list Z -> list Z.
Definition cid_preimage (mr cr pkb ma ca : list Z) : list Z := mr ++ cr ++ pkb ++ ma ++ ca.

Lemma app_inj_len' {A} (a a' b b' : list A) : length a = length a' -> a ++ b = a' ++ b' -> a = a' /\ b = b'.
Proof. revert a'; induction a as [|x a IH]; intros [|x' a'] Hl Hab; simpl in *; try discriminate; auto.
  injection Hab as -> Hab. destruct (IH a' ltac:(congruence) Hab) as [-> ->]. auto. Qed.

Theorem channel_id_preimage_single_change mr cr pkb ma ca mr' cr' pkb' ma' ca' :
  length mr = length mr' -> length cr = length cr' -> length pkb = length pkb' ->
  (* exactly one input differs *)
  ((mr <> mr' /\ cr = cr' /\ pkb = pkb' /\ ma = ma' /\ ca = ca') \/
   (mr = mr' /\ cr <> cr' /\ pkb = pkb' /\ ma = ma' /\ ca = ca') \/
   (mr = mr' /\ cr = cr' /\ pkb <> pkb' /\ ma = ma' /\ ca = ca') \/
   (mr = mr' /\ cr = cr' /\ pkb = pkb' /\ ma <> ma' /\ ca = ca') \/
   (mr = mr' /\ cr = cr' /\ pkb = pkb' /\ ma = ma' /\ ca <> ca')) ->
  cid_preimage mr cr pkb ma ca <> cid_preimage mr' cr' pkb' ma' ca'.
Proof. intros L1 L2 L3 Hx E. unfold cid_preimage in E.
  apply app_inj_len' in E; [|exact L1]. destruct E as [E1 E].
  apply app_inj_len' in E; [|exact L2]. destruct E as [E2 E].
  apply app_inj_len' in E; [|exact L3]. destruct E as [E3 E].
  destruct Hx as [H1|[H1|[H1|[H1|H1]]]]; destruct H1 as (A & B & C & D & F); try contradiction.
  - subst ca'. apply app_inv_tail in E. contradiction.
  - subst ma'. apply app_inv_head in E. contradiction. Qed.

(** the derivation is a deterministic function of its inputs (it is [H] of their concatenation) *)
Theorem channel_id_deterministic mr cr pkb ma ca :
  channel_id H mr cr pkb ma ca = H (cid_preimage mr cr pkb ma ca).
Proof. reflexivity. Qed.
End Cid.
