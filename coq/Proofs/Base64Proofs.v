From Coq Require Import ZArith List Bool Lia.
From ZK Require Import Model.Wire Model.Base64.
Import ListNotations.
Open Scope Z_scope.


Lemma val_char s : 0 <= s < 64 -> b64_val (b64_char s) = Some s /\ b64_char s <> pad.
Proof. intros H. assert (E : forallb (fun s => match b64_val (b64_char s) with Some v => (v =? s) && negb (b64_char s =? pad) | None => false end)
                              (map Z.of_nat (seq 0 64)) = true) by (vm_compute; reflexivity).
  rewrite forallb_forall in E. specialize (E s).
  assert (I : In s (map Z.of_nat (seq 0 64))).
  { apply in_map_iff. exists (Z.to_nat s). split; [lia|]. apply in_seq. lia. }
  specialize (E I). destruct (b64_val (b64_char s)) as [v|]; [|discriminate].
  apply andb_true_iff in E. destruct E as [E1 E2]. apply Z.eqb_eq in E1. subst v. split; [reflexivity|].
  apply negb_true_iff, Z.eqb_neq in E2. exact E2. Qed.

Lemma list_ind3 {A} (P : list A -> Prop) :
  P [] -> (forall a, P [a]) -> (forall a b, P [a; b]) -> (forall a b c l, P l -> P (a :: b :: c :: l)) -> forall l, P l.
Proof. intros H0 H1 H2 H3. fix IH 1. intros [|a [|b [|c l]]]; [exact H0 | apply H1 | apply H2 | apply H3, IH]. Qed.

Ltac sextet := match goal with |- 0 <= _ < 64 => unfold is_byte in *; Z.div_mod_to_equations; lia end.

Theorem b64_roundtrip bs : Forall is_byte bs -> b64_decode (b64_encode bs) = Some bs.
Proof. induction bs as [|a|a b|a b c l IH] using list_ind3; intros HF.
  - reflexivity.
  - inversion HF as [|x l Ha _]; subst. cbn [b64_encode b64_decode].
    destruct (val_char (a / 4)) as [E0 _]; [sextet|]. destruct (val_char ((a mod 4) * 16)) as [E1 _]; [sextet|].
    rewrite E0, E1. rewrite Z.eqb_refl. cbn [andb is_nil].
    replace ((a mod 4 * 16) mod 16 =? 0) with true by (symmetry; apply Z.eqb_eq; unfold is_byte in *; Z.div_mod_to_equations; lia).
    f_equal. f_equal. unfold is_byte in *. Z.div_mod_to_equations; lia.
  - inversion HF as [|x l Ha HF']; subst. inversion HF' as [|y l' Hb _]; subst. cbn [b64_encode b64_decode].
    destruct (val_char (a / 4)) as [E0 _]; [sextet|]. destruct (val_char ((a mod 4) * 16 + b / 16)) as [E1 _]; [sextet|].
    destruct (val_char ((b mod 16) * 4)) as [E2 N2]; [sextet|].
    rewrite E0, E1. apply Z.eqb_neq in N2. rewrite N2, E2, Z.eqb_refl. cbn [is_nil andb].
    replace ((b mod 16 * 4) mod 4 =? 0) with true by (symmetry; apply Z.eqb_eq; unfold is_byte in *; Z.div_mod_to_equations; lia).
    f_equal. f_equal; [|f_equal]; unfold is_byte in *; Z.div_mod_to_equations; lia.
  - inversion HF as [|x l0 Ha HF1]; subst. inversion HF1 as [|y l1 Hb HF2]; subst. inversion HF2 as [|z l2 Hc HF3]; subst.
    cbn [b64_encode b64_decode].
    destruct (val_char (a / 4)) as [E0 _]; [sextet|]. destruct (val_char ((a mod 4) * 16 + b / 16)) as [E1 _]; [sextet|].
    destruct (val_char ((b mod 16) * 4 + c / 64)) as [E2 N2]; [sextet|]. destruct (val_char (c mod 64)) as [E3 N3]; [sextet|].
    rewrite E0, E1. apply Z.eqb_neq in N2, N3. rewrite N2, E2, N3, E3, (IH HF3).
    f_equal. f_equal; [|f_equal; [|f_equal]]; unfold is_byte in *; Z.div_mod_to_equations; lia. Qed.

Theorem b64_encode_injective a b : Forall is_byte a -> Forall is_byte b -> b64_encode a = b64_encode b -> a = b.
Proof. intros Ha Hb E. apply (f_equal b64_decode) in E. rewrite !b64_roundtrip in E by assumption. now injection E. Qed.

(** every character of an encoding is in the alphabet or the padding character *)
Definition b64_alphabet (c : Z) : Prop := (exists s, 0 <= s < 64 /\ c = b64_char s) \/ c = pad.

Ltac alpha := first [right; reflexivity | left; eexists; (split; [|reflexivity]); sextet].

Theorem b64_encode_alphabet bs : Forall is_byte bs -> Forall b64_alphabet (b64_encode bs).
Proof. induction bs as [|a|a b|a b c l IH] using list_ind3; intros HF.
  - constructor.
  - inversion HF; subst. cbn [b64_encode]. repeat (apply Forall_cons; [alpha|]). constructor.
  - inversion HF as [|x l Ha HF']; subst. inversion HF'; subst. cbn [b64_encode].
    repeat (apply Forall_cons; [alpha|]). constructor.
  - inversion HF as [|x l0 Ha HF1]; subst. inversion HF1 as [|y l1 Hb HF2]; subst. inversion HF2 as [|z l2 Hc HF3]; subst.
    cbn [b64_encode]. do 4 (apply Forall_cons; [alpha|]). now apply IH. Qed.

Lemma b64_encode_length bs : Z.of_nat (length (b64_encode bs)) = 4 * ((Z.of_nat (length bs) + 2) / 3).
Proof. induction bs as [|a|a b|a b c l IH] using list_ind3; try reflexivity.
  cbn [b64_encode length]. rewrite !Nat2Z.inj_succ, IH. Z.div_mod_to_equations; lia. Qed.

(** printing and parsing a channel id *)
Theorem cid_print_parse cid : Forall is_byte cid -> length cid = 32%nat -> cid_parse (cid_print cid) = CidOk cid.
Proof. intros HF HL. unfold cid_parse, cid_print. rewrite b64_roundtrip by exact HF. now rewrite HL. Qed.

Theorem cid_print_injective a b : Forall is_byte a -> Forall is_byte b -> cid_print a = cid_print b -> a = b.
Proof. exact (b64_encode_injective a b). Qed.

Theorem cid_print_length cid : length cid = 32%nat -> length (cid_print cid) = 44%nat.
Proof. intros HL. apply Nat2Z.inj. unfold cid_print. rewrite b64_encode_length, HL. reflexivity. Qed.

(** a parsed channel id has 32 bytes, and other lengths are reported as such *)
Theorem cid_parse_ok_length text bs : cid_parse text = CidOk bs -> length bs = 32%nat.
Proof. unfold cid_parse. destruct (b64_decode text) as [r|]; [|discriminate].
  destruct (Z.eqb_spec (Z.of_nat (length r)) 32); [|discriminate]. intros [= <-]. lia. Qed.

Theorem cid_parse_other_length bs : Forall is_byte bs -> length bs <> 32%nat ->
  cid_parse (b64_encode bs) = CidIncorrectLength (Z.of_nat (length bs)).
Proof. intros HF HL. unfold cid_parse. rewrite b64_roundtrip by exact HF.
  destruct (Z.eqb_spec (Z.of_nat (length bs)) 32); [lia | reflexivity]. Qed.

Theorem cid_parse_rejects_foreign_character c0 c1 c2 c3 rest : b64_val c0 = None -> cid_parse (c0 :: c1 :: c2 :: c3 :: rest) = CidDecodeError.
Proof. intros H. unfold cid_parse. cbn [b64_decode]. now rewrite H. Qed.
