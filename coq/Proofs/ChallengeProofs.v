(** Binding of the Fiat-Shamir transcripts: the hashed chunk list determines every hashed value. *)
From ZK Require Import Model.Field Model.Pedersen Model.PS Model.Schnorr Model.Range Model.Abacus
  Proofs.FieldFacts.
Local Open Scope fld_scope.

Lemma app_inj_len {A} (a a' b b' : list A) : length a = length a' -> a ++ b = a' ++ b' -> a = a' /\ b = b'.
Proof. revert a'; induction a as [|x a IH]; intros [|x' a'] Hl H; simpl in *; try discriminate; auto.
  injection H as -> H. destruct (IH a' ltac:(congruence) H) as [-> ->]. auto. Qed.

Lemma map_inj {A B} (f : A -> B) (Hf : forall x y, f x = f y -> x = y) l l' : map f l = map f l' -> l = l'.
Proof. revert l'; induction l as [|x l IH]; intros [|y l'] H; simpl in *; try discriminate; auto.
  injection H as H1 H2. f_equal; auto. Qed.

Section P.
Variable K : Fld.
Variable close_tag : K.

Lemma A1_inj (x y : K) : A1 x = A1 y -> x = y. Proof. now intros [= ->]. Qed.
Lemma A2_inj (x y : K) : A2 x = A2 y -> x = y. Proof. now intros [= ->]. Qed.

Lemma pk_chunks_length (pk : pkey K) : length (pk_chunks pk) = (3 + length (pk_y1s pk) + length (pk_y2s pk))%nat.
Proof. unfold pk_chunks. simpl. rewrite app_length, !map_length. lia. Qed.

Theorem pk_chunks_injective (pk pk' : pkey K) :
  length (pk_y1s pk) = length (pk_y1s pk') -> pk_chunks pk = pk_chunks pk' -> pk = pk'.
Proof. intros L H. unfold pk_chunks in H. simpl in H. injection H as H1 H2 H3 H4.
  apply app_inj_len in H4; [|now rewrite !map_length]. destruct H4 as [H4 H5].
  apply (map_inj _ A1_inj) in H4. apply (map_inj _ A2_inj) in H5.
  destruct pk, pk'; simpl in *; congruence. Qed.

(** the byte representation of a key ([to_bytes], hashed into the channel id) determines the key *)
Theorem pk_to_bytes_atoms_injective (pk pk' : pkey K) :
  length (pk_y1s pk) = length (pk_y1s pk') -> pk_to_bytes_atoms pk = pk_to_bytes_atoms pk' -> pk = pk'.
Proof. intros L H. unfold pk_to_bytes_atoms in H. cbn [app] in H. injection H as H1 H2.
  apply app_inj_len in H2; [|now rewrite !map_length]. destruct H2 as [H2 H3]. cbn [app] in H3. injection H3 as H3 H4 H5.
  apply (map_inj _ A1_inj) in H2. apply (map_inj _ A2_inj) in H5.
  destruct pk, pk'; simpl in *; congruence. Qed.

Lemma pk_chunks_app_inj (pk pk' : pkey K) (r r' : list (atom K)) :
  length (pk_y1s pk) = length (pk_y1s pk') -> length (pk_y2s pk) = length (pk_y2s pk') ->
  pk_chunks pk ++ r = pk_chunks pk' ++ r' -> pk = pk' /\ r = r'.
Proof. intros L1 L2 H. apply app_inj_len in H; [|rewrite !pk_chunks_length; lia].
  destruct H as [H ->]. split; [|reflexivity]. now apply pk_chunks_injective. Qed.

(** Establish: the transcript determines the key, the public values, both (C, T) pairs, the four revealed
    commitment scalars and the context: every field of the proof that is not a response scalar. *)
Theorem establish_transcript_binds (pk pk' : pkey K) cid cb mb cid' cb' mb' (p p' : eproof K) ctx ctx' :
  length (pk_y1s pk) = length (pk_y1s pk') -> length (pk_y2s pk) = length (pk_y2s pk') ->
  establish_transcript close_tag pk cid cb mb p ctx = establish_transcript close_tag pk' cid' cb' mb' p' ctx' ->
  pk = pk' /\ cid = cid' /\ cb = cb' /\ mb = mb' /\
  cp_C (e_sp p) = cp_C (e_sp p') /\ cp_T (e_sp p) = cp_T (e_sp p') /\
  cp_C (e_csp p) = cp_C (e_csp p') /\ cp_T (e_csp p) = cp_T (e_csp p') /\
  e_kcid p = e_kcid p' /\ e_kclose p = e_kclose p' /\ e_kcb p = e_kcb p' /\ e_kmb p = e_kmb p' /\
  ctx = ctx'.
Proof. intros L1 L2 H. unfold establish_transcript in H.
  apply pk_chunks_app_inj in H; auto. destruct H as [-> H]. simpl in H.
  injection H as -> -> -> -> -> -> -> -> -> -> -> ->. repeat split; reflexivity. Qed.

Lemma sp_chunks_length (p : sproof K) : length (sp_chunks p) = 4%nat.
Proof. reflexivity. Qed.

Lemma range_chunks_length (ps : list (sproof K)) : length (range_chunks ps) = (4 * length ps)%nat.
Proof. unfold range_chunks. induction ps as [|p ps IH]; [reflexivity|].
  cbn [flat_map length]. rewrite app_length, IH, sp_chunks_length. lia. Qed.

Definition sp_first (p : sproof K) := (sp_sig p, cp_C (sp_cp p), cp_T (sp_cp p)).

Lemma sp_chunks_injective (p p' : sproof K) : sp_chunks p = sp_chunks p' -> sp_first p = sp_first p'.
Proof. unfold sp_chunks, sp_first. simpl. intros [= H1 H2 H3 H4].
  destruct (sp_sig p), (sp_sig p'); simpl in *. congruence. Qed.

Lemma range_chunks_injective (ps ps' : list (sproof K)) : length ps = length ps' ->
  range_chunks ps = range_chunks ps' -> map sp_first ps = map sp_first ps'.
Proof. unfold range_chunks. revert ps'; induction ps as [|p ps IH]; intros [|p' ps'] L H; try discriminate; auto.
  cbn [flat_map] in H. apply app_inj_len in H; [|reflexivity]. destruct H as [H1 H2].
  cbn [map]. f_equal; [now apply sp_chunks_injective | apply IH; [simpl in L; congruence | exact H2]]. Qed.

Lemma sig_chunks_flat_injective (l l' : list (sigt K)) : length l = length l' ->
  flat_map sig_chunks l = flat_map sig_chunks l' -> l = l'.
Proof. revert l'; induction l as [|[a b] l IH]; intros [|[a' b'] l'] L H; simpl in *; try discriminate; auto.
  injection H as -> -> H. f_equal. apply IH; [congruence|exact H]. Qed.

Lemma sig_chunks_flat_length (l : list (sigt K)) : length (flat_map sig_chunks l) = (2 * length l)%nat.
Proof. induction l as [|s l IH]; simpl; [reflexivity|]. rewrite IH. lia. Qed.

Lemma rp_chunks_length (rp : rparams K) :
  length (rp_chunks rp) = (2 * length (rp_sigs rp) + length (pk_chunks (rp_pk rp)))%nat.
Proof. unfold rp_chunks. rewrite app_length. f_equal.
  induction (rp_sigs rp) as [|s l IH]; simpl; [reflexivity|]. rewrite IH. lia. Qed.

Theorem rp_chunks_app_inj (rp rp' : rparams K) (r r' : list (atom K)) :
  length (rp_sigs rp) = length (rp_sigs rp') ->
  length (pk_y1s (rp_pk rp)) = length (pk_y1s (rp_pk rp')) ->
  length (pk_y2s (rp_pk rp)) = length (pk_y2s (rp_pk rp')) ->
  rp_chunks rp ++ r = rp_chunks rp' ++ r' -> rp = rp' /\ r = r'.
Proof. intros L1 L2 L3 H. unfold rp_chunks in H. rewrite <- !app_assoc in H.
  apply app_inj_len in H.
  2:{ rewrite !sig_chunks_flat_length. lia. }
  destruct H as [H1 H2]. apply sig_chunks_flat_injective in H1; auto.
  apply pk_chunks_app_inj in H2; auto. destruct H2 as [H2 ->].
  destruct rp, rp'; simpl in *. subst. auto. Qed.

(** Pay: the transcript determines key, range parameters, nonce, every (C, T), every blinded signature,
    the two revealed commitment scalars and the context. *)
Theorem pay_transcript_binds (pk pk' : pkey K) (rp rp' : rparams K) nonce nonce' (p p' : pproof K) ctx ctx' :
  length (pk_y1s pk) = length (pk_y1s pk') -> length (pk_y2s pk) = length (pk_y2s pk') ->
  length (rp_sigs rp) = length (rp_sigs rp') ->
  length (pk_y1s (rp_pk rp)) = length (pk_y1s (rp_pk rp')) ->
  length (pk_y2s (rp_pk rp)) = length (pk_y2s (rp_pk rp')) ->
  length (p_crange p) = length (p_crange p') -> length (p_mrange p) = length (p_mrange p') ->
  pay_transcript close_tag pk rp nonce p ctx = pay_transcript close_tag pk' rp' nonce' p' ctx' ->
  pk = pk' /\ rp = rp' /\ nonce = nonce' /\
  cp_C (p_rev p) = cp_C (p_rev p') /\ cp_T (p_rev p) = cp_T (p_rev p') /\
  cp_C (p_sp p) = cp_C (p_sp p') /\ cp_T (p_sp p) = cp_T (p_sp p') /\
  cp_C (p_csp p) = cp_C (p_csp p') /\ cp_T (p_csp p) = cp_T (p_csp p') /\
  sp_first (p_tok p) = sp_first (p_tok p') /\
  map sp_first (p_crange p) = map sp_first (p_crange p') /\
  map sp_first (p_mrange p) = map sp_first (p_mrange p') /\
  p_knonce p = p_knonce p' /\ p_kclose p = p_kclose p' /\ ctx = ctx'.
Proof. intros L1 L2 L3 L4 L5 L6 L7 H. unfold pay_transcript in H.
  apply pk_chunks_app_inj in H; auto. destruct H as [-> H].
  apply rp_chunks_app_inj in H; auto. destruct H as [-> H].
  simpl in H. injection H as -> E1 E2 E3 E4 E5 E6 S1 S2 S3 S4 H.
  apply app_inj_len in H; [|rewrite !range_chunks_length; lia]. destruct H as [R1 H].
  apply app_inj_len in H; [|rewrite !range_chunks_length; lia]. destruct H as [R2 H].
  simpl in H. injection H as -> -> ->.
  apply range_chunks_injective in R1, R2; auto.
  repeat split; auto. unfold sp_first. destruct (sp_sig (p_tok p)), (sp_sig (p_tok p')); simpl in *. congruence. Qed.

Theorem establish_transcripts_differ (pk pk' : pkey K) cid cb mb cid' cb' mb' (p : eproof K) ctx ctx' :
  length (pk_y1s pk) = length (pk_y1s pk') -> length (pk_y2s pk) = length (pk_y2s pk') ->
  (pk, cid, cb, mb, ctx) <> (pk', cid', cb', mb', ctx') ->
  establish_transcript close_tag pk cid cb mb p ctx <> establish_transcript close_tag pk' cid' cb' mb' p ctx'.
Proof. intros L1 L2 Hne E. apply Hne.
  destruct (establish_transcript_binds pk pk' cid cb mb cid' cb' mb' p p ctx ctx' L1 L2 E)
    as (-> & -> & -> & -> & _ & _ & _ & _ & _ & _ & _ & _ & ->). reflexivity. Qed.

Theorem same_challenge_is_collision (chal : list (atom K) -> K) t t' :
  t <> t' -> chal t = chal t' -> exists a b, a <> b /\ chal a = chal b.
Proof. intros H E. exists t, t'. auto. Qed.

End P.

(** ** byte level: chunks of fixed width concatenate injectively *)
Section Bytes.
Variable A : Type.
Variable enc : A -> list Z.
Variable width : A -> nat.           (* the width is a function of the chunk's kind only *)
Hypothesis enc_width : forall a, length (enc a) = width a.

Lemma concat_chunks_injective (l l' : list A) :
  Forall2 (fun a a' => width a = width a') l l' ->
  flat_map enc l = flat_map enc l' -> map enc l = map enc l'.
Proof. induction 1 as [|a a' l l' Hw _ IH]; simpl; intros H; [reflexivity|].
  apply app_inj_len in H; [|rewrite !enc_width; exact Hw]. destruct H as [-> H]. f_equal. auto. Qed.
End Bytes.
