From ZK Require Import Model.Field Model.Pedersen Model.PS Model.Schnorr Model.Range Model.Abacus
  Proofs.FieldFacts Proofs.PedersenProofs Proofs.PSProofs Proofs.SchnorrProofs Proofs.RangeProofs
  Proofs.EstablishProofs.
Local Open Scope fld_scope.

Section P.
Variable K : Fld.
Variable close_tag : K.
Add Field Kf6 : (Fth K).

Notation pverify := (pay_verify_with close_tag).
Notation pprove := (pay_prove_with close_tag).

(** the exact relation accepted by [PayProof::verify] for challenge [c] *)
Definition pay_rel (pk : pkey K) (rp : rparams K) (hr gr nonce eps : K) (p : pproof K) (c : K) : Prop :=
  let s := p_sp p in let cs := p_csp p in let t := sp_cp (p_tok p) in
  cp_verify (pk_g1 pk) (pk_y1s pk) s c = true /\
  cp_verify (pk_g1 pk) (pk_y1s pk) cs c = true /\
  sig_verify pk (p_tok p) c = true /\
  cp_verify hr [gr] (p_rev p) c = true /\
  range_verify rp (p_crange p) c (rs_at s 3) = true /\
  range_verify rp (p_mrange p) c (rs_at s 4) = true /\
  (rs_at s 0 = rs_at cs 0 /\ rs_at cs 0 = rs_at t 0) /\
  rs_at cs 1 = c * close_tag + p_kclose p /\
  rs_at (p_rev p) 0 = rs_at t 2 /\
  rs_at s 2 = rs_at cs 2 /\
  rs_at t 1 = c * nonce + p_knonce p /\
  rs_at s 3 = rs_at cs 3 /\
  rs_at s 4 = rs_at cs 4 /\
  rs_at s 3 = rs_at t 3 - c * eps /\
  rs_at s 4 = rs_at t 4 + c * eps.

Theorem pay_verify_spec (pk : pkey K) rp hr gr nonce eps (p : pproof K) c v :
  pverify pk rp hr gr nonce eps p c = Some v <->
  pay_rel pk rp hr gr nonce eps p c /\ v = (cp_C (p_sp p), cp_C (p_csp p), cp_C (p_rev p)).
Proof. unfold pay_verify_with, pay_rel, req_verify.
  destruct (cp_verify (pk_g1 pk) (pk_y1s pk) (p_sp p) c) eqn:E1.
  2:{ split; [discriminate|]. intros [(H & _) _]. discriminate. }
  destruct (cp_verify (pk_g1 pk) (pk_y1s pk) (p_csp p) c) eqn:E2.
  2:{ split; [discriminate|]. intros [(_ & H & _) _]. discriminate. }
  match goal with |- (if ?b then _ else _) = _ <-> _ => destruct b eqn:B end.
  - rewrite !andb_true_iff, !(feqb_ok K) in B.
    destruct B as [[[[[[[[[[[[B1 B2] B3] B4] [B5 B6]] B7] B8] B9] B10] B11] B12] B13] B14].
    split; [intros [= <-]|intros [_ ->]]; auto. repeat split; auto.
  - split; [discriminate|].
    intros [(_ & _ & H3 & H4 & H5 & H6 & [H7 H7'] & H8 & H9 & H10 & H11 & H12 & H13 & H14 & H15) _]. exfalso.
    rewrite <- not_true_iff_false in B. apply B.
    rewrite !andb_true_iff, !(feqb_ok K). repeat split; assumption. Qed.

(** ** completeness: an honest payment proof verifies, for every randomness and challenge *)
Theorem pay_complete (pk : pkey K) rp hr gr (tok : sigt K) cid nonce lock ocb omb nn lock' cbz mbz eps d c :
  verify pk [cid; nonce; lock; ocb; omb] tok = true ->
  validate rp = true -> length (rp_sigs rp) = 128%nat ->
  (0 <= cbz < 2 ^ 63)%Z -> (0 <= mbz < 2 ^ 63)%Z ->
  of_Z cbz = ocb - eps -> of_Z mbz = omb + eps ->
  length (d_dsc d) = 9%nat -> length (d_dsm d) = 9%nat ->
  Forall (fun rd => rd_r rd <> f0) (d_dsc d) -> Forall (fun rd => rd_r rd <> f0) (d_dsm d) ->
  d_rt d <> f0 ->
  let old := [cid; nonce; lock; ocb; omb] in
  let new := [cid; nn; lock'; of_Z cbz; of_Z mbz] in
  exists p, pprove pk rp hr gr tok old cbz mbz new d c = Some p /\
    pverify pk rp hr gr nonce eps p c
    = Some (blind pk new (d_bfs d), blind pk [cid; close_tag; lock'; of_Z cbz; of_Z mbz] (d_bfc d),
            commit hr [gr] [lock] (d_bfr d)).
Proof. intros Htok Hval Hlen Hcb Hmb Ecb Emb L1 L2 R1 R2 Hrt old new.
  destruct (range_complete K rp cbz (d_dsc d) c Hval Hlen Hcb L1 R1) as (prc & Pc & Vc).
  destruct (range_complete K rp mbz (d_dsm d) c Hval Hlen Hmb L2 R2) as (prm & Pm & Vm).
  unfold pay_prove_with. rewrite Pc, Pm. eexists; split; [reflexivity|].
  apply pay_verify_spec. split; [|reflexivity].
  unfold pay_rel; cbn [p_sp p_csp p_tok p_rev p_crange p_mrange p_knonce p_kclose nth].
  unfold new, old; cbn [nth].
  split; [apply (cp_complete K); reflexivity|].
  split; [apply (cp_complete K); reflexivity|].
  split; [rewrite (sig_complete K) by (try reflexivity; exact Htok); now apply (fneqb_true K)|].
  split; [apply (cp_complete K); reflexivity|].
  unfold rs_at, req_prove, sig_prove, cp_prove, cp_respond; cbn [cp_rs sp_cp map2 nth].
  split; [exact Vc|]. split; [exact Vm|].
  repeat split; try reflexivity.
  - rewrite Ecb. ring.
  - rewrite Emb. ring. Qed.

(** ** special soundness *)
Definition pay_same_first (p p' : pproof K) : Prop :=
  p_knonce p = p_knonce p' /\ p_kclose p = p_kclose p' /\
  sp_sig (p_tok p) = sp_sig (p_tok p') /\
  cp_C (sp_cp (p_tok p)) = cp_C (sp_cp (p_tok p')) /\ cp_T (sp_cp (p_tok p)) = cp_T (sp_cp (p_tok p')) /\
  cp_C (p_rev p) = cp_C (p_rev p') /\ cp_T (p_rev p) = cp_T (p_rev p') /\
  cp_C (p_sp p) = cp_C (p_sp p') /\ cp_T (p_sp p) = cp_T (p_sp p') /\
  cp_C (p_csp p) = cp_C (p_csp p') /\ cp_T (p_csp p) = cp_T (p_csp p') /\
  Forall2 (same_first K) (p_crange p) (p_crange p') /\ Forall2 (same_first K) (p_mrange p) (p_mrange p').

Definition pay_lengths (pk : pkey K) (p : pproof K) : Prop :=
  length (cp_rs (sp_cp (p_tok p))) = 5%nat /\ length (cp_rs (p_rev p)) = 1%nat /\
  length (cp_rs (p_sp p)) = 5%nat /\ length (cp_rs (p_csp p)) = 5%nat.

Lemma cp_open (h : K) gs (p p' : cproof K) c c' : c - c' <> f0 ->
  length (cp_rs p) = length gs -> length (cp_rs p') = length gs ->
  cp_C p = cp_C p' -> cp_T p = cp_T p' ->
  cp_verify h gs p c = true -> cp_verify h gs p' c' = true ->
  cp_C p = commit h gs (xs K (c - c') p p') (xbf K (c - c') p p').
Proof. intros Hc L L' EC ET V V'. destruct p as [C T rbf rs], p' as [C' T' rbf' rs']; simpl in *. subst C' T'.
  now apply (cp_special_soundness K h gs C T rbf rs rbf' rs' c c'). Qed.

Theorem pay_special_soundness (pk : pkey K) rp hr gr nonce eps (p p' : pproof K) c c' :
  c - c' <> f0 -> length (pk_y1s pk) = 5%nat -> length (pk_y2s pk) = 5%nat ->
  length (pk_y2s (rp_pk rp)) = 1%nat ->
  pay_lengths pk p -> pay_lengths pk p' -> pay_same_first p p' ->
  pay_rel pk rp hr gr nonce eps p c -> pay_rel pk rp hr gr nonce eps p' c' ->
  let d := c - c' in
  let mo := xs K d (sp_cp (p_tok p)) (sp_cp (p_tok p')) in     (* old state *)
  let mn := xs K d (p_sp p) (p_sp p') in                         (* new state *)
  let mc := xs K d (p_csp p) (p_csp p') in                       (* new close state *)
  let ml := xs K d (p_rev p) (p_rev p') in                       (* committed old lock *)
  (* the prover holds a valid signature under the merchant key on the old state *)
  verify pk mo (unblind (xbf K d (sp_cp (p_tok p)) (sp_cp (p_tok p'))) (sp_sig (p_tok p))) = true /\
  (* the three commitments handed to the merchant open to these messages *)
  cp_C (p_sp p) = blind pk mn (xbf K d (p_sp p) (p_sp p')) /\
  cp_C (p_csp p) = blind pk mc (xbf K d (p_csp p) (p_csp p')) /\
  cp_C (p_rev p) = commit hr [gr] ml (xbf K d (p_rev p) (p_rev p')) /\
  (* and the messages are related as the statement says *)
  nth 1 mo f0 = nonce /\
  nth 0 mn f0 = nth 0 mo f0 /\ nth 0 mc f0 = nth 0 mo f0 /\
  nth 1 mc f0 = close_tag /\
  nth 0 ml f0 = nth 2 mo f0 /\
  nth 2 mn f0 = nth 2 mc f0 /\
  nth 3 mn f0 = nth 3 mo f0 - eps /\ nth 4 mn f0 = nth 4 mo f0 + eps /\
  nth 3 mc f0 = nth 3 mn f0 /\ nth 4 mc f0 = nth 4 mn f0 /\
  (* each new balance is a weighted sum of nine messages that carry valid range-key signatures *)
  (Forall2 (fun q q' => exists bf, verify (rp_pk rp) [xdigit K d q q'] (unblind bf (sp_sig q)) = true)
           (p_crange p) (p_crange p') /\
   horner K (map2 (xdigit K d) (p_crange p) (p_crange p')) = nth 3 mn f0) /\
  (Forall2 (fun q q' => exists bf, verify (rp_pk rp) [xdigit K d q q'] (unblind bf (sp_sig q)) = true)
           (p_mrange p) (p_mrange p') /\
   horner K (map2 (xdigit K d) (p_mrange p) (p_mrange p')) = nth 4 mn f0).
Proof. intros Hc Hy1 Hy2 Hyr (Lt & Lr & Ls & Lc) (Lt' & Lr' & Ls' & Lc')
    (Ek1 & Ek2 & Esig & ECt & ETt & ECr & ETr & ECs & ETs & ECc & ETc & Frc & Frm) R R'.
  destruct R as (V1 & V2 & V3 & V4 & V5 & V6 & [A0 A0b] & A1 & A2 & A3 & A4 & A5 & A6 & A7 & A8).
  destruct R' as (V1' & V2' & V3' & V4' & V5' & V6' & [A0' A0b'] & A1' & A2' & A3' & A4' & A5' & A6' & A7' & A8').
  cbv zeta. unfold rs_at in *.
  (* response -> extracted-message lemmas *)
  assert (NX : forall (q q' : cproof K) i, (i < length (cp_rs q))%nat -> length (cp_rs q) = length (cp_rs q') ->
             nth i (xs K (c - c') q q') f0 = ext K (c - c') (nth i (cp_rs q) f0) (nth i (cp_rs q') f0)).
  { intros q q' i Hi Hl. unfold xs. now rewrite (nth_map2 (ext K (c - c')) (cp_rs q) (cp_rs q') i f0 f0 f0). }
  split.
  { destruct (p_tok p) as [s [C T rbf rs]] eqn:Ep, (p_tok p') as [s' [C' T' rbf' rs']] eqn:Ep'. simpl in *. subst s' C' T'.
    unfold xs, xbf; simpl.
    apply (sig_special_soundness K pk s C T rbf rs rbf' rs' c c'); try congruence. }
  split; [unfold blind; apply cp_open; auto; congruence|].
  split; [unfold blind; apply cp_open; auto; congruence|].
  split; [apply cp_open; auto; simpl; congruence|].
  rewrite <- Ek1, <- Ek2 in *.
  assert (Ext : forall a b a' b', a = b -> a' = b' -> ext K (c - c') a a' = ext K (c - c') b b') by (intros; subst; reflexivity).
  repeat match goal with |- _ /\ _ => split end.
  - apply (ext_public K) with (k := p_knonce p); auto; lia.
  - rewrite !NX by lia. apply Ext; congruence.
  - rewrite !NX by lia. apply Ext; congruence.
  - apply (ext_public K) with (k := p_kclose p); auto; lia.
  - rewrite !NX by lia. apply Ext; congruence.
  - rewrite !NX by lia. apply Ext; congruence.
  - rewrite !NX by lia. rewrite A7, A7'. unfold ext. field. exact Hc.
  - rewrite !NX by lia. rewrite A8, A8'. unfold ext. field. exact Hc.
  - rewrite !NX by lia. apply Ext; congruence.
  - rewrite !NX by lia. apply Ext; congruence.
  - destruct (range_special_soundness K rp (p_crange p) (p_crange p') c c' _ _ Hc Hyr Frc V5 V5') as [F _]. exact F.
  - destruct (range_special_soundness K rp (p_crange p) (p_crange p') c c' _ _ Hc Hyr Frc V5 V5') as [_ E].
    rewrite E, NX by lia. reflexivity.
  - destruct (range_special_soundness K rp (p_mrange p) (p_mrange p') c c' _ _ Hc Hyr Frm V6 V6') as [F _]. exact F.
  - destruct (range_special_soundness K rp (p_mrange p) (p_mrange p') c c' _ _ Hc Hyr Frm V6 V6') as [_ E].
    rewrite E, NX by lia. reflexivity. Qed.

(** ** one proof, two statements *)
Theorem one_token_two_nonces (pk : pkey K) rp hr gr nonce nonce' eps eps' (p : pproof K) c :
  pay_rel pk rp hr gr nonce eps p c -> pay_rel pk rp hr gr nonce' eps' p c -> nonce <> nonce' -> c = f0.
Proof. intros R R' Hne.
  destruct R as (_ & _ & _ & _ & _ & _ & _ & _ & _ & _ & A4 & _).
  destruct R' as (_ & _ & _ & _ & _ & _ & _ & _ & _ & _ & A4' & _).
  destruct (feqbP K c f0) as [|Hc]; [assumption|exfalso]. apply Hne.
  apply (fmul_cancel_l K c); [assumption|].
  transitivity (c * nonce + p_knonce p - p_knonce p); [ring|]. rewrite <- A4, A4'. ring. Qed.

Theorem replace_amount (pk : pkey K) rp hr gr nonce eps eps' (p : pproof K) c :
  pay_rel pk rp hr gr nonce eps p c -> pay_rel pk rp hr gr nonce eps' p c -> eps <> eps' -> c = f0.
Proof. intros R R' Hne.
  destruct R as (_ & _ & _ & _ & _ & _ & _ & _ & _ & _ & _ & _ & _ & _ & A8).
  destruct R' as (_ & _ & _ & _ & _ & _ & _ & _ & _ & _ & _ & _ & _ & _ & A8').
  destruct (feqbP K c f0) as [|Hc]; [assumption|exfalso]. apply Hne.
  apply (fmul_cancel_l K c); [assumption|].
  transitivity (rs_at (sp_cp (p_tok p)) 4 + c * eps - rs_at (sp_cp (p_tok p)) 4); [ring|]. rewrite <- A8, A8'. ring. Qed.

Theorem pay_unique_challenge (pk : pkey K) rp hr gr nonce eps nonce' eps' (p : pproof K) c c' :
  cp_C (p_sp p) <> f0 ->
  pay_rel pk rp hr gr nonce eps p c -> pay_rel pk rp hr gr nonce' eps' p c' -> c = c'.
Proof. intros HC (S1 & _) (S1' & _).
  apply (unique_accepting_challenge K (pk_g1 pk) (pk_y1s pk) (p_sp p)); auto. Qed.

(** acceptance under other revocation-commitment parameters: exactly when the parameter change is
    annihilated by the responses *)
Theorem replace_rev_params (hr gr hr' gr' : K) (p : cproof K) c : length (cp_rs p) = 1%nat ->
  cp_verify hr [gr] p c = true ->
  (cp_verify hr' [gr'] p c = true <-> cp_rbf p * (hr' - hr) + rs_at p 0 * (gr' - gr) = f0).
Proof. intros L V. apply (cp_verify_iff K) in V. rewrite (cp_verify_iff K). rewrite <- V.
  unfold rs_at. destruct (cp_rs p) as [|r [|? ?]]; try discriminate. unfold commit. cbn [ip nth].
  generalize (cp_rbf p). intros b. split; intros E.
  - transitivity (hr' * b + (gr' * r + f0) - (hr * b + (gr * r + f0))); [ring | rewrite E; ring].
  - transitivity (hr * b + (gr * r + f0) + (b * (hr' - hr) + r * (gr' - gr))); [ring | rewrite E; ring]. Qed.

End P.
