From ZK Require Import Model.Field Model.Pedersen Proofs.FieldFacts.
Local Open Scope fld_scope.

Section P.
Variable K : Fld.
Add Field Kf1 : (Fth K).

Lemma verify_opening_iff (h : K) gs c bf ms :
  verify_opening h gs c bf ms = true <-> commit h gs ms bf = c.
Proof. unfold verify_opening. apply feqb_ok. Qed.

Lemma opening_accepts_original (h : K) gs bf ms :
  verify_opening h gs (commit h gs ms bf) bf ms = true.
Proof. apply verify_opening_iff. reflexivity. Qed.

Lemma commit_add (h : K) gs ms ms' bf bf' : length ms = length ms' ->
  commit h gs (map2 fadd ms ms') (bf + bf') = commit h gs ms bf + commit h gs ms' bf'.
Proof. intros H. unfold commit. rewrite (ip_map2_add K) by assumption. ring. Qed.

Lemma commit_upd (h : K) gs ms bf j v : (j < length ms)%nat -> (j < length gs)%nat ->
  commit h gs (upd j v ms) bf = commit h gs ms bf + nth j gs f0 * (v - nth j ms f0).
Proof. intros. unfold commit. rewrite (ip_upd K) by assumption. ring. Qed.

Lemma single_coordinate_rejects (h : K) gs ms bf j v :
  (j < length ms)%nat -> (j < length gs)%nat -> nth j gs f0 <> f0 -> v <> nth j ms f0 ->
  verify_opening h gs (commit h gs ms bf) bf (upd j v ms) = false.
Proof. intros Hm Hg Hgj Hv. unfold verify_opening. apply (feqb_false K).
  rewrite commit_upd by assumption. intros E.
  assert (E' : nth j gs f0 * (v - nth j ms f0) = f0).
  { transitivity (commit h gs ms bf + nth j gs f0 * (v - nth j ms f0) - commit h gs ms bf); [ring|].
    rewrite E. ring. }
  destruct (fmul_eq0 K _ _ E') as [|E'']; [contradiction|].
  apply Hv. now apply (fsub_eq0 K). Qed.

(** the exact condition: a changed coordinate is accepted iff its generator is the identity *)
Lemma single_coordinate_iff (h : K) gs ms bf j v :
  (j < length ms)%nat -> (j < length gs)%nat ->
  (verify_opening h gs (commit h gs ms bf) bf (upd j v ms) = true <->
   nth j gs f0 = f0 \/ v = nth j ms f0).
Proof. intros Hm Hg. rewrite verify_opening_iff, commit_upd by assumption. split.
  - intros E. assert (E' : nth j gs f0 * (v - nth j ms f0) = f0).
    { transitivity (commit h gs ms bf + nth j gs f0 * (v - nth j ms f0) - commit h gs ms bf); [ring|].
      rewrite E. ring. }
    destruct (fmul_eq0 K _ _ E') as [|E'']; [now left|right]. now apply (fsub_eq0 K).
  - intros [->| ->]; ring. Qed.

Lemma wrong_bf_rejects (h : K) gs ms bf bf' : h <> f0 -> bf' <> bf ->
  verify_opening h gs (commit h gs ms bf) bf' ms = false.
Proof. intros Hh Hb. unfold verify_opening, commit. apply (feqb_false K). intros E.
  assert (E' : h * (bf' - bf) = f0).
  { transitivity (h * bf' + ip gs ms - (h * bf + ip gs ms)); [ring | rewrite E; ring]. }
  destruct (fmul_eq0 K _ _ E') as [|E'']; [contradiction|]. apply Hb. now apply (fsub_eq0 K). Qed.

Lemma wrong_commitment_rejects (h : K) gs ms bf c : c <> commit h gs ms bf ->
  verify_opening h gs c bf ms = false.
Proof. intros Hc. unfold verify_opening. apply (feqb_false K). congruence. Qed.

(** degenerate inputs: the map is the same formula when the blinding factor, or every message entry, is zero - no term is
    dropped together with another one *)
Lemma ip_zero_r (gs : list K) n : ip gs (repeat f0 n) = f0.
Proof. revert n; induction gs as [|g gs IH]; intros [|n]; simpl; try reflexivity. rewrite IH. ring. Qed.

Lemma commit_zero_bf (h : K) gs ms : commit h gs ms f0 = ip gs ms.
Proof. unfold commit. ring. Qed.

Lemma commit_zero_message (h : K) gs n bf : commit h gs (repeat f0 n) bf = h * bf.
Proof. unfold commit. rewrite ip_zero_r. ring. Qed.

Lemma zero_bf_still_binds (h : K) gs ms j v :
  (j < length ms)%nat -> (j < length gs)%nat -> nth j gs f0 <> f0 -> v <> nth j ms f0 ->
  verify_opening h gs (commit h gs ms f0) f0 (upd j v ms) = false.
Proof. apply single_coordinate_rejects. Qed.

Lemma zero_message_commitment_is_not_identity (h : K) gs n bf : h <> f0 -> bf <> f0 ->
  commit h gs (repeat f0 n) bf <> f0.
Proof. intros Hh Hb. rewrite commit_zero_message. now apply (fmul_neq0 K). Qed.

End P.
