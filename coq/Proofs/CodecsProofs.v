From Coq Require Import ZArith List Bool Lia.
From ZK Require Import Model.Field Model.Zq Model.QBls Model.Ids Model.Amount Model.Wire Model.Codecs
  Proofs.IdsProofs Proofs.WireProofs.
Import ListNotations.
Open Scope Z_scope.

(** ** integer atoms *)
Lemma Z_to_le_le_to_Z n b : length b = n -> Forall is_byte b -> Z_to_le n (le_to_Z b) = b.
Proof. intros <- Hb. now apply le_roundtrip_bytes. Qed.

Lemma c_u_ok (n : nat) : codec_ok (c_atom n (parse_u n) (Z_to_le n) (fun z => 0 <= z < 256 ^ Z.of_nat n)).
Proof. apply ok_atom.
  - intros a Ha. split; [apply Z_to_le_length|]. unfold parse_u. f_equal. now apply le_roundtrip.
  - intros b a L Hb [= <-]. split; [rewrite <- L; now apply le_to_Z_range | now apply Z_to_le_le_to_Z]. Qed.

Theorem c_u8_ok : codec_ok c_u8.  Proof. exact (c_u_ok 1). Qed.
Theorem c_u64_ok : codec_ok c_u64.  Proof. exact (c_u_ok 8). Qed.

Lemma pow_256_8 : 256 ^ Z.of_nat 8 = 2 ^ 64.  Proof. reflexivity. Qed.

Lemma i64_of_u64_mod a : - 2 ^ 63 <= a < 2 ^ 63 -> i64_of_u64 (a mod 2 ^ 64) = a.
Proof. intros Ha. unfold i64_of_u64. destruct (Z_lt_dec a 0).
  - assert (E : a mod 2 ^ 64 = a + 2 ^ 64) by (symmetry; apply (Z.mod_unique _ _ (-1)); lia).
    rewrite E. destruct (Z.ltb_spec (a + 2 ^ 64) (2 ^ 63)); lia.
  - rewrite Z.mod_small by lia. destruct (Z.ltb_spec a (2 ^ 63)); lia. Qed.

Lemma i64_of_u64_range u : 0 <= u < 2 ^ 64 -> - 2 ^ 63 <= i64_of_u64 u < 2 ^ 63 /\ (i64_of_u64 u) mod 2 ^ 64 = u.
Proof. intros Hu. unfold i64_of_u64. destruct (Z.ltb_spec u (2 ^ 63)).
  - split; [lia|]. apply Z.mod_small. lia.
  - split; [lia|]. symmetry. apply (Z.mod_unique _ _ (-1)); lia. Qed.

Theorem c_i64_ok : codec_ok c_i64.
Proof. apply ok_atom.
  - intros a Ha. cbv beta in Ha. split; [apply Z_to_le_length|]. f_equal.
    assert (B : 0 <= a mod 2 ^ 64 < 2 ^ 64) by (apply Z.mod_pos_bound; lia).
    rewrite le_roundtrip by (rewrite pow_256_8; exact B). now apply i64_of_u64_mod.
  - intros b a L Hb E. injection E as <-. pose proof (le_to_Z_range b Hb) as R. rewrite L, pow_256_8 in R.
    destruct (i64_of_u64_range _ R) as [R1 R2]. split; [exact R1|]. rewrite R2. now apply Z_to_le_le_to_Z. Qed.

Theorem c_bytes_ok n : codec_ok (c_bytes n).
Proof. apply ok_tuple, c_u8_ok. Qed.

(** ** the canonical scalar codec of the BLS12-381 field: proved, not assumed *)
Lemma pow_256_32 : 256 ^ Z.of_nat 32 = 2 ^ 256.  Proof. reflexivity. Qed.
Lemma q_bls_lt_2_256 : q_bls < 2 ^ 256.  Proof. vm_compute. reflexivity. Qed.

Theorem c_scalar_q_ok : codec_ok c_scalar_q.
Proof. apply ok_atom.
  - intros a _. split; [apply Z_to_le_length|]. pose proof (val_range q_bls q_bls_prime a) as R.
    pose proof q_bls_lt_2_256 as Q.
    rewrite le_roundtrip by (rewrite pow_256_32; lia).
    destruct (Z.ltb_spec (val a) q_bls); [|lia]. f_equal. apply (of_Z_val q_bls q_bls_prime).
  - intros b a L Hb. destruct (Z.ltb_spec (le_to_Z b) q_bls) as [Hlt|]; [|discriminate]. intros [= <-]. split; [exact I|].
    pose proof (le_to_Z_range b Hb) as R. cbn [val fq zq_of_Z]. rewrite Z.mod_small by lia. now apply Z_to_le_le_to_Z. Qed.

(** ** every wire type is a composition: its [codec_ok] follows from the laws of the three atom codecs *)
Section P.
Variable K : Fld.
Variable close_tag : K.
Variable c_scalar c_g1 c_g2 : codec K.
Variable lock_ok : K -> K -> Z -> bool.
Hypothesis Hs : codec_ok c_scalar.
Hypothesis H1 : codec_ok c_g1.
Hypothesis H2 : codec_ok c_g2.

Ltac ok := repeat first [ apply ok_pair | apply ok_validated | apply ok_tuple | apply ok_array; [|vm_compute; reflexivity]
                        | exact Hs | exact H1 | exact H2 | exact c_u8_ok | exact c_u64_ok | exact c_i64_ok | apply c_bytes_ok ].

Theorem c_balance_ok : codec_ok c_balance.  Proof. unfold c_balance. ok. Qed.
Theorem c_nonce_ok : codec_ok (c_nonce K close_tag c_scalar).  Proof. unfold c_nonce. ok. Qed.
Theorem c_sig_ok : codec_ok (c_sig K c_g1).  Proof. unfold c_sig. ok. Qed.
Theorem c_pedersen_ok cg n : codec_ok cg -> Z.of_nat n + 1 < 2 ^ 64 -> codec_ok (c_pedersen K cg n).
Proof. intros Hg Hn. unfold c_pedersen. apply ok_validated, ok_pair; [exact Hg|]. now apply ok_array. Qed.
Theorem c_pk_ok n : Z.of_nat n + 1 < 2 ^ 64 -> codec_ok (c_pk K c_g1 c_g2 n).
Proof. intros Hn. unfold c_pk. apply ok_validated. repeat apply ok_pair; try assumption; now apply ok_array. Qed.
Theorem c_sk_ok n : Z.of_nat n + 1 < 2 ^ 64 -> codec_ok (c_sk K c_scalar c_g1 n).
Proof. intros Hn. unfold c_sk. apply ok_validated. repeat apply ok_pair; try assumption; now apply ok_array. Qed.
Theorem c_keypair_ok n : Z.of_nat n + 1 < 2 ^ 64 -> codec_ok (c_keypair K c_scalar c_g1 c_g2 n).
Proof. intros Hn. unfold c_keypair. apply ok_pair; [now apply c_sk_ok | now apply c_pk_ok]. Qed.
Theorem c_cp_ok cg n : codec_ok cg -> Z.of_nat n + 1 < 2 ^ 64 -> codec_ok (c_cp K c_scalar cg n).
Proof. intros Hg Hn. unfold c_cp. repeat apply ok_pair; try assumption. now apply ok_array. Qed.
Theorem c_sp_ok n : Z.of_nat n + 1 < 2 ^ 64 -> codec_ok (c_sp K c_scalar c_g1 c_g2 n).
Proof. intros Hn. unfold c_sp. apply ok_pair; [apply c_sig_ok | now apply c_cp_ok]. Qed.
Theorem c_range_params_ok : codec_ok (c_range_params K c_g1 c_g2).
Proof. unfold c_range_params. apply ok_pair; [apply ok_tuple, c_sig_ok | apply c_pk_ok; vm_compute; reflexivity]. Qed.
Theorem c_range_constraint_ok : codec_ok (c_range_constraint K c_scalar c_g1 c_g2).
Proof. unfold c_range_constraint. apply ok_tuple, c_sp_ok. vm_compute; reflexivity. Qed.
Theorem c_customer_config_ok : codec_ok (c_customer_config K c_g1 c_g2).
Proof. unfold c_customer_config. apply ok_pair; [apply c_pk_ok; vm_compute; reflexivity|].
  apply ok_pair; [apply c_pedersen_ok; [exact H1|vm_compute; reflexivity] | apply c_range_params_ok]. Qed.
Theorem c_establish_proof_ok : codec_ok (c_establish_proof K c_scalar c_g1).
Proof. unfold c_establish_proof, c_srp. do 4 (apply ok_pair; [exact Hs|]).
  apply ok_pair; (apply c_cp_ok; [exact H1|vm_compute; reflexivity]). Qed.
Theorem c_pay_proof_ok : codec_ok (c_pay_proof K c_scalar c_g1 c_g2).
Proof. unfold c_pay_proof, c_srp.
  apply ok_pair; [exact Hs|]. apply ok_pair; [exact Hs|].
  apply ok_pair; [apply c_sp_ok; vm_compute; reflexivity|].
  apply ok_pair; [apply c_cp_ok; [exact H1|vm_compute; reflexivity]|].
  apply ok_pair; [apply c_cp_ok; [exact H1|vm_compute; reflexivity]|].
  apply ok_pair; [apply c_cp_ok; [exact H1|vm_compute; reflexivity]|].
  apply ok_pair; apply c_range_constraint_ok. Qed.
Theorem c_revpair_ok : codec_ok (c_revpair K c_scalar lock_ok).  Proof. unfold c_revpair. ok. Qed.
Theorem c_state_ok : codec_ok (c_state K close_tag c_scalar lock_ok).
Proof. unfold c_state. apply ok_pair; [apply c_bytes_ok|]. apply ok_pair; [apply c_nonce_ok|].
  apply ok_pair; [apply c_revpair_ok|]. apply ok_pair; apply c_balance_ok. Qed.
Theorem c_close_state_ok : codec_ok (c_close_state K c_scalar).
Proof. unfold c_close_state. apply ok_pair; [apply c_bytes_ok|]. apply ok_pair; [exact Hs|]. apply ok_pair; apply c_balance_ok. Qed.
Theorem c_closing_message_ok : codec_ok (c_closing_message K c_scalar c_g1).
Proof. unfold c_closing_message. apply ok_pair; [apply c_sig_ok | apply c_close_state_ok]. Qed.
Theorem c_requested_ok : codec_ok (c_requested K close_tag c_scalar lock_ok).
Proof. unfold c_requested, c_bf. apply ok_pair; [apply c_state_ok|]. apply ok_pair; exact Hs. Qed.
Theorem c_inactive_ok : codec_ok (c_inactive K close_tag c_scalar c_g1 lock_ok).
Proof. unfold c_inactive, c_bf. apply ok_pair; [apply c_state_ok|]. apply ok_pair; [exact Hs|apply c_sig_ok]. Qed.
Theorem c_ready_ok : codec_ok (c_ready K close_tag c_scalar c_g1 lock_ok).
Proof. unfold c_ready. apply ok_pair; [apply c_state_ok|]. apply ok_pair; apply c_sig_ok. Qed.
Theorem c_started_ok : codec_ok (c_started K close_tag c_scalar c_g1 lock_ok).
Proof. unfold c_started, c_bf. apply ok_pair; [apply c_state_ok|]. apply ok_pair; [apply c_state_ok|].
  apply ok_pair; [|apply c_sig_ok]. apply ok_pair; [exact Hs|]. apply ok_pair; exact Hs. Qed.

(** what "decoded values satisfy every type invariant" means, read off [wf]: e.g. a decoded balance is at most 2^63-1,
    a decoded nonce is not the close tag, a decoded signature has a non-identity first element *)
Theorem decoded_balance_in_range bs v rest : Forall is_byte bs -> res_of (dec c_balance bs) = Some (v, rest) -> 0 <= v <= i64_max.
Proof. intros Hb H. destruct (ok_canonical _ c_balance_ok bs v rest Hb H) as [[W1 W2] _]. simpl in W1. apply Z.leb_le in W2. lia. Qed.

Theorem decoded_nonce_not_close bs n rest (feqb_sound : forall a b : K, feqb a b = true <-> a = b) :
  Forall is_byte bs -> res_of (dec (c_nonce K close_tag c_scalar) bs) = Some (n, rest) -> n <> close_tag.
Proof. intros Hb H. destruct (ok_canonical _ c_nonce_ok bs n rest Hb H) as [[_ W] _]. unfold fneqb in W.
  apply negb_true_iff in W. intros ->. rewrite (proj2 (feqb_sound close_tag close_tag) eq_refl) in W. discriminate. Qed.

Theorem decoded_signature_well_formed bs s rest : Forall is_byte bs -> res_of (dec (c_sig K c_g1) bs) = Some (s, rest) ->
  fneqb (fst s) f0 = true.
Proof. intros Hb H. destruct (ok_canonical _ c_sig_ok bs s rest Hb H) as [[_ W] _]. exact W. Qed.


Theorem stage_codecs_ok :
  codec_ok (c_requested K close_tag c_scalar lock_ok) /\ codec_ok (c_inactive K close_tag c_scalar c_g1 lock_ok) /\
  codec_ok (c_ready K close_tag c_scalar c_g1 lock_ok) /\ codec_ok (c_started K close_tag c_scalar c_g1 lock_ok).
Proof. split; [apply c_requested_ok|]. split; [apply c_inactive_ok|]. split; [apply c_ready_ok|apply c_started_ok]. Qed.

End P.
