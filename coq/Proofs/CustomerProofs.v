From ZK Require Import Model.Field Model.Pedersen Model.PS Model.Abacus Model.Amount Model.Customer
  Proofs.FieldFacts Proofs.PSProofs Proofs.AmountProofs.
Local Open Scope fld_scope.

Section P.
Variable K : Fld.
Variable close_tag : K.
Add Field Kf10 : (Fth K).

Notation cstate := (cstate K).
Notation stage := (stage K).
Notation step := (step close_tag).
Notation sys_step := (sys_step close_tag).
Notation run := (run close_tag).
Notation cmsg := (cmsg close_tag).

(** ** bad replies are inert *)
Theorem refused_reply_inert (pk : pkey K) (st st' : stage) ev : step pk st ev = (st', ORefused) -> st' = st.
Proof. destruct st, ev; simpl; try (intros [= <-]; reflexivity);
  repeat match goal with |- context [if ?b then _ else _] => destruct b end;
  try (intros [= <-]; reflexivity); try discriminate.
  destruct (apply_payment (s_cb s) (s_mb s) amount) as [[? ?]|]; discriminate. Qed.

Theorem refused_payment_inert (pk : pkey K) (st st' : stage) ev e : step pk st ev = (st', OError e) -> st' = st.
Proof. destruct st, ev; simpl; try discriminate;
  repeat match goal with |- context [if ?b then _ else _] => destruct b end; try discriminate.
  destruct (apply_payment (s_cb s) (s_mb s) amount) as [[? ?]|]; [discriminate|]. intros [= <- _]. reflexivity. Qed.

(** a reply is accepted exactly when it unblinds to a valid signature on the expected message *)
Theorem complete_accepts_iff (pk : pkey K) s bfc bft r :
  (exists st', step pk (Requested s bfc bft) (EvComplete r) = (st', ONone)) <-> verify pk (cmsg s) (unblind bfc r) = true.
Proof. simpl. destruct (verify pk (cmsg s) (unblind bfc r)); split; eauto; try discriminate. intros [st' H]. discriminate. Qed.

Theorem lock_accepts_iff (pk : pkey K) new old bfr bft bfc ocs r :
  (exists st' l b, step pk (Started new old bfr bft bfc ocs) (EvLock r) = (st', OLockMsg l b)) <->
  verify pk (cmsg new) (unblind bfc r) = true.
Proof. simpl. destruct (verify pk (cmsg new) (unblind bfc r)); split; eauto; try discriminate. intros (st' & l & b & H). discriminate. Qed.

(** the revocation pair leaves the customer only in the step that accepts a valid closing signature on the successor *)
Theorem secret_released_only_on_valid (pk : pkey K) (st st' : stage) ev l b : step pk st ev = (st', OLockMsg l b) ->
  exists new old bfr bft bfc ocs r,
    st = Started new old bfr bft bfc ocs /\ ev = EvLock r /\ verify pk (cmsg new) (unblind bfc r) = true /\
    l = s_lock old /\ b = bfr /\ st' = Locked new bft (unblind bfc r).
Proof. destruct st, ev; simpl; try discriminate;
  repeat match goal with |- context [if ?b then _ else _] => destruct b eqn:? end; try discriminate.
  - destruct (apply_payment (s_cb s) (s_mb s) amount) as [[? ?]|]; discriminate.
  - intros [= <- <- <-]. repeat eexists; eauto. Qed.

(** ** the invariant *)
Definition main_state (st : stage) : cstate :=
  match st with
  | Requested s _ _ | Inactive s _ _ | Ready s _ _ | Locked s _ _ => s
  | Started _ old _ _ _ _ => old
  end.

Definition Inv (cid : K) (pk : pkey K) (y : sys K) : Prop :=
  let st := sy_stage y in let s := main_state st in
  s_cid s = cid /\ s_cb s = sy_cb y /\ s_mb s = sy_mb y /\ ~ In (s_lock s) (sy_disclosed y) /\
  (0 <= s_cb s <= i64_max)%Z /\ (0 <= s_mb s <= i64_max)%Z /\
  match closing_view st with Some (sig, s') => s' = s /\ verify pk (cmsg s') sig = true | None => True end /\
  match st with
  | Ready s tok _ => verify pk (smsg s) tok = true
  | Started new old _ _ _ _ => s_cid new = cid /\ ~ In (s_lock new) (sy_disclosed y) /\ s_lock new <> s_lock old /\
                               (0 <= s_cb new <= i64_max)%Z /\ (0 <= s_mb new <= i64_max)%Z
  | _ => True
  end.

(** what a step draws must be fresh - a new revocation lock has not been disclosed and differs from the current one -
    and a payment amount is an i64 (the type of [PaymentAmount]) *)
Definition event_fresh (y : sys K) (ev : event K) : Prop :=
  match ev with
  | EvStart a _ lock' _ _ _ => ~ In lock' (sy_disclosed y) /\ lock' <> s_lock (main_state (sy_stage y)) /\ is_i64 a
  | _ => True
  end.

Lemma inv_start cid (pk : pkey K) s tok cs cb mb dis a nonce' lock' bfr bft bfc :
  Inv cid pk (mkSys (Ready s tok cs) cb mb dis) -> ~ In lock' dis -> lock' <> s_lock s -> is_i64 a ->
  Inv cid pk (fst (sys_step pk (mkSys (Ready s tok cs) cb mb dis) (EvStart a nonce' lock' bfr bft bfc))).
Proof. unfold Inv, sys_step. cbn [sy_stage sy_cb sy_mb sy_disclosed main_state closing_view step].
  intros (Hcid & Hcb & Hmb & Hdis & Rc & Rm & [_ V] & Ht) F1 F2 Ha.
  destruct (apply_payment (s_cb s) (s_mb s) a) as [[cb' mb']|e] eqn:A.
  - destruct (apply_payment_ok_inv _ _ _ _ _ Rc Rm Ha A) as (-> & -> & R1 & R2 & _).
    cbn [fst sy_stage sy_cb sy_mb sy_disclosed main_state closing_view s_cid s_lock s_cb s_mb].
    repeat split; auto; try lia.
  - cbn [fst sy_stage sy_cb sy_mb sy_disclosed main_state closing_view]. repeat split; auto; try lia. Qed.

Theorem inv_step cid (pk : pkey K) (y : sys K) ev : Inv cid pk y -> event_fresh y ev -> Inv cid pk (fst (sys_step pk y ev)).
Proof. destruct y as [st cb mb dis]. intros Hi Hf.
  destruct st as [s bfc bft|s bft cs|s tok cs|new old bfr bft bfc ocs|s bft cs], ev;
    try (exact Hi);
    try (apply inv_start; [exact Hi | apply Hf | apply Hf | apply Hf]).
  - (* Requested / complete *)
    revert Hi. unfold Inv, sys_step. cbn [sy_stage sy_cb sy_mb sy_disclosed main_state closing_view step].
    intros (Hcid & Hcb & Hmb & Hdis & Rc & Rm & _ & _).
    destruct (verify pk (cmsg s) (unblind bfc reply)) eqn:V;
      cbn [fst sy_stage sy_cb sy_mb sy_disclosed main_state closing_view]; repeat split; auto; try lia.
  - (* Inactive / activate *)
    revert Hi. unfold Inv, sys_step. cbn [sy_stage sy_cb sy_mb sy_disclosed main_state closing_view step].
    intros (Hcid & Hcb & Hmb & Hdis & Rc & Rm & [_ V0] & _).
    destruct (verify pk (smsg s) (unblind bft reply)) eqn:V;
      cbn [fst sy_stage sy_cb sy_mb sy_disclosed main_state closing_view]; repeat split; auto; try lia.
  - (* Started / lock *)
    revert Hi. unfold Inv, sys_step. cbn [sy_stage sy_cb sy_mb sy_disclosed main_state closing_view step].
    intros (Hcid & Hcb & Hmb & Hdis & Rc & Rm & [_ V0] & (C & D & Ne & R1 & R2)).
    destruct (verify pk (cmsg new) (unblind bfc reply)) eqn:V;
      cbn [fst sy_stage sy_cb sy_mb sy_disclosed main_state closing_view]; repeat split; auto; try lia.
    intros [E|I]; [apply Ne; congruence|contradiction].
  - (* Locked / unlock *)
    revert Hi. unfold Inv, sys_step. cbn [sy_stage sy_cb sy_mb sy_disclosed main_state closing_view step].
    intros (Hcid & Hcb & Hmb & Hdis & Rc & Rm & [_ V0] & _).
    destruct (verify pk (smsg s) (unblind bft reply)) eqn:V;
      cbn [fst sy_stage sy_cb sy_mb sy_disclosed main_state closing_view]; repeat split; auto; try lia. Qed.

Fixpoint fresh_along (pk : pkey K) (y : sys K) (evs : list (event K)) : Prop :=
  match evs with
  | [] => True
  | ev :: evs => event_fresh y ev /\ fresh_along pk (fst (sys_step pk y ev)) evs
  end.

(** every reachable system state - through any number of honest steps and arbitrary (invalid, replayed, wrongly keyed,
    wrong-type) replies - satisfies the invariant *)
Theorem inv_reachable cid (pk : pkey K) evs : forall y, Inv cid pk y -> fresh_along pk y evs -> Inv cid pk (run pk y evs).
Proof. induction evs as [|ev evs IH]; intros y Hi Hf; cbn [run]; [exact Hi|]. destruct Hf as [F1 F2].
  apply IH; [now apply inv_step | exact F2]. Qed.

(** ... and from every such state except Requested the customer can close, the merchant's check accepts (closing randomiser
    non-zero), and the message carries the channel id, the ledger's balances for the stage and an undisclosed lock *)
Theorem close_accepted cid (pk : pkey K) (y : sys K) rho : Inv cid pk y -> rho <> f0 ->
  match close_of (sy_stage y) rho with
  | Some (sig, s) => check_close close_tag pk sig s = true /\ s_cid s = cid /\ s_cb s = sy_cb y /\ s_mb s = sy_mb y /\
                     ~ In (s_lock s) (sy_disclosed y)
  | None => exists s bfc bft, sy_stage y = Requested s bfc bft
  end.
Proof. intros (Hcid & Hcb & Hmb & Hdis & _ & _ & Hview & _) Hr. unfold check_close.
  destruct (sy_stage y) eqn:E; cbn in *; try (eexists _, _, _; reflexivity);
  destruct Hview as [_ V]; (split; [apply (randomize_nonzero_verifies K); assumption | auto]). Qed.

Theorem close_with_zero_randomiser_rejected (pk : pkey K) st s sig : close_of st f0 = Some (sig, s) ->
  check_close close_tag pk sig s = false.
Proof. unfold check_close. destruct st; cbn; try discriminate; intros [= <- <-]; apply (randomize_zero_rejected K). Qed.

(** the invariant holds when the channel is requested with the agreed balances *)
Theorem inv_init cid (pk : pkey K) s bfc bft : s_cid s = cid -> (0 <= s_cb s <= i64_max)%Z -> (0 <= s_mb s <= i64_max)%Z ->
  Inv cid pk (mkSys (Requested s bfc bft) (s_cb s) (s_mb s) []).
Proof. intros Hc R1 R2. unfold Inv. cbn [sy_stage sy_cb sy_mb sy_disclosed main_state closing_view In].
  repeat split; auto; try lia. Qed.

(** stored signatures of reachable states are well formed (their first element is not the identity): what the
    decoder's validation requires (C20) *)
Theorem reachable_signatures_well_formed cid (pk : pkey K) (y : sys K) : Inv cid pk y ->
  match closing_view (sy_stage y) with Some (sig, _) => fst sig <> f0 | None => True end /\
  match sy_stage y with Ready _ tok _ => fst tok <> f0 | _ => True end.
Proof. intros (_ & _ & _ & _ & _ & _ & Hv & Hs). split.
  - destruct (closing_view (sy_stage y)) as [[sig s']|]; [|exact I]. destruct Hv as [_ V].
    apply (verify_iff K) in V. apply V.
  - destruct (sy_stage y); try exact I. apply (verify_iff K) in Hs. apply Hs. Qed.


(** any number of refused replies, of any kind, leaves the customer exactly where it was - so the honest reply that follows is
    treated as if nothing had happened *)
Theorem refused_replies_do_not_matter (pk : pkey K) evs : forall (st : stage),
  Forall (fun ev => snd (step pk st ev) = ORefused) evs ->
  fold_left (fun s ev => fst (step pk s ev)) evs st = st.
Proof. induction evs as [|ev evs IH]; intros st HF; cbn [fold_left]; [reflexivity|].
  inversion HF as [|x l H1 H2]; subst.
  assert (E : fst (step pk st ev) = st).
  { destruct (step pk st ev) as [st' o] eqn:S. cbn [snd fst] in *. subst o. now apply (refused_reply_inert pk st st' ev). }
  rewrite E. now apply IH. Qed.

(** ** revocation: the state a close would use changes only in the step that discloses its lock, and disclosed locks stay
    disclosed - so every closing message made for a state that has since been superseded carries a disclosed lock (the
    merchant can refute it), while the current one never does ([close_accepted]) *)
Lemma step_keeps_or_discloses (pk : pkey K) (y : sys K) ev :
  let y' := fst (sys_step pk y ev) in
  (main_state (sy_stage y') = main_state (sy_stage y) /\ sy_disclosed y' = sy_disclosed y) \/
  (In (s_lock (main_state (sy_stage y))) (sy_disclosed y') /\ incl (sy_disclosed y) (sy_disclosed y')).
Proof. destruct y as [st cb mb dis]. unfold sys_step. cbn [sy_stage sy_disclosed].
  destruct st as [s bfc bft|s bft cs|s tok cs|new old bfr bft bfc ocs|s bft cs], ev; cbn [step];
    try (left; split; reflexivity);
    try (match goal with |- context [if ?b then _ else _] => destruct b end; left; split; reflexivity).
  - destruct (apply_payment (s_cb s) (s_mb s) amount) as [[? ?]|]; left; split; reflexivity.
  - destruct (verify pk (cmsg new) (unblind bfc reply)); [|left; split; reflexivity].
    right. cbn [fst sy_stage sy_disclosed main_state]. split; [left; reflexivity | intros x Hx; right; exact Hx]. Qed.

Theorem superseded_state_is_revoked (pk : pkey K) evs : forall (y : sys K),
  let y' := run pk y evs in
  incl (sy_disclosed y) (sy_disclosed y') /\
  (main_state (sy_stage y') = main_state (sy_stage y) \/ In (s_lock (main_state (sy_stage y))) (sy_disclosed y')).
Proof. induction evs as [|ev evs IH]; intros y; cbn [run].
  - split; [apply incl_refl | left; reflexivity].
  - destruct (IH (fst (sys_step pk y ev))) as [I1 I2].
    destruct (step_keeps_or_discloses pk y ev) as [[E1 E2]|[D1 D2]].
    + rewrite E1, E2 in *. split; assumption.
    + split; [eapply incl_tran; eassumption|]. right. apply I1. exact D1. Qed.

(** ** exact-value reuse (C14): every masked atom is an injective function of its own fresh draw *)
Theorem randomized_first_element_injective (s1 r r' : K) : s1 <> f0 -> s1 * r = s1 * r' -> r = r'.
Proof. intros Hs E. now apply (fmul_cancel_l K s1). Qed.

Theorem randomize_collision_unique (sig : sigt K) (r : K) (v : K) : fst sig <> f0 ->
  fst (randomize r sig) = v -> r = v / fst sig.
Proof. intros Hs E. simpl in E. rewrite <- E. field. exact Hs. Qed.

Theorem commitment_injective_in_blinding_factor (h : K) gs ms bf bf' : h <> f0 ->
  commit h gs ms bf = commit h gs ms bf' -> bf = bf'.
Proof. intros Hh E. unfold commit in E. apply (fmul_cancel_l K h); [exact Hh|].
  transitivity (h * bf + ip gs ms - ip gs ms); [ring|]. rewrite E. ring. Qed.

Theorem response_injective_in_commitment_scalar (c m k k' : K) : c * m + k = c * m + k' -> k = k'.
Proof. intros E. transitivity (c * m + k - c * m); [ring|]. rewrite E. ring. Qed.

Theorem response_hides_message_for_one_scalar (c m m' k : K) : exists k', c * m + k = c * m' + k'.
Proof. exists (c * m + k - c * m'). ring. Qed.

Theorem blind_signature_injective_in_randomiser (sk : skey K) (pk : pkey K) u u' c : pk_g1 pk <> f0 ->
  fst (blind_sign sk pk u c) = fst (blind_sign sk pk u' c) -> u = u'.
Proof. intros Hg E. simpl in E. now apply (fmul_cancel_l K (pk_g1 pk)). Qed.

Theorem reachable_balances_in_range cid (pk : pkey K) evs (y : sys K) : Inv cid pk y -> fresh_along pk y evs ->
  (0 <= sy_cb (run pk y evs) <= i64_max)%Z /\ (0 <= sy_mb (run pk y evs) <= i64_max)%Z.
Proof. intros Hi Hf. destruct (inv_reachable cid pk evs y Hi Hf) as (_ & E1 & E2 & _ & R1 & R2 & _).
  rewrite <- E1, <- E2. auto. Qed.

Theorem equal_states_continue_identically (pk : pkey K) (st st' : stage) ev rho :
  st = st' -> step pk st ev = step pk st' ev /\ close_of st rho = close_of st' rho.
Proof. intros; subst; auto. Qed.

Theorem unrandomised_signature_is_reused (sig : sigt K) : randomize f1 sig = sig.
Proof. destruct sig as [a b]. unfold randomize; simpl. f_equal; ring. Qed.

(** ** honest replies are accepted (C04) *)
Section Honest.
Variables (sk : skey K) (pk : pkey K).
Hypothesis Hk : key_ok K sk pk.
Hypothesis Hg : pk_g1 pk <> f0.

Theorem honest_closing_reply_accepted s bfc bft u : u <> f0 ->
  step pk (Requested s bfc bft) (EvComplete (blind_sign sk pk u (blind pk (cmsg s) bfc)))
  = (Inactive s bft (unblind bfc (blind_sign sk pk u (blind pk (cmsg s) bfc))), ONone).
Proof. intros Hu. cbn [step]. now rewrite (blind_sign_unblind K sk pk u bfc (cmsg s) Hk Hg Hu). Qed.

Theorem honest_token_reply_accepted s bft cs u : u <> f0 ->
  step pk (Inactive s bft cs) (EvActivate (blind_sign sk pk u (blind pk (smsg s) bft)))
  = (Ready s (unblind bft (blind_sign sk pk u (blind pk (smsg s) bft))) cs, ONone).
Proof. intros Hu. cbn [step]. now rewrite (blind_sign_unblind K sk pk u bft (smsg s) Hk Hg Hu). Qed.

Theorem honest_lock_reply_accepted new old bfr bft bfc ocs u : u <> f0 ->
  step pk (Started new old bfr bft bfc ocs) (EvLock (blind_sign sk pk u (blind pk (cmsg new) bfc)))
  = (Locked new bft (unblind bfc (blind_sign sk pk u (blind pk (cmsg new) bfc))), OLockMsg (s_lock old) bfr).
Proof. intros Hu. cbn [step]. now rewrite (blind_sign_unblind K sk pk u bfc (cmsg new) Hk Hg Hu). Qed.

Theorem honest_unlock_reply_accepted s bft cs u : u <> f0 ->
  step pk (Locked s bft cs) (EvUnlock (blind_sign sk pk u (blind pk (smsg s) bft)))
  = (Ready s (unblind bft (blind_sign sk pk u (blind pk (smsg s) bft))) cs, ONone).
Proof. intros Hu. cbn [step]. now rewrite (blind_sign_unblind K sk pk u bft (smsg s) Hk Hg Hu). Qed.

(** one full honest payment: start, honest closing signature, lock, honest pay token, unlock *)
Definition honest_payment (st : stage) (a : Z) (nonce' lock' bfr bft bfc u1 u2 : K) : stage * output K :=
  match step pk st (EvStart a nonce' lock' bfr bft bfc) with
  | (Started new old r t c ocs as st1, OStart _) =>
      let (st2, _) := step pk st1 (EvLock (blind_sign sk pk u1 (blind pk (cmsg new) c))) in
      match st2 with
      | Locked s t' cs => step pk st2 (EvUnlock (blind_sign sk pk u2 (blind pk (smsg s) t')))
      | _ => (st2, ORefused)
      end
  | r => r
  end.

Theorem honest_payment_tracks_ledger s tok cs a nonce' lock' bfr bft bfc u1 u2 :
  (0 <= s_cb s <= i64_max)%Z -> (0 <= s_mb s <= i64_max)%Z -> is_i64 a -> u1 <> f0 -> u2 <> f0 ->
  ((0 <= s_cb s - a <= i64_max)%Z /\ (0 <= s_mb s + a <= i64_max)%Z ->
     exists tok' cs', honest_payment (Ready s tok cs) a nonce' lock' bfr bft bfc u1 u2
                      = (Ready (mkCS (s_cid s) nonce' lock' (s_cb s - a) (s_mb s + a)) tok' cs', ONone)) /\
  (~ ((0 <= s_cb s - a <= i64_max)%Z /\ (0 <= s_mb s + a <= i64_max)%Z) ->
     exists e, honest_payment (Ready s tok cs) a nonce' lock' bfr bft bfc u1 u2 = (Ready s tok cs, OError e)).
Proof. intros Rc Rm Ha Hu1 Hu2. destruct (apply_payment_spec (s_cb s) (s_mb s) a Rc Rm Ha) as (S1 & _ & S3 & S4 & S5 & S6).
  unfold honest_payment. cbn [step]. split.
  - intros Hr. rewrite (S1 Hr). rewrite honest_lock_reply_accepted by assumption.
    rewrite honest_unlock_reply_accepted by assumption. eauto.
  - intros Hn. assert (C : (s_cb s - a < 0 \/ s_cb s - a > i64_max \/ (0 <= s_cb s - a <= i64_max /\ s_mb s + a < 0) \/
                            (0 <= s_cb s - a <= i64_max /\ s_mb s + a > i64_max))%Z) by lia.
    destruct C as [C|[C|[[C1 C2]|[C1 C2]]]].
    + rewrite (S3 C). eauto. + rewrite (S4 C). eauto. + rewrite (S5 C1 C2). eauto. + rewrite (S6 C1 C2). eauto. Qed.
End Honest.

End P.
