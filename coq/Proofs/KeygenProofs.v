From ZK Require Import Model.Field Model.Pedersen Model.PS Model.Range Model.Keygen
  Proofs.FieldFacts Proofs.PSProofs Proofs.RangeProofs.
Local Open Scope fld_scope.

Section P.
Variable K : Fld.
Add Field Kf9 : (Fth K).

Lemma next_nonzero_spec (draws : list K) x rest : next_nonzero draws = Some (x, rest) ->
  x <> f0 /\ exists pre, draws = pre ++ x :: rest /\ Forall (fun y => y = f0) pre.
Proof. revert x rest; induction draws as [|y draws IH]; intros x rest; simpl; [discriminate|].
  destruct (fneqb y f0) eqn:E.
  - intros [= <- <-]. split; [now apply (fneqb_true K)|]. exists []. auto.
  - intros H. destruct (IH _ _ H) as [Hx (pre & -> & Hp)]. split; [exact Hx|].
    exists (y :: pre). split; [reflexivity|]. constructor; [now apply (fneqb_false K)|exact Hp]. Qed.

Lemma next_nonzero_some (draws : list K) : (exists y, In y draws /\ y <> f0) -> exists r, next_nonzero draws = Some r.
Proof. induction draws as [|y draws IH]; intros (z & Hz & Hne); simpl in *; [contradiction|].
  destruct (fneqb y f0) eqn:E; [eauto|]. apply (fneqb_false K) in E. destruct Hz as [->|Hz]; [contradiction|].
  apply IH. eauto. Qed.

Lemma take_nonzero_spec n (draws : list K) xs rest : take_nonzero n draws = Some (xs, rest) ->
  length xs = n /\ Forall (fun x => x <> f0) xs.
Proof. revert draws xs rest; induction n as [|n IH]; intros draws xs rest; simpl.
  - intros [= <- <-]. auto.
  - destruct (next_nonzero draws) as [[x r]|] eqn:E; [|discriminate].
    destruct (take_nonzero n r) as [[xs' r']|] eqn:E2; [|discriminate].
    intros [= <- <-]. destruct (IH _ _ _ E2) as [L F]. apply next_nonzero_spec in E. destruct E as [Hx _].
    split; [simpl; congruence | constructor; assumption]. Qed.

Lemma forallb_fneqb (l : list K) : Forall (fun x => x <> f0) l -> forallb (fun x => fneqb x f0) l = true.
Proof. induction 1; simpl; [reflexivity|]. apply andb_true_iff. split; [now apply (fneqb_true K)|assumption]. Qed.

Lemma Forall_map_mul (g : K) (l : list K) : g <> f0 -> Forall (fun x => x <> f0) l ->
  Forall (fun x => x <> f0) (map (fun y => g * y) l).
Proof. intros Hg. induction 1; simpl; constructor; auto. now apply (fmul_neq0 K). Qed.

(** for every triple of streams in which enough non-zero draws occur: the key is well formed *)
Theorem keygen_wf n (g1s scalars g2s : list K) sk pk : keygen_stream n g1s scalars g2s = Some (sk, pk) ->
  length (sk_ys sk) = n /\ sk_wf sk = true /\ pk_wf pk = true /\ key_ok K sk pk /\ pk_g1 pk <> f0 /\
  (forall h ms, h <> f0 -> verify pk ms (sign sk h ms) = true).
Proof. unfold keygen_stream.
  destruct (next_nonzero g1s) as [[g1 r1]|] eqn:E1; [|discriminate].
  destruct (take_nonzero (S n) scalars) as [[xs r2]|] eqn:E2; [|discriminate].
  destruct xs as [|x ys]; [discriminate|].
  destruct (next_nonzero g2s) as [[g2 r3]|] eqn:E3; [|discriminate].
  intros [= <- <-]. apply next_nonzero_spec in E1, E3. destruct E1 as [Hg1 _], E3 as [Hg2 _].
  apply take_nonzero_spec in E2. destruct E2 as [L F]. inversion F as [|? ? Hx Hys]; subst.
  assert (Hk : key_ok K (fst (keygen g1 x ys g2)) (snd (keygen g1 x ys g2))) by (apply keygen_ok; assumption).
  simpl in *. split; [congruence|]. split; [|split; [|split; [exact Hk|split; [exact Hg1|]]]].
  - unfold sk_wf; simpl. rewrite !andb_true_iff. repeat split.
    + now apply (fneqb_true K). + apply (fneqb_true K). now apply (fmul_neq0 K). + now apply forallb_fneqb.
  - unfold pk_wf; simpl. rewrite !andb_true_iff. repeat split; try (now apply (fneqb_true K)).
    + apply (fneqb_true K). now apply (fmul_neq0 K).
    + apply forallb_fneqb. now apply Forall_map_mul.
    + apply forallb_fneqb. now apply Forall_map_mul.
  - intros h ms Hh. now apply (sign_verifies K _ _ h ms Hk). Qed.

Theorem keygen_terminates n (g1s scalars g2s : list K) :
  (exists y, In y g1s /\ y <> f0) -> (exists y, In y g2s /\ y <> f0) ->
  (exists r, take_nonzero (S n) scalars = Some r) ->
  exists kp, keygen_stream n g1s scalars g2s = Some kp.
Proof. intros H1 H2 [[xs r] H3]. unfold keygen_stream.
  destruct (next_nonzero_some _ H1) as [[g1 r1] ->]. destruct (next_nonzero_some _ H2) as [[g2 r2] ->]. rewrite H3.
  destruct (take_nonzero_spec _ _ _ _ H3) as [L _]. destruct xs; [discriminate|]. eauto. Qed.

Theorem pedersen_new_wf n (gdraws : list K) h gs : pedersen_new_stream n gdraws = Some (h, gs) ->
  length gs = n /\ params_wf h gs = true.
Proof. unfold pedersen_new_stream. destruct (take_nonzero (S n) gdraws) as [[xs r]|] eqn:E; [|discriminate].
  destruct xs as [|x xs]; [discriminate|]. intros [= <- <-]. apply take_nonzero_spec in E. destruct E as [L F].
  inversion F; subst. split; [simpl in L; congruence|]. unfold params_wf. apply andb_true_iff.
  split; [now apply (fneqb_true K) | now apply forallb_fneqb]. Qed.

Lemma sign_digits_valid (sk : skey K) (pk : pkey K) i hs : key_ok K sk pk -> Forall (fun h => h <> f0) hs ->
  validate_go pk i (sign_digits sk i hs) = true.
Proof. intros Hk F. revert i. induction F as [|h hs Hh _ IH]; intros i; simpl; [reflexivity|].
  apply andb_true_iff. split; [now apply (sign_verifies K sk pk)|apply IH]. Qed.

Theorem range_params_new_valid (sk : skey K) (pk : pkey K) hs : key_ok K sk pk -> Forall (fun h => h <> f0) hs ->
  validate (range_params_new sk pk hs) = true /\ length (rp_sigs (range_params_new sk pk hs)) = length hs.
Proof. intros Hk F. split; [now apply sign_digits_valid|]. simpl. generalize 0%Z.
  induction hs as [|h hs IH]; intros z; simpl; [reflexivity|]. inversion F; subst. now rewrite IH. Qed.

End P.
