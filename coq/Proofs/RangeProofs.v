From ZK Require Import Model.Field Model.Pedersen Model.PS Model.Schnorr Model.Range
  Proofs.FieldFacts Proofs.PedersenProofs Proofs.PSProofs Proofs.SchnorrProofs.
Local Open Scope fld_scope.

(** ** digit arithmetic over the integers *)
Lemma digits_go_length l v : length (digits_go l v) = l.
Proof. revert v; induction l as [|l IH]; intros v; simpl; auto. Qed.

Lemma digits_go_spec l v : (0 <= v < 128 ^ Z.of_nat l)%Z -> zweighted (digits_go l v) = v.
Proof. revert v; induction l as [|l IH]; intros v Hv.
  - simpl in *. lia.
  - rewrite Nat2Z.inj_succ, Z.pow_succ_r in Hv by lia. cbn [digits_go zweighted].
    rewrite IH.
    + pose proof (Z.div_mod v 128 ltac:(lia)). lia.
    + split; [apply Z.div_pos; lia | apply Z.div_lt_upper_bound; lia]. Qed.

Lemma digits_go_range l v : (0 <= v)%Z -> Forall (fun d => (0 <= d < 128)%Z) (digits_go l v).
Proof. revert v; induction l as [|l IH]; intros v Hv; simpl; constructor.
  - apply Z.mod_pos_bound; lia.
  - apply IH. apply Z.div_pos; lia. Qed.

Lemma zweighted_bound ds : Forall (fun d => (0 <= d < 128)%Z) ds ->
  (0 <= zweighted ds < 128 ^ Z.of_nat (length ds))%Z.
Proof. induction 1 as [|d ds Hd _ IH]; [simpl; lia|].
  cbn [zweighted length]. rewrite Nat2Z.inj_succ, Z.pow_succ_r by lia. lia. Qed.

Theorem digits_spec v : (0 <= v < 2 ^ 63)%Z ->
  zweighted (digits v) = v /\ Forall (fun d => (0 <= d < 128)%Z) (digits v) /\ length (digits v) = 9%nat.
Proof. intros Hv. unfold digits. split; [|split].
  - apply digits_go_spec. change (128 ^ Z.of_nat 9)%Z with (2 ^ 63)%Z. exact Hv.
  - apply digits_go_range. lia.
  - apply digits_go_length. Qed.

(** the largest value any nine digits in [0,128) can represent is 2^63 - 1: no wrap modulo q *)
Theorem digit_sum_bound ds : length ds = 9%nat -> Forall (fun d => (0 <= d < 128)%Z) ds ->
  (0 <= zweighted ds <= 2 ^ 63 - 1)%Z.
Proof. intros Hl Hd. pose proof (zweighted_bound ds Hd) as B. rewrite Hl in B.
  change (128 ^ Z.of_nat 9)%Z with (2 ^ 63)%Z in B. lia. Qed.

Section P.
Variable K : Fld.
Add Field Kf4 : (Fth K).

Fixpoint horner (xs : list K) : K :=
  match xs with [] => f0 | x :: xs => x + of_Z 128 * horner xs end.

Lemma weighted_go_spec (upow acc : K) xs : weighted_go upow acc xs = acc + upow * horner xs.
Proof. revert upow acc; induction xs as [|x xs IH]; intros upow acc; simpl; [ring|]. rewrite IH. ring. Qed.

Lemma weighted_horner (xs : list K) : weighted xs = horner xs.
Proof. unfold weighted. rewrite weighted_go_spec. ring. Qed.

Lemma horner_of_Z ds : horner (map of_Z ds) = of_Z (zweighted ds).
Proof. induction ds as [|d ds IH]; [reflexivity|]. cbn [horner map zweighted].
  rewrite (of_Z_add K), (of_Z_mul K), IH. reflexivity. Qed.

Lemma horner_linear (c : K) ms ks : length ms = length ks ->
  horner (map2 (fun m k => c * m + k) ms ks) = c * horner ms + horner ks.
Proof. revert ks; induction ms as [|m ms IH]; intros [|k ks] Hl; simpl in *; try discriminate; [ring|].
  rewrite IH by congruence. ring. Qed.

Lemma horner_ext (d : K) rs rs' : d <> f0 -> length rs = length rs' ->
  horner (map2 (ext K d) rs rs') = (horner rs - horner rs') / d.
Proof. intros Hd. revert rs'; induction rs as [|r rs IH]; intros [|r' rs'] Hl; simpl in *; try discriminate.
  - field; assumption.
  - rewrite IH by congruence. unfold ext. field; assumption. Qed.

(** ** parameter validation *)
Lemma validate_go_nth (pk : pkey K) i sigs j : validate_go pk i sigs = true -> (j < length sigs)%nat ->
  verify pk [of_Z (i + Z.of_nat j)] (nth j sigs (f0, f0)) = true.
Proof. revert i j; induction sigs as [|s sigs IH]; intros i j Hv Hj; simpl in *; [lia|].
  apply andb_true_iff in Hv. destruct Hv as [H1 H2]. destruct j as [|j].
  - replace (i + Z.of_nat 0)%Z with i by lia. exact H1.
  - replace (i + Z.of_nat (S j))%Z with ((i + 1) + Z.of_nat j)%Z by lia. apply IH; [assumption|lia]. Qed.

Lemma validate_go_intro (pk : pkey K) i sigs :
  (forall j, (j < length sigs)%nat -> verify pk [of_Z (i + Z.of_nat j)] (nth j sigs (f0, f0)) = true) ->
  validate_go pk i sigs = true.
Proof. revert i; induction sigs as [|s sigs IH]; intros i H; simpl; [reflexivity|].
  apply andb_true_iff. split.
  - specialize (H 0%nat ltac:(simpl; lia)). simpl in H. now replace (i + 0)%Z with i in H by lia.
  - apply IH. intros j Hj. specialize (H (S j) ltac:(simpl; lia)). simpl nth in H.
    now replace (i + Z.of_nat (S j))%Z with (i + 1 + Z.of_nat j)%Z in H by lia. Qed.

Theorem validate_iff (rp : rparams K) :
  validate rp = true <->
  forall j, (j < length (rp_sigs rp))%nat ->
            verify (rp_pk rp) [of_Z (Z.of_nat j)] (nth j (rp_sigs rp) (f0, f0)) = true.
Proof. unfold validate. split.
  - intros H j Hj. exact (validate_go_nth _ 0%Z _ j H Hj).
  - intros H. apply validate_go_intro. exact H. Qed.

(** ** prover: refuses negatives, accepts [0, 2^63) *)
Theorem prover_refuses_negative (rp : rparams K) v ds c : (v < 0)%Z -> range_prove rp v ds c = None.
Proof. intros Hv. unfold range_prove. destruct (Z.ltb_spec v 0); [reflexivity|lia]. Qed.

Theorem prover_accepts_nonnegative (rp : rparams K) v ds c : (0 <= v)%Z -> exists ps, range_prove rp v ds c = Some ps.
Proof. intros Hv. unfold range_prove. destruct (Z.ltb_spec v 0); [lia|]. eexists; reflexivity. Qed.

(** ** completeness *)
Definition digit_proof (rp : rparams K) (c : K) (d : Z) (rd : rdraw K) : sproof K :=
  sig_prove (rp_pk rp) [of_Z d] (nth (Z.to_nat d) (rp_sigs rp) (f0, f0))
            (rd_bf rd) (rd_kbf rd) [rd_k rd] (rd_r rd) c.

Lemma digit_proofs_verify (rp : rparams K) c dz ds :
  validate rp = true -> length (rp_sigs rp) = 128%nat ->
  Forall (fun d => (0 <= d < 128)%Z) dz -> Forall (fun rd => rd_r rd <> f0) ds -> length dz = length ds ->
  forallb (fun p => sig_verify (rp_pk rp) p c) (map2 (digit_proof rp c) dz ds) = true.
Proof. intros Hval Hlen Hd. revert ds. induction Hd as [|d dz Hd0 _ IH]; intros [|rd ds] Hr Hl; simpl in *;
  try discriminate; [reflexivity|].
  inversion Hr as [|? ? Hr1 Hr2]; subst. apply andb_true_iff. split; [|apply IH; [assumption|congruence]].
  unfold digit_proof. rewrite sig_complete.
  { now apply (fneqb_true K). }
  { reflexivity. }
  pose proof (proj1 (validate_iff rp) Hval (Z.to_nat d) ltac:(lia)) as V.
  rewrite Z2Nat.id in V by lia. exact V. Qed.

Lemma digit_proofs_responses (rp : rparams K) c dz ds : length dz = length ds ->
  map (fun p => nth 0 (cp_rs (sp_cp p)) f0) (map2 (digit_proof rp c) dz ds)
  = map2 (fun m k => c * m + k) (map of_Z dz) (map rd_k ds).
Proof. revert ds; induction dz as [|d dz IH]; intros [|rd ds] Hl; simpl in *; try discriminate; [reflexivity|].
  rewrite IH by congruence. reflexivity. Qed.

Theorem range_complete (rp : rparams K) v ds c :
  validate rp = true -> length (rp_sigs rp) = 128%nat -> (0 <= v < 2 ^ 63)%Z ->
  length ds = 9%nat -> Forall (fun rd => rd_r rd <> f0) ds ->
  exists ps, range_prove rp v ds c = Some ps /\
             range_verify rp ps c (c * of_Z v + range_commitment_scalar ds) = true.
Proof. intros Hval Hlen Hv Hl Hr. destruct (digits_spec v Hv) as (Hsum & Hrange & Hdl).
  unfold range_prove. destruct (Z.ltb_spec v 0); [lia|]. eexists; split; [reflexivity|].
  unfold range_verify. apply andb_true_iff. split.
  - apply (digit_proofs_verify rp c (digits v) ds); auto; congruence.
  - apply (feqb_ok K). fold (digit_proof rp c).
    rewrite (digit_proofs_responses rp c (digits v) ds) by congruence.
    rewrite weighted_horner, horner_linear by (rewrite !map_length; congruence).
    rewrite horner_of_Z, Hsum. unfold range_commitment_scalar. rewrite weighted_horner. reflexivity. Qed.

(** the honest constraint's commitment scalar, used for the linked slot, makes that slot's response equal
    to the expected value *)
Theorem range_link (h : K) gs ms bf kbf ks c j v ds : length ms = length ks -> (j < length ms)%nat ->
  nth j ms f0 = of_Z v -> nth j ks f0 = range_commitment_scalar ds ->
  nth j (cp_rs (cp_prove h gs ms bf kbf ks c)) f0 = c * of_Z v + range_commitment_scalar ds.
Proof. intros Hl Hj Hm Hk. rewrite (response_scalar_spec K) by assumption. rewrite Hm, Hk. reflexivity. Qed.

(** ** the exact relation accepted by the verifier *)
Theorem range_verify_iff (rp : rparams K) ps c e :
  range_verify rp ps c e = true <->
  Forall (fun p => sig_verify (rp_pk rp) p c = true) ps /\
  horner (map (fun p => nth 0 (cp_rs (sp_cp p)) f0) ps) = e.
Proof. unfold range_verify. rewrite andb_true_iff, forallb_forall, Forall_forall, (feqb_ok K), weighted_horner.
  reflexivity. Qed.

Theorem range_wrong_link_rejected (rp : rparams K) ps c e e' : e' <> e ->
  range_verify rp ps c e = true -> range_verify rp ps c e' = false.
Proof. intros Hne H. apply range_verify_iff in H. destruct H as [_ H].
  destruct (range_verify rp ps c e') eqn:E; [|reflexivity].
  apply range_verify_iff in E. destruct E as [_ E]. congruence. Qed.


(** ** special soundness of a range constraint: two accepting transcripts with the same first messages
    yield, for every digit position, a message with a VALID SIGNATURE under the range key, and the
    weighted sum of those messages is the value extracted from the linked response scalar *)
Definition r0 (p : sproof K) : K := nth 0 (cp_rs (sp_cp p)) f0.
Definition same_first (p p' : sproof K) : Prop :=
  sp_sig p = sp_sig p' /\ cp_C (sp_cp p) = cp_C (sp_cp p') /\ cp_T (sp_cp p) = cp_T (sp_cp p') /\
  length (cp_rs (sp_cp p)) = 1%nat /\ length (cp_rs (sp_cp p')) = 1%nat.
Definition xdigit (d : K) (p p' : sproof K) : K := ext K d (r0 p) (r0 p').

Lemma digit_extract (pk : pkey K) p p' c c' : c - c' <> f0 -> length (pk_y2s pk) = 1%nat -> same_first p p' ->
  sig_verify pk p c = true -> sig_verify pk p' c' = true ->
  verify pk [xdigit (c - c') p p'] (unblind (ext K (c - c') (cp_rbf (sp_cp p)) (cp_rbf (sp_cp p'))) (sp_sig p)) = true.
Proof. intros Hc Hy (Hs & HC & HT & L1 & L2) V1 V2.
  destruct p as [s [C T rbf rs]], p' as [s' [C' T' rbf' rs']]; simpl in *. subst s' C' T'.
  destruct rs as [|x [|? ?]]; try discriminate. destruct rs' as [|x' [|? ?]]; try discriminate.
  destruct (sig_special_soundness K pk s C T rbf [x] rbf' [x'] c c' Hc) as [_ V]; auto; congruence. Qed.

Lemma map2_xdigit d ps ps' : map2 (xdigit d) ps ps' = map2 (ext K d) (map r0 ps) (map r0 ps').
Proof. revert ps'; induction ps as [|p ps IH]; intros [|p' ps']; simpl; auto. now rewrite IH. Qed.

Lemma Forall2_len {A B} (R : A -> B -> Prop) l l' : Forall2 R l l' -> length l = length l'.
Proof. induction 1; simpl; congruence. Qed.

Theorem range_special_soundness (rp : rparams K) ps ps' c c' e e' :
  c - c' <> f0 -> length (pk_y2s (rp_pk rp)) = 1%nat -> Forall2 same_first ps ps' ->
  range_verify rp ps c e = true -> range_verify rp ps' c' e' = true ->
  Forall2 (fun p p' => exists bf, verify (rp_pk rp) [xdigit (c - c') p p'] (unblind bf (sp_sig p)) = true) ps ps'
  /\ horner (map2 (xdigit (c - c')) ps ps') = (e - e') / (c - c').
Proof. intros Hc Hy HF V1 V2. apply range_verify_iff in V1, V2. destruct V1 as [F1 E1], V2 as [F2 E2]. split.
  - clear E1 E2. induction HF as [|p p' ps ps' Hp _ IH]; constructor.
    + inversion F1; inversion F2; subst. eexists. apply (digit_extract (rp_pk rp) p p' c c'); auto.
    + inversion F1; inversion F2; subst. apply IH; assumption.
  - rewrite map2_xdigit, horner_ext; [| exact Hc | rewrite !map_length; eapply Forall2_len; eauto].
    fold r0 in E1, E2. change (fun p : sproof K => nth 0 (cp_rs (sp_cp p)) f0) with r0 in E1, E2.
    rewrite E1, E2. reflexivity. Qed.

End P.
