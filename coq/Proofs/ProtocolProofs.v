From ZK Require Import Model.Field Model.Pedersen Model.PS Model.Schnorr Model.Range Model.Abacus Model.Amount
  Model.Customer Model.Merchant Model.Keygen Model.Protocol Proofs.KeygenProofs
  Proofs.FieldFacts Proofs.PSProofs Proofs.SchnorrProofs Proofs.RangeProofs Proofs.EstablishProofs Proofs.PayProofs
  Proofs.AmountProofs Proofs.MerchantProofs Proofs.CustomerProofs.
Local Open Scope fld_scope.

Section P.
Variable K : Fld.
Variable close_tag : K.
Variable chal : list (atom K) -> K.
Add Field Kf11 : (Fth K).

Notation step := (step close_tag).
Notation cmsg := (cmsg close_tag).
Notation pay_prove := (pay_prove close_tag chal).
Notation full_establish := (full_establish close_tag chal).
Notation full_payment := (full_payment close_tag chal).
Notation full_run := (full_run close_tag chal).

(** ** the hashed first message of a pay proof does not depend on the challenge the responses are made for *)
Lemma digit_chunks_indep (rp : rparams K) c c' ds : forall dz,
  range_chunks (map2 (fun d rd => sig_prove (rp_pk rp) [of_Z d] (nth (Z.to_nat d) (rp_sigs rp) (f0, f0))
                                    (rd_bf rd) (rd_kbf rd) [rd_k rd] (rd_r rd) c) dz ds)
  = range_chunks (map2 (fun d rd => sig_prove (rp_pk rp) [of_Z d] (nth (Z.to_nat d) (rp_sigs rp) (f0, f0))
                                    (rd_bf rd) (rd_kbf rd) [rd_k rd] (rd_r rd) c') dz ds).
Proof. induction ds as [|rd ds IH]; intros [|d dz]; try reflexivity.
  unfold range_chunks in *. cbn [map2 flat_map]. rewrite IH. reflexivity. Qed.

Lemma range_chunks_indep (rp : rparams K) v ds c c' ps ps' :
  range_prove rp v ds c = Some ps -> range_prove rp v ds c' = Some ps' -> range_chunks ps = range_chunks ps'.
Proof. unfold range_prove. destruct (v <? 0)%Z; [discriminate|]. intros H1 H2.
  assert (A : forall (x y : list (sproof K)), Some x = Some y -> x = y) by (intros x y E; now injection E).
  apply A in H1, H2. rewrite <- H1, <- H2. apply digit_chunks_indep. Qed.

Lemma pay_transcript_indep (pk : pkey K) rp hr gr tok old cbz mbz new d c c' p p' nonce ctx :
  pay_prove_with close_tag pk rp hr gr tok old cbz mbz new d c = Some p ->
  pay_prove_with close_tag pk rp hr gr tok old cbz mbz new d c' = Some p' ->
  pay_transcript close_tag pk rp nonce p ctx = pay_transcript close_tag pk rp nonce p' ctx.
Proof. unfold pay_prove_with.
  destruct (range_prove rp cbz (d_dsc d) c) as [prc|] eqn:E1; [|discriminate].
  destruct (range_prove rp mbz (d_dsm d) c) as [prm|] eqn:E2; [|discriminate].
  destruct (range_prove rp cbz (d_dsc d) c') as [prc'|] eqn:E3; [|discriminate].
  destruct (range_prove rp mbz (d_dsm d) c') as [prm'|] eqn:E4; [|discriminate].
  intros [= <-] [= <-]. unfold pay_transcript; cbn [p_rev p_sp p_csp p_tok p_crange p_mrange p_knonce p_kclose].
  rewrite (range_chunks_indep rp cbz (d_dsc d) c c' prc prc' E1 E3),
          (range_chunks_indep rp mbz (d_dsm d) c c' prm prm' E2 E4). reflexivity. Qed.

(** ** completeness of the pay proof under Fiat-Shamir, for every hash function *)
Theorem pay_fiat_shamir_complete (pk : pkey K) rp hr gr (tok : sigt K) cid nonce lock ocb omb nn lock' cbz mbz eps d ctx :
  verify pk [cid; nonce; lock; ocb; omb] tok = true ->
  validate rp = true -> length (rp_sigs rp) = 128%nat ->
  (0 <= cbz < 2 ^ 63)%Z -> (0 <= mbz < 2 ^ 63)%Z ->
  of_Z cbz = ocb - eps -> of_Z mbz = omb + eps ->
  length (d_dsc d) = 9%nat -> length (d_dsm d) = 9%nat ->
  Forall (fun rd => rd_r rd <> f0) (d_dsc d) -> Forall (fun rd => rd_r rd <> f0) (d_dsm d) ->
  d_rt d <> f0 ->
  let old := [cid; nonce; lock; ocb; omb] in
  let new := [cid; nn; lock'; of_Z cbz; of_Z mbz] in
  exists p, pay_prove pk rp hr gr tok old cbz mbz new d ctx = Some p /\
    pay_verify close_tag chal pk rp hr gr nonce eps p ctx
    = Some (blind pk new (d_bfs d), blind pk [cid; close_tag; lock'; of_Z cbz; of_Z mbz] (d_bfc d),
            commit hr [gr] [lock] (d_bfr d)).
Proof. intros Htok Hval Hlen Hcb Hmb Ecb Emb L1 L2 R1 R2 Hrt old new. subst old new.
  destruct (pay_complete K close_tag pk rp hr gr tok cid nonce lock ocb omb nn lock' cbz mbz eps d f0
              Htok Hval Hlen Hcb Hmb Ecb Emb L1 L2 R1 R2 Hrt) as (p0 & P0 & _).
  set (c := chal (pay_transcript close_tag pk rp nonce p0 ctx)).
  destruct (pay_complete K close_tag pk rp hr gr tok cid nonce lock ocb omb nn lock' cbz mbz eps d c
              Htok Hval Hlen Hcb Hmb Ecb Emb L1 L2 R1 R2 Hrt) as (p & P & V).
  exists p. unfold Protocol.pay_prove. rewrite P0. cbn [nth]. fold c. split; [exact P|].
  unfold pay_verify.
  rewrite (pay_transcript_indep pk rp hr gr tok _ cbz mbz _ d c f0 p p0 nonce ctx P P0). exact V. Qed.

(** ** well-formedness of the parties and of the randomness of an honest run *)
Definition mconfig_ok (m : mconfig K) : Prop :=
  key_ok K (m_sk m) (m_pk m) /\ pk_g1 (m_pk m) <> f0 /\ validate (m_rp m) = true /\ length (rp_sigs (m_rp m)) = 128%nat.

Definition draws_ok (d : pdraws K) : Prop :=
  length (d_dsc d) = 9%nat /\ length (d_dsm d) = 9%nat /\
  Forall (fun rd => rd_r rd <> f0) (d_dsc d) /\ Forall (fun rd => rd_r rd <> f0) (d_dsm d) /\ d_rt d <> f0.

Definition attempt_ok (t : attempt K) : Prop :=
  is_i64 (at_amount t) /\ draws_ok (sd_pd (at_sd t)) /\ at_u1 t <> f0 /\ at_u2 t <> f0.

(** a customer that is [Ready] on channel [cid] with balances [l], holding a valid pay token and a valid closing signature *)
Definition ready_ok (pk : pkey K) (cid : K) (l : Z * Z) (st : stage K) : Prop :=
  exists s tok cs, st = Ready s tok cs /\ s_cid s = cid /\ (s_cb s, s_mb s) = l /\
    (0 <= s_cb s <= i64_max)%Z /\ (0 <= s_mb s <= i64_max)%Z /\
    verify pk (smsg s) tok = true /\ verify pk (cmsg s) cs = true.

(** ** establishment always completes *)
Theorem full_establish_completes (m : mconfig K) cid cb mb e ctx u1 u2 :
  mconfig_ok m -> length (ed_ks e) = 5%nat -> u1 <> f0 -> u2 <> f0 ->
  (0 <= cb <= i64_max)%Z -> (0 <= mb <= i64_max)%Z ->
  exists st, full_establish m cid cb mb e ctx u1 u2 = PDone st /\ ready_ok (m_pk m) cid (cb, mb) st.
Proof. intros (Hk & Hg & _ & _) Hl Hu1 Hu2 Rc Rm. unfold Protocol.full_establish, c_request, m_initialize.
  rewrite (establish_fiat_shamir_complete K close_tag chal (m_pk m) cid (ed_nonce e) (ed_lock e)
             (balance_scalar cb) (balance_scalar mb) (ed_bfs e) (ed_kbfs e) (ed_ks e) (ed_bfc e) (ed_kbfc e)
             (ed_kclose e) ctx Hl).
  set (s := mkCS cid (ed_nonce e) (ed_lock e) cb mb).
  change (close_msg close_tag cid (ed_lock e) (balance_scalar cb) (balance_scalar mb)) with (cmsg s).
  change (state_msg cid (ed_nonce e) (ed_lock e) (balance_scalar cb) (balance_scalar mb)) with (smsg s).
  rewrite (honest_closing_reply_accepted K close_tag (m_sk m) (m_pk m) Hk Hg s (ed_bfc e) (ed_bfs e) u1 Hu1).
  unfold m_activate.
  rewrite (honest_token_reply_accepted K close_tag (m_sk m) (m_pk m) Hk Hg s (ed_bfs e) _ u2 Hu2).
  eexists; split; [reflexivity|]. exists s, (unblind (ed_bfs e) (blind_sign (m_sk m) (m_pk m) u2 (blind (m_pk m) (smsg s) (ed_bfs e)))),
    (unblind (ed_bfc e) (blind_sign (m_sk m) (m_pk m) u1 (blind (m_pk m) (cmsg s) (ed_bfc e)))).
  split; [reflexivity|]. split; [reflexivity|]. split; [reflexivity|]. split; [exact Rc|]. split; [exact Rm|].
  split; now apply (blind_sign_unblind K). Qed.

(** ** one payment: completes with exactly the integer balances when both stay in [0, 2^63-1] (and the customer again
    holds a valid token and closing signature, on the new state); otherwise the documented error, nothing sent, state kept *)
Definition in_range (l : Z * Z) (a : Z) : Prop :=
  (0 <= fst l - a <= i64_max)%Z /\ (0 <= snd l + a <= i64_max)%Z.

Theorem full_payment_spec (m : mconfig K) cid l st a sd ctx u1 u2 :
  mconfig_ok m -> ready_ok (m_pk m) cid l st -> is_i64 a -> draws_ok (sd_pd sd) -> u1 <> f0 -> u2 <> f0 ->
  (in_range l a -> exists st', full_payment m st a sd ctx u1 u2 = PDone st' /\
                               ready_ok (m_pk m) cid ((fst l - a)%Z, (snd l + a)%Z) st') /\
  (~ in_range l a -> exists e, full_payment m st a sd ctx u1 u2 = PAmountRefused st e).
Proof. intros (Hk & Hg & Hval & Hlen) (s & tok & cs & -> & Hcid & Hl & Rc & Rm & Vt & Vc) Ha (L1 & L2 & R1 & R2 & Hrt) Hu1 Hu2.
  subst l. unfold in_range; cbn [fst snd].
  destruct (apply_payment_spec (s_cb s) (s_mb s) a Rc Rm Ha) as (S1 & _ & S3 & S4 & S5 & S6).
  unfold Protocol.full_payment, c_start. cbn [Customer.step]. split.
  - intros Hr. rewrite (S1 Hr). set (d := sd_pd sd).
    set (new := mkCS (s_cid s) (sd_nonce sd) (sd_lock sd) (s_cb s - a) (s_mb s + a)).
    cbn [s_cb s_mb].
    assert (B1 : (0 <= s_cb s - a < 2 ^ 63)%Z) by (unfold i64_max in Hr; lia).
    assert (B2 : (0 <= s_mb s + a < 2 ^ 63)%Z) by (unfold i64_max in Hr; lia).
    assert (E1 : @of_Z K (s_cb s - a) = of_Z (s_cb s) - amount_scalar a)
      by (symmetry; apply (encoding_homomorphic_customer K)).
    assert (E2 : @of_Z K (s_mb s + a) = of_Z (s_mb s) + amount_scalar a)
      by (symmetry; apply (encoding_homomorphic_merchant K)).
    destruct (pay_fiat_shamir_complete (m_pk m) (m_rp m) (m_hr m) (m_gr m) tok (s_cid s) (s_nonce s) (s_lock s)
                (of_Z (s_cb s)) (of_Z (s_mb s)) (sd_nonce sd) (sd_lock sd) (s_cb s - a)%Z (s_mb s + a)%Z
                (amount_scalar a) d ctx Vt Hval Hlen B1 B2 E1 E2 L1 L2 R1 R2 Hrt) as (p & P & V).
    change [s_cid s; s_nonce s; s_lock s; of_Z (s_cb s); of_Z (s_mb s)] with (smsg s) in P.
    change [s_cid s; sd_nonce sd; sd_lock sd; of_Z (s_cb s - a); of_Z (s_mb s + a)] with (smsg new) in P, V.
    change [s_cid s; close_tag; sd_lock sd; of_Z (s_cb s - a); of_Z (s_mb s + a)] with (cmsg new) in V.
    fold d. change (s_cb new) with (s_cb s - a)%Z. change (s_mb new) with (s_mb s + a)%Z.
    rewrite P. unfold m_allow_payment. rewrite V.
    rewrite (honest_lock_reply_accepted K close_tag (m_sk m) (m_pk m) Hk Hg new s (d_bfr d) (d_bfs d) (d_bfc d) cs u1 Hu1).
    unfold m_complete_payment. rewrite (honest_revocation_accepted K).
    rewrite (honest_unlock_reply_accepted K close_tag (m_sk m) (m_pk m) Hk Hg new (d_bfs d) _ u2 Hu2).
    eexists; split; [reflexivity|].
    exists new, (unblind (d_bfs d) (blind_sign (m_sk m) (m_pk m) u2 (blind (m_pk m) (smsg new) (d_bfs d)))),
      (unblind (d_bfc d) (blind_sign (m_sk m) (m_pk m) u1 (blind (m_pk m) (cmsg new) (d_bfc d)))).
    split; [reflexivity|]. split; [exact Hcid|]. split; [reflexivity|]. split; [exact (proj1 Hr)|]. split; [exact (proj2 Hr)|].
    split; now apply (blind_sign_unblind K).
  - intros Hn. assert (C : (s_cb s - a < 0 \/ s_cb s - a > i64_max \/ (0 <= s_cb s - a <= i64_max /\ s_mb s + a < 0) \/
                            (0 <= s_cb s - a <= i64_max /\ s_mb s + a > i64_max))%Z) by lia.
    destruct C as [C|[C|[[C1 C2]|[C1 C2]]]].
    + rewrite (S3 C). eauto. + rewrite (S4 C). eauto. + rewrite (S5 C1 C2). eauto. + rewrite (S6 C1 C2). eauto. Qed.

Lemma ledger_step_spec l a :
  (in_range l a -> ledger_step l a = ((fst l - a)%Z, (snd l + a)%Z)) /\ (~ in_range l a -> ledger_step l a = l).
Proof. destruct l as [cb mb]. unfold ledger_step, in_range; cbn [fst snd].
  destruct (Z.leb_spec 0 (cb - a)), (Z.leb_spec (cb - a) i64_max), (Z.leb_spec 0 (mb + a)), (Z.leb_spec (mb + a) i64_max);
    cbn [andb]; split; intros; try reflexivity; try lia; exfalso; lia. Qed.

(** ** every list of payment attempts: the run never gets stuck and ends Ready with exactly the ideal ledger's balances *)
Theorem full_run_tracks_ledger (m : mconfig K) cid : mconfig_ok m -> forall ats l st,
  Forall attempt_ok ats -> ready_ok (m_pk m) cid l st ->
  exists st', full_run m st ats = PDone st' /\ ready_ok (m_pk m) cid (ledger_run l (map (@at_amount K) ats)) st'.
Proof. intros Hm. induction ats as [|t ats IH]; intros l st Hf Hr.
  - exists st. split; [reflexivity | exact Hr].
  - inversion Hf as [|t' ats' (Ha & Hd & Hu1 & Hu2) Hf']; subst. cbn [Protocol.full_run map].
    unfold ledger_run; cbn [fold_left]. fold (ledger_run (ledger_step l (at_amount t)) (map (@at_amount K) ats)).
    destruct (full_payment_spec m cid l st (at_amount t) (at_sd t) (at_ctx t) (at_u1 t) (at_u2 t) Hm Hr Ha Hd Hu1 Hu2)
      as [Hin Hout].
    destruct (ledger_step_spec l (at_amount t)) as [Lin Lout].
    assert (D : in_range l (at_amount t) \/ ~ in_range l (at_amount t)) by (unfold in_range; lia).
    destruct D as [D|D].
    + destruct (Hin D) as (st' & -> & Hr'). rewrite (Lin D). now apply IH.
    + destruct (Hout D) as (e & ->). rewrite (Lout D). now apply IH. Qed.

(** the ideal ledger conserves the sum and stays in range *)
Lemma ledger_run_invariant amounts : forall l, (0 <= fst l <= i64_max)%Z -> (0 <= snd l <= i64_max)%Z ->
  let l' := ledger_run l amounts in
  (fst l' + snd l' = fst l + snd l)%Z /\ (0 <= fst l' <= i64_max)%Z /\ (0 <= snd l' <= i64_max)%Z.
Proof. induction amounts as [|a amounts IH]; intros l R1 R2; [unfold ledger_run; cbn [fold_left]; lia|].
  unfold ledger_run; cbn [fold_left]. fold (ledger_run (ledger_step l a) amounts).
  destruct (ledger_step_spec l a) as [Lin Lout].
  assert (D : in_range l a \/ ~ in_range l a) by (unfold in_range; lia). destruct D as [D|D].
  - rewrite (Lin D). destruct D as [D1 D2].
    destruct (IH ((fst l - a)%Z, (snd l + a)%Z)) as (I1 & I2 & I3); cbn [fst snd] in *; try lia.
  - rewrite (Lout D). now apply IH. Qed.

(** ** the whole life of a channel: establishment, any list of payment attempts, then close - accepted, with the ledger's
    balances *)
Theorem channel_lifecycle (m : mconfig K) cid cb mb e ctx u1 u2 ats rho :
  mconfig_ok m -> length (ed_ks e) = 5%nat -> u1 <> f0 -> u2 <> f0 ->
  (0 <= cb <= i64_max)%Z -> (0 <= mb <= i64_max)%Z -> Forall attempt_ok ats -> rho <> f0 ->
  exists st0 st, full_establish m cid cb mb e ctx u1 u2 = PDone st0 /\ full_run m st0 ats = PDone st /\
    let l := ledger_run (cb, mb) (map (@at_amount K) ats) in
    ready_ok (m_pk m) cid l st /\
    exists sig s, close_of st rho = Some (sig, s) /\ check_close close_tag (m_pk m) sig s = true /\
                  s_cid s = cid /\ (s_cb s, s_mb s) = l /\ (fst l + snd l = cb + mb)%Z.
Proof. intros Hm Hl Hu1 Hu2 Rc Rm Hf Hrho.
  destruct (full_establish_completes m cid cb mb e ctx u1 u2 Hm Hl Hu1 Hu2 Rc Rm) as (st0 & E0 & R0).
  destruct (full_run_tracks_ledger m cid Hm ats (cb, mb) st0 Hf R0) as (st & E1 & R1).
  exists st0, st. split; [exact E0|]. split; [exact E1|]. split; [exact R1|].
  destruct R1 as (s & tok & cs & -> & Hcid & Hlq & _ & _ & _ & Vc).
  exists (randomize rho cs), s. split; [reflexivity|]. unfold check_close.
  split; [now apply (randomize_nonzero_verifies K)|]. split; [exact Hcid|]. split; [exact Hlq|].
  destruct (ledger_run_invariant (map (@at_amount K) ats) (cb, mb)) as (I & _); cbn [fst snd] in *; try lia. Qed.

(** ** a generated merchant configuration is fit for honest runs: for every choice of streams in which the generators find
    enough non-identity / non-zero draws, [merchant::Config::new] yields a configuration satisfying [mconfig_ok] - so
    [channel_lifecycle] applies to it (C19 feeds C04) *)
Theorem generated_config_ok g1s scalars g2s rev_draws rg1s rscalars rg2s bases m :
  merchant_config_new g1s scalars g2s rev_draws rg1s rscalars rg2s bases = Some m ->
  mconfig_ok m /\ m_hr m <> f0 /\ m_gr m <> f0 /\ length (pk_y1s (m_pk m)) = 5%nat /\ length (pk_y2s (rp_pk (m_rp m))) = 1%nat.
Proof. unfold merchant_config_new.
  destruct (keygen_stream 5 g1s scalars g2s) as [[sk pk]|] eqn:E1; [|discriminate].
  destruct (pedersen_new_stream 1 rev_draws) as [[hr [|gr [|? ?]]]|] eqn:E2; try discriminate.
  destruct (keygen_stream 1 rg1s rscalars rg2s) as [[rsk rpk]|] eqn:E3; [|discriminate].
  destruct (take_nonzero 128 bases) as [[hs rest]|] eqn:E4; [|discriminate].
  intros [= <-]. cbn [m_sk m_pk m_hr m_gr m_rp].
  destruct (keygen_wf K 5 g1s scalars g2s sk pk E1) as (L1 & _ & _ & Hk & Hg & _).
  destruct (keygen_wf K 1 rg1s rscalars rg2s rsk rpk E3) as (L3 & _ & _ & Hrk & _ & _).
  destruct (take_nonzero_spec K 128 bases hs rest E4) as [L4 F4].
  destruct (range_params_new_valid K rsk rpk hs Hrk F4) as [V LV].
  destruct (pedersen_new_wf K 1 rev_draws hr [gr] E2) as [_ W]. unfold params_wf in W. cbn [forallb] in W.
  rewrite !andb_true_iff in W. destruct W as [W1 [W2 _]]. apply (fneqb_true K) in W1, W2.
  split; [|split; [exact W1|split; [exact W2|split]]].
  - unfold mconfig_ok; cbn [m_sk m_pk m_rp]. split; [exact Hk|]. split; [exact Hg|]. split; [exact V|]. rewrite LV. exact L4.
  - destruct Hk as (_ & _ & _ & Hy1 & _). rewrite Hy1, map_length. exact L1.
  - cbn [range_params_new rp_pk]. destruct Hrk as (_ & _ & Hy2 & _ & _). rewrite Hy2, map_length. exact L3. Qed.

End P.
