(** Exact-value reuse (C14), per message constructor: every group element and scalar that a customer message carries is
    an AFFINE function  a * rho + b  of a random value rho drawn for that message, with a coefficient a <> 0 that does
    not depend on rho.  Hence for any fixed earlier value v, at most one value of rho makes the atom equal v
    ([affine_collision_unique]), whatever the secrets are.  Side conditions are exactly the well-formedness facts the
    decoders / key generation guarantee (generators and sigma1 are not the identity) and non-zero randomisers. *)
From ZK Require Import Model.Field Model.Pedersen Model.PS Model.Schnorr Model.Range Model.Abacus Model.Customer
  Proofs.FieldFacts.
Local Open Scope fld_scope.

Section P.
Variable K : Fld.
Add Field Kf12 : (Fth K).

Theorem affine_injective (a b x y : K) : a <> f0 -> a * x + b = a * y + b -> x = y.
Proof. intros Ha E. apply (fmul_cancel_l K a); [exact Ha|].
  transitivity (a * x + b - b); [ring|]. rewrite E. ring. Qed.

Theorem affine_collision_unique (a b v x : K) : a <> f0 -> a * x + b = v -> x = (v - b) / a.
Proof. intros Ha E. rewrite <- E. field. exact Ha. Qed.

(** ** a commitment proof (and a signature-request proof, which is one under (g1, Y1..YN)):
    C in the blinding factor, T and the blinding-factor response in its commitment scalar, each response in its own
    commitment scalar *)
Theorem cp_C_masked (h : K) gs ms kbf ks c bf bf' : h <> f0 ->
  cp_C (cp_prove h gs ms bf kbf ks c) = cp_C (cp_prove h gs ms bf' kbf ks c) -> bf = bf'.
Proof. intros Hh. unfold cp_prove, cp_respond, cp_commit_phase, commit; cbn [cp_C fst]. intros E.
  apply (affine_injective h (ip gs ms) bf bf' Hh). exact E. Qed.

Theorem cp_T_masked (h : K) gs ms bf ks c kbf kbf' : h <> f0 ->
  cp_T (cp_prove h gs ms bf kbf ks c) = cp_T (cp_prove h gs ms bf kbf' ks c) -> kbf = kbf'.
Proof. intros Hh. unfold cp_prove, cp_respond, cp_commit_phase, commit; cbn [cp_T snd]. intros E.
  apply (affine_injective h (ip gs ks) kbf kbf' Hh). exact E. Qed.

Theorem cp_rbf_masked (h : K) gs ms bf ks c kbf kbf' :
  cp_rbf (cp_prove h gs ms bf kbf ks c) = cp_rbf (cp_prove h gs ms bf kbf' ks c) -> kbf = kbf'.
Proof. unfold cp_prove, cp_respond; cbn [cp_rbf]. intros E.
  apply (affine_injective f1 (c * bf) kbf kbf' (f1_neq_f0 K)).
  transitivity (c * bf + kbf); [ring|]. rewrite E. ring. Qed.

Theorem cp_response_masked (h : K) gs ms bf kbf ks c j k k' : (j < length ms)%nat -> length ks = length ms ->
  nth j (cp_rs (cp_prove h gs ms bf kbf (upd j k ks) c)) f0 = nth j (cp_rs (cp_prove h gs ms bf kbf (upd j k' ks) c)) f0 ->
  k = k'.
Proof. intros Hj Hl. unfold cp_prove, cp_respond; cbn [cp_rs].
  rewrite !(nth_map2 (fun m k0 => c * m + k0) ms _ j f0 f0 f0) by (rewrite ?upd_length; congruence || assumption).
  rewrite !nth_upd_same by congruence. intros E.
  apply (affine_injective f1 (c * nth j ms f0) k k' (f1_neq_f0 K)).
  transitivity (c * nth j ms f0 + k); [ring|]. rewrite E. ring. Qed.

(** the response hides the message value: for every other candidate value there is exactly one commitment scalar giving the
    same response *)
Theorem response_perfectly_hiding (c m m' k : K) : exists! k', c * m + k = c * m' + k'.
Proof. exists (c * m + k - c * m'). split; [ring|]. intros k' E. rewrite E. ring. Qed.

(** ** a signature proof: the shown signature (sigma1', sigma2') = blind_and_randomize r bf sigma:
    sigma1' in the randomiser r; sigma2' in the blinding factor bf (given r <> 0) *)
Theorem shown_sigma1_masked (s : sigt K) bf r r' : fst s <> f0 ->
  fst (blind_and_randomize r bf s) = fst (blind_and_randomize r' bf s) -> r = r'.
Proof. intros Hs. unfold blind_and_randomize, randomize; cbn [fst]. intros E. now apply (fmul_cancel_l K (fst s)). Qed.

Theorem shown_sigma2_masked (s : sigt K) r bf bf' : fst s <> f0 -> r <> f0 ->
  snd (blind_and_randomize r bf s) = snd (blind_and_randomize r bf' s) -> bf = bf'.
Proof. intros Hs Hr. unfold blind_and_randomize, randomize; cbn [fst snd]. intros E.
  apply (affine_injective (fst s * r) (snd s * r) bf bf' (fmul_neq0 K _ _ Hs Hr)).
  transitivity ((snd s + fst s * bf) * r); [ring|]. rewrite E. ring. Qed.

(** a shown signature differs from the signature the merchant issued whenever r <> 1 (and sigma1 <> identity) *)
Theorem shown_signature_differs_from_issued (s : sigt K) r bf : fst s <> f0 -> r <> f1 ->
  fst (blind_and_randomize r bf s) <> fst s.
Proof. intros Hs Hr. unfold blind_and_randomize, randomize; cbn [fst]. intros E. apply Hr.
  apply (fmul_cancel_l K (fst s)); [exact Hs|]. rewrite E. ring. Qed.

(** ** a closing message: both halves of the closing signature in the closing randomiser *)
Theorem closing_sigma1_masked (cs : sigt K) rho rho' : fst cs <> f0 ->
  fst (randomize rho cs) = fst (randomize rho' cs) -> rho = rho'.
Proof. intros Hs. unfold randomize; cbn [fst]. intros E. now apply (fmul_cancel_l K (fst cs)). Qed.

Theorem closing_sigma2_masked (cs : sigt K) rho rho' : snd cs <> f0 ->
  snd (randomize rho cs) = snd (randomize rho' cs) -> rho = rho'.
Proof. intros Hs. unfold randomize; cbn [snd]. intros E. now apply (fmul_cancel_l K (snd cs)). Qed.

Theorem closing_signature_differs_from_issued (cs : sigt K) rho : fst cs <> f0 -> rho <> f1 -> fst (randomize rho cs) <> fst cs.
Proof. intros Hs Hr. unfold randomize; cbn [fst]. intros E. apply Hr.
  apply (fmul_cancel_l K (fst cs)); [exact Hs|]. rewrite E. ring. Qed.

(** the closing message of every stage is [randomize rho] of the stored signature: no stage sends the stored signature itself *)
Theorem every_close_rerandomises (st : stage K) rho sig s : close_of st rho = Some (sig, s) ->
  exists stored, closing_view st = Some (stored, s) /\ sig = randomize rho stored.
Proof. destruct st; cbn [close_of closing_view]; try discriminate; intros [= <- <-]; eexists; split; reflexivity. Qed.

(** a zero randomiser (a generator fault at exactly that draw): the closing message then carries the identity pair - which the
    merchant refuses - and never the stored signature, whose first element is not the identity *)
Theorem zero_randomiser_close_sends_identity_pair (st : stage K) sig s : close_of st f0 = Some (sig, s) ->
  sig = (f0, f0) /\ forall stored, closing_view st = Some (stored, s) -> fst stored <> f0 -> sig <> stored.
Proof. intros H. destruct (every_close_rerandomises st f0 sig s H) as (stored & Hv & ->).
  assert (E : randomize f0 stored = (f0, f0)) by (unfold randomize; f_equal; ring).
  split; [exact E|]. intros stored' Hv' Hne Heq. rewrite Hv in Hv'. injection Hv' as <-.
  rewrite E in Heq. apply Hne. rewrite <- Heq. reflexivity. Qed.

(** ** the establish message: the four revealed commitment scalars are draws of this message; every other atom is an atom of
    one of its two signature-request proofs (covered above) *)
Theorem establish_revealed_scalars_are_fresh_draws (close_tag : K) (pk : pkey K) cid nonce lock cb mb bfs kbfs ks bfc kbfc kclose c :
  let p := establish_prove_with close_tag pk cid nonce lock cb mb bfs kbfs ks bfc kbfc kclose c in
  e_kcid p = nth 0 ks f0 /\ e_kclose p = kclose /\ e_kcb p = nth 3 ks f0 /\ e_kmb p = nth 4 ks f0 /\
  e_sp p = req_prove pk (state_msg cid nonce lock cb mb) bfs kbfs ks c /\
  e_csp p = req_prove pk (close_msg close_tag cid lock cb mb) bfc kbfc
              [nth 0 ks f0; kclose; nth 2 ks f0; nth 3 ks f0; nth 4 ks f0] c.
Proof. cbn. repeat split; reflexivity. Qed.

(** ** the pay message: the two revealed scalars are draws; the sub-proofs are commitment / signature proofs over fresh draws *)
Theorem pay_message_structure (close_tag : K) (pk : pkey K) rp hr gr tok old cbz mbz new d c p :
  pay_prove_with close_tag pk rp hr gr tok old cbz mbz new d c = Some p ->
  p_knonce p = d_knonce d /\ p_kclose p = d_kclose d /\
  sp_sig (p_tok p) = blind_and_randomize (d_rt d) (d_bft d) tok /\
  (exists kst, sp_cp (p_tok p) = cp_prove (pk_g2 pk) (pk_y2s pk) old (d_bft d) (d_kbft d) kst c) /\
  p_rev p = cp_prove hr [gr] [nth 2 old f0] (d_bfr d) (d_kbfr d) [d_krev d] c /\
  (exists kss, p_sp p = cp_prove (pk_g1 pk) (pk_y1s pk) new (d_bfs d) (d_kbfs d) kss c) /\
  (exists ksc newc, p_csp p = cp_prove (pk_g1 pk) (pk_y1s pk) newc (d_bfc d) (d_kbfc d) ksc c).
Proof. unfold pay_prove_with.
  destruct (range_prove rp cbz (d_dsc d) c) as [prc|]; [|discriminate].
  destruct (range_prove rp mbz (d_dsm d) c) as [prm|]; [|discriminate].
  intros [= <-]. cbn [p_knonce p_kclose p_tok p_rev p_sp p_csp sp_sig sp_cp sig_prove req_prove].
  repeat split; try reflexivity; eexists; try eexists; reflexivity. Qed.

(** each digit proof of a range constraint is a signature proof around the published digit signature with its own four draws *)
Theorem range_digit_proofs_structure (rp : rparams K) v ds c ps : range_prove rp v ds c = Some ps ->
  ps = map2 (fun dg rd => sig_prove (rp_pk rp) [of_Z dg] (nth (Z.to_nat dg) (rp_sigs rp) (f0, f0))
                                    (rd_bf rd) (rd_kbf rd) [rd_k rd] (rd_r rd) c) (digits v) ds.
Proof. unfold range_prove. destruct (v <? 0)%Z; [discriminate|]. intros E.
  assert (A : forall (x y : list (sproof K)), Some x = Some y -> x = y) by (intros x y H; now injection H).
  symmetry. now apply A. Qed.

End P.
