From ZK Require Import Model.Field Model.Pedersen Model.PS Model.Schnorr
  Proofs.FieldFacts Proofs.PedersenProofs Proofs.PSProofs.
Local Open Scope fld_scope.

Section P.
Variable K : Fld.
Add Field Kf3 : (Fth K).

(** ** exact relations *)
Theorem cp_verify_iff (h : K) gs (p : cproof K) c :
  cp_verify h gs p c = true <-> commit h gs (cp_rs p) (cp_rbf p) = cp_T p + cp_C p * c.
Proof. unfold cp_verify. apply (feqb_ok K). Qed.

Theorem req_verify_iff (pk : pkey K) (p : cproof K) c v :
  req_verify pk p c = Some v <->
  commit (pk_g1 pk) (pk_y1s pk) (cp_rs p) (cp_rbf p) = cp_T p + cp_C p * c /\ v = cp_C p.
Proof. unfold req_verify. destruct (cp_verify (pk_g1 pk) (pk_y1s pk) p c) eqn:E.
  - apply cp_verify_iff in E. split; [intros [= <-]; auto | intros [_ ->]; reflexivity].
  - split; [discriminate|]. intros [H _]. apply cp_verify_iff in H. congruence. Qed.

Theorem req_verify_none_iff (pk : pkey K) (p : cproof K) c :
  req_verify pk p c = None <-> cp_verify (pk_g1 pk) (pk_y1s pk) p c = false.
Proof. unfold req_verify. destruct (cp_verify _ _ p c); split; congruence. Qed.

Theorem sig_verify_iff (pk : pkey K) (p : sproof K) c :
  sig_verify pk p c = true <->
  fst (sp_sig p) <> f0 /\
  commit (pk_g2 pk) (pk_y2s pk) (cp_rs (sp_cp p)) (cp_rbf (sp_cp p)) = cp_T (sp_cp p) + cp_C (sp_cp p) * c /\
  fst (sp_sig p) * (pk_x2 pk + cp_C (sp_cp p)) = snd (sp_sig p) * pk_g2 pk.
Proof. unfold sig_verify, is_well_formed. rewrite !andb_true_iff, (fneqb_true K), cp_verify_iff, (feqb_ok K).
  split.
  - intros [[H1 H2] H3]. repeat split; auto.
    transitivity (fst (sp_sig p) * (pk_x2 pk + cp_C (sp_cp p)) + snd (sp_sig p) * - pk_g2 pk + snd (sp_sig p) * pk_g2 pk); [ring|].
    rewrite H3. ring.
  - intros (H1 & H2 & H3). repeat split; auto. rewrite H3. ring. Qed.

Theorem identity_signature_rejected (pk : pkey K) s2 cp c : sig_verify pk (mkSP (f0, s2) cp) c = false.
Proof. unfold sig_verify, is_well_formed, fneqb; simpl. now rewrite (feqb_refl K). Qed.

(** ** completeness *)
Lemma commit_responses (h : K) gs ms ks bf kbf c : length ms = length ks ->
  commit h gs (map2 (fun m k => c * m + k) ms ks) (c * bf + kbf) = commit h gs ks kbf + commit h gs ms bf * c.
Proof. intros Hl. unfold commit.
  assert (E : ip gs (map2 (fun m k => c * m + k) ms ks) = c * ip gs ms + ip gs ks).
  { revert ms ks Hl. induction gs as [|g gs IH]; intros [|m ms] [|k ks] Hl; simpl in *; try discriminate; try ring.
    rewrite IH by congruence. ring. }
  rewrite E. ring. Qed.

Theorem cp_complete (h : K) gs ms bf kbf ks c : length ms = length ks ->
  cp_verify h gs (cp_prove h gs ms bf kbf ks c) c = true.
Proof. intros Hl. apply cp_verify_iff. unfold cp_prove, cp_respond, cp_commit_phase; simpl.
  now apply commit_responses. Qed.

Theorem req_complete (pk : pkey K) ms bf kbf ks c : length ms = length ks ->
  req_verify pk (req_prove pk ms bf kbf ks c) c = Some (blind pk ms bf).
Proof. intros Hl. unfold req_verify, req_prove. rewrite cp_complete by assumption. reflexivity. Qed.

Theorem sig_complete (pk : pkey K) ms s bf kbf ks r c : length ms = length ks ->
  verify pk ms s = true ->
  sig_verify pk (sig_prove pk ms s bf kbf ks r c) c = fneqb r f0.
Proof. intros Hl Hv. apply verify_iff in Hv. destruct Hv as [H1 H2].
  apply eq_true_iff_eq. rewrite sig_verify_iff, (fneqb_true K).
  unfold sig_prove, blind_and_randomize, randomize; simpl. split.
  - intros [H _] ->. apply H. ring.
  - intros Hr. split; [now apply (fmul_neq0 K)|]. split.
    + now apply commit_responses.
    + unfold commit.
      transitivity (r * (fst s * (pk_x2 pk + ip (pk_y2s pk) ms)) + fst s * r * (pk_g2 pk * bf)); [ring|].
      rewrite H2. ring. Qed.

(** response scalars: the single fact behind all documented constraint patterns *)
Theorem response_scalar_spec (h : K) gs ms bf kbf ks c j : length ms = length ks -> (j < length ms)%nat ->
  nth j (cp_rs (cp_prove h gs ms bf kbf ks c)) f0 = c * nth j ms f0 + nth j ks f0.
Proof. intros Hl Hj. unfold cp_prove, cp_respond; simpl.
  rewrite (nth_map2 (fun m k => c * m + k) ms ks j f0 f0 f0) by assumption. reflexivity. Qed.

Theorem builder_proof_transcript_eq (h : K) gs ms bf kbf ks c :
  cp_transcript (cp_prove h gs ms bf kbf ks c) = cp_builder_transcript (cp_commit_phase h gs ms bf kbf ks).
Proof. reflexivity. Qed.

(** ** perturbations of an accepted commitment proof, with their exact side conditions *)
Lemma cp_change_C (h : K) gs p c C' : cp_verify h gs p c = true -> C' <> cp_C p -> c <> f0 ->
  cp_verify h gs (mkCP C' (cp_T p) (cp_rbf p) (cp_rs p)) c = false.
Proof. intros Hv Hne Hc. apply (feqb_false K). apply cp_verify_iff in Hv. simpl. rewrite Hv. intros E.
  assert (E' : c * (C' - cp_C p) = f0).
  { transitivity (cp_T p + C' * c - (cp_T p + cp_C p * c)); [ring | rewrite E; ring]. }
  destruct (fmul_eq0 K _ _ E') as [|E2]; [contradiction|]. apply Hne. now apply (fsub_eq0 K). Qed.

Lemma cp_change_T (h : K) gs p c T' : cp_verify h gs p c = true -> T' <> cp_T p ->
  cp_verify h gs (mkCP (cp_C p) T' (cp_rbf p) (cp_rs p)) c = false.
Proof. intros Hv Hne. apply (feqb_false K). apply cp_verify_iff in Hv. simpl. rewrite Hv. intros E.
  apply Hne. apply (fsub_eq0 K). transitivity (T' + cp_C p * c - (cp_T p + cp_C p * c)); [ring | rewrite E; ring]. Qed.

Lemma cp_change_rbf (h : K) gs p c r' : cp_verify h gs p c = true -> r' <> cp_rbf p -> h <> f0 ->
  cp_verify h gs (mkCP (cp_C p) (cp_T p) r' (cp_rs p)) c = false.
Proof. intros Hv Hne Hh. apply (feqb_false K). apply cp_verify_iff in Hv. simpl. rewrite <- Hv. unfold commit. intros E.
  assert (E' : h * (r' - cp_rbf p) = f0).
  { transitivity (h * r' + ip gs (cp_rs p) - (h * cp_rbf p + ip gs (cp_rs p))); [ring | rewrite E; ring]. }
  destruct (fmul_eq0 K _ _ E') as [|E2]; [contradiction|]. apply Hne. now apply (fsub_eq0 K). Qed.

Lemma cp_change_r (h : K) gs p c j v : cp_verify h gs p c = true ->
  (j < length (cp_rs p))%nat -> (j < length gs)%nat -> nth j gs f0 <> f0 -> v <> nth j (cp_rs p) f0 ->
  cp_verify h gs (mkCP (cp_C p) (cp_T p) (cp_rbf p) (upd j v (cp_rs p))) c = false.
Proof. intros Hv Hj Hg Hgj Hne. apply (feqb_false K). apply cp_verify_iff in Hv. simpl. rewrite <- Hv.
  rewrite (commit_upd K) by assumption. intros E.
  assert (E' : nth j gs f0 * (v - nth j (cp_rs p) f0) = f0).
  { transitivity (commit h gs (cp_rs p) (cp_rbf p) + nth j gs f0 * (v - nth j (cp_rs p) f0) - commit h gs (cp_rs p) (cp_rbf p)); [ring|].
    rewrite E. ring. }
  destruct (fmul_eq0 K _ _ E') as [|E2]; [contradiction|]. apply Hne. now apply (fsub_eq0 K). Qed.

Lemma cp_change_challenge (h : K) gs p c c' : cp_verify h gs p c = true -> c' <> c -> cp_C p <> f0 ->
  cp_verify h gs p c' = false.
Proof. intros Hv Hne HC. apply (feqb_false K). apply cp_verify_iff in Hv. rewrite Hv. intros E.
  assert (E' : cp_C p * (c - c') = f0).
  { transitivity (cp_T p + cp_C p * c - (cp_T p + cp_C p * c')); [ring | rewrite E; ring]. }
  destruct (fmul_eq0 K _ _ E') as [|E2]; [contradiction|]. apply Hne. symmetry. now apply (fsub_eq0 K). Qed.

(** at most one challenge is accepted for a proof with a non-identity commitment *)
Theorem unique_accepting_challenge (h : K) gs p c c' : cp_C p <> f0 ->
  cp_verify h gs p c = true -> cp_verify h gs p c' = true -> c = c'.
Proof. intros HC H1 H2. destruct (feqbP K c' c) as [->|Hne]; [reflexivity|].
  rewrite (cp_change_challenge h gs p c c' H1 Hne HC) in H2. discriminate. Qed.

Lemma cp_change_generator (h : K) gs p c j g' : cp_verify h gs p c = true ->
  (j < length (cp_rs p))%nat -> (j < length gs)%nat -> nth j (cp_rs p) f0 <> f0 -> g' <> nth j gs f0 ->
  cp_verify h (upd j g' gs) p c = false.
Proof. intros Hv Hj Hg Hrj Hne. apply (feqb_false K). apply cp_verify_iff in Hv. rewrite <- Hv. unfold commit.
  assert (C : forall (a b : list K) j v, (j < length a)%nat -> (j < length b)%nat ->
            ip (upd j v a) b = ip a b + (v - nth j a f0) * nth j b f0).
  { induction a as [|x a IH]; intros [|y b] [|i] w Ha Hb; simpl in *; try lia; try ring.
    rewrite IH by lia. ring. }
  rewrite C by assumption. intros E.
  assert (E' : (g' - nth j gs f0) * nth j (cp_rs p) f0 = f0).
  { transitivity (h * cp_rbf p + (ip gs (cp_rs p) + (g' - nth j gs f0) * nth j (cp_rs p) f0) - (h * cp_rbf p + ip gs (cp_rs p))); [ring|].
    rewrite E. ring. }
  destruct (fmul_eq0 K _ _ E') as [E2|]; [|contradiction]. apply Hne. now apply (fsub_eq0 K). Qed.

(** a simulated transcript (T chosen from the challenge and random responses) is accepted under
    another challenge only if (c' - c) * C = 0 *)
Definition simulate (h : K) gs (C : K) rbf rs c : cproof K := mkCP C (commit h gs rs rbf - C * c) rbf rs.
Theorem simulated_accepts (h : K) gs C rbf rs c : cp_verify h gs (simulate h gs C rbf rs c) c = true.
Proof. apply cp_verify_iff. simpl. ring. Qed.
Theorem simulated_other_challenge (h : K) gs C rbf rs c c' :
  cp_verify h gs (simulate h gs C rbf rs c) c' = true <-> C * (c' - c) = f0.
Proof. rewrite cp_verify_iff. simpl. split; intros E.
  - transitivity (commit h gs rs rbf - C * c + C * c' - commit h gs rs rbf); [ring | rewrite <- E; ring].
  - transitivity (commit h gs rs rbf + C * (c' - c)); [rewrite E; ring | ring]. Qed.

(** ** special soundness: two accepting transcripts with the same first message give an opening *)
Definition ext (d r r' : K) : K := (r - r') / d.
Lemma ip_ext (gs rs rs' : list K) d : d <> f0 -> length rs = length gs -> length rs' = length gs ->
  ip gs (map2 (ext d) rs rs') = (ip gs rs - ip gs rs') / d.
Proof. revert rs rs'. induction gs as [|g gs IH]; intros [|x a] [|y b] Hd Ha Hb; simpl in *; try discriminate.
  - field; assumption.
  - rewrite IH by congruence. unfold ext. field; assumption. Qed.

Theorem cp_special_soundness (h : K) gs C T rbf rs rbf' rs' c c' :
  c - c' <> f0 -> length rs = length gs -> length rs' = length gs ->
  cp_verify h gs (mkCP C T rbf rs) c = true -> cp_verify h gs (mkCP C T rbf' rs') c' = true ->
  C = commit h gs (map2 (ext (c - c')) rs rs') (ext (c - c') rbf rbf').
Proof. intros Hc Hl Hl' H1 H2. apply cp_verify_iff in H1, H2. simpl in *. unfold commit in *.
  rewrite ip_ext by assumption. unfold ext.
  assert (E : (c - c') * C = h * (rbf - rbf') + (ip gs rs - ip gs rs')).
  { transitivity ((T + C * c) - (T + C * c')); [ring|]. rewrite <- H1, <- H2. ring. }
  assert (C = ((c - c') * C) / (c - c')) as -> by (field; exact Hc).
  rewrite E. field. exact Hc. Qed.

(** the extracted message inherits every linear statement the responses satisfy under both challenges *)
Lemma ext_public (rs rs' : list K) c c' v k i : c - c' <> f0 -> (i < length rs)%nat -> length rs = length rs' ->
  nth i rs f0 = c * v + k -> nth i rs' f0 = c' * v + k ->
  nth i (map2 (ext (c - c')) rs rs') f0 = v.
Proof. intros Hc Hi Hl H1 H2. rewrite (nth_map2 (ext (c - c')) rs rs' i f0 f0 f0) by assumption.
  unfold ext. rewrite H1, H2. field. exact Hc. Qed.

Lemma ext_equal (rs rs' ss ss' : list K) d i j :
  (i < length rs)%nat -> length rs = length rs' -> (j < length ss)%nat -> length ss = length ss' ->
  nth i rs f0 = nth j ss f0 -> nth i rs' f0 = nth j ss' f0 ->
  nth i (map2 (ext d) rs rs') f0 = nth j (map2 (ext d) ss ss') f0.
Proof. intros Hi Hl Hj Hl2 H1 H2.
  rewrite (nth_map2 (ext d) rs rs' i f0 f0 f0), (nth_map2 (ext d) ss ss' j f0 f0 f0) by assumption.
  congruence. Qed.

(** r_i = s_j + c * a under both challenges  =>  m_i = n_j + a   (public addition) *)
Lemma ext_shift (rs rs' ss ss' : list K) c c' a i j : c - c' <> f0 ->
  (i < length rs)%nat -> length rs = length rs' -> (j < length ss)%nat -> length ss = length ss' ->
  nth i rs f0 = nth j ss f0 + c * a -> nth i rs' f0 = nth j ss' f0 + c' * a ->
  nth i (map2 (ext (c - c')) rs rs') f0 = nth j (map2 (ext (c - c')) ss ss') f0 + a.
Proof. intros Hc Hi Hl Hj Hl2 H1 H2.
  rewrite (nth_map2 (ext (c - c')) rs rs' i f0 f0 f0), (nth_map2 (ext (c - c')) ss ss' j f0 f0 f0) by assumption.
  unfold ext. rewrite H1, H2. field. exact Hc. Qed.

(** if the revealed commitment scalar is NOT fixed before the challenge, any hidden value passes *)
Lemma revealed_scalar_forgery (c v hidden kk : K) : exists k, c * hidden + kk = c * v + k.
Proof. exists (c * hidden + kk - c * v). ring. Qed.


(** special soundness of the signature proof: an opening of the commitment AND a valid signature on it *)
Theorem sig_special_soundness (pk : pkey K) (s : sigt K) C T rbf rs rbf' rs' c c' :
  c - c' <> f0 -> length rs = length (pk_y2s pk) -> length rs' = length (pk_y2s pk) ->
  sig_verify pk (mkSP s (mkCP C T rbf rs)) c = true ->
  sig_verify pk (mkSP s (mkCP C T rbf' rs')) c' = true ->
  C = commit (pk_g2 pk) (pk_y2s pk) (map2 (ext (c - c')) rs rs') (ext (c - c') rbf rbf') /\
  verify pk (map2 (ext (c - c')) rs rs') (unblind (ext (c - c') rbf rbf') s) = true.
Proof. intros Hc Hl Hl' H1 H2. apply sig_verify_iff in H1, H2. simpl in *.
  destruct H1 as (Hs & R1 & P1). destruct H2 as (_ & R2 & _).
  assert (E : C = commit (pk_g2 pk) (pk_y2s pk) (map2 (ext (c - c')) rs rs') (ext (c - c') rbf rbf')).
  { apply (cp_special_soundness (pk_g2 pk) (pk_y2s pk) C T rbf rs rbf' rs' c c'); auto;
    apply cp_verify_iff; simpl; assumption. }
  split; [exact E|]. apply verify_iff. unfold ps_relation, unblind; simpl. split; [exact Hs|].
  rewrite E in P1. unfold commit in P1.
  transitivity (fst s * (pk_x2 pk + (pk_g2 pk * ext (c - c') rbf rbf' + ip (pk_y2s pk) (map2 (ext (c - c')) rs rs')))
                - fst s * ext (c - c') rbf rbf' * pk_g2 pk); [ring|]. rewrite P1. ring. Qed.


(** the one challenge a given proof can be accepted under is a function of the proof and the parameters *)
Theorem accepting_challenge_formula (h : K) gs (p : cproof K) c : cp_C p <> f0 ->
  cp_verify h gs p c = true -> c = (commit h gs (cp_rs p) (cp_rbf p) - cp_T p) / cp_C p.
Proof. intros HC V. apply cp_verify_iff in V. rewrite V. field. exact HC. Qed.


Theorem request_sign_unblind (sk : skey K) (pk : pkey K) ms bf kbf ks c u :
  key_ok K sk pk -> pk_g1 pk <> f0 -> u <> f0 -> length ms = length ks ->
  exists v, req_verify pk (req_prove pk ms bf kbf ks c) c = Some v /\
            verify pk ms (unblind bf (blind_sign sk pk u v)) = true.
Proof. intros Hk Hg Hu Hl. exists (blind pk ms bf). split; [now apply req_complete | now apply (blind_sign_unblind K)]. Qed.

End P.
