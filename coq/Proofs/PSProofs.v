From ZK Require Import Model.Field Model.Pedersen Model.PS Proofs.FieldFacts Proofs.PedersenProofs.
Local Open Scope fld_scope.

Section P.
Variable K : Fld.
Add Field Kf2 : (Fth K).

(** The exact relation accepted by [Signature::verify]: e(s1, X~ + sum mi Y~i) = e(s2, g~), s1 <> 1. *)
Definition ps_relation (pk : pkey K) (ms : list K) (s : sigt K) : Prop :=
  fst s <> f0 /\ fst s * (pk_x2 pk + ip (pk_y2s pk) ms) = snd s * pk_g2 pk.

Theorem verify_iff (pk : pkey K) ms s : verify pk ms s = true <-> ps_relation pk ms s.
Proof. unfold verify, is_well_formed, ps_relation. rewrite andb_true_iff, (fneqb_true K), (feqb_ok K).
  split; intros [H1 H2]; split; auto.
  - transitivity (fst s * (pk_x2 pk + ip (pk_y2s pk) ms) + snd s * - pk_g2 pk + snd s * pk_g2 pk); [ring|].
    rewrite H2. ring.
  - rewrite H2. ring. Qed.

Lemma verify_false_iff (pk : pkey K) ms s : verify pk ms s = false <-> ~ ps_relation pk ms s.
Proof. rewrite <- verify_iff. destruct (verify pk ms s); split; congruence. Qed.

(** a key pair as produced by [KeyPair::new] (any draws with g2 <> 0) *)
Definition key_ok (sk : skey K) (pk : pkey K) : Prop :=
  pk_g2 pk <> f0 /\
  pk_x2 pk = pk_g2 pk * sk_x sk /\
  pk_y2s pk = map (fun y => pk_g2 pk * y) (sk_ys sk) /\
  pk_y1s pk = map (fun y => pk_g1 pk * y) (sk_ys sk) /\
  sk_x1 sk = pk_g1 pk * sk_x sk.

Lemma keygen_ok g1 x ys g2 : g2 <> f0 -> key_ok (fst (keygen g1 x ys g2)) (snd (keygen g1 x ys g2)).
Proof. intros H. unfold key_ok; simpl. auto. Qed.

(** Under a consistent key, verification is the statement  s2 = s1 * (x + <ys, m>). *)
Lemma verify_key_ok (sk : skey K) (pk : pkey K) ms s : key_ok sk pk ->
  (verify pk ms s = true <-> fst s <> f0 /\ snd s = fst s * (sk_x sk + ip (sk_ys sk) ms)).
Proof. intros (Hg & Hx & Hy2 & _ & _). rewrite verify_iff. unfold ps_relation.
  rewrite Hx, Hy2, (ip_map_mul K).
  split; intros [H1 H2]; split; auto.
  - apply (fmul_cancel_l K (pk_g2 pk)); [assumption|].
    transitivity (snd s * pk_g2 pk); [ring|]. rewrite <- H2. ring.
  - rewrite H2. ring. Qed.

Theorem sign_verifies (sk : skey K) (pk : pkey K) h ms : key_ok sk pk -> h <> f0 -> verify pk ms (sign sk h ms) = true.
Proof. intros Hk Hh. apply (verify_key_ok sk pk); auto. Qed.

Theorem randomize_verify (pk : pkey K) ms r s :
  verify pk ms (randomize r s) = fneqb r f0 && verify pk ms s.
Proof. apply eq_true_iff_eq. rewrite andb_true_iff, !verify_iff, (fneqb_true K). unfold ps_relation, randomize; simpl.
  split.
  - intros [H1 H2]. assert (Hr : r <> f0) by (intros ->; apply H1; ring).
    assert (Hs : fst s <> f0) by (intros E; apply H1; rewrite E; ring).
    repeat split; auto. apply (fmul_cancel_l K r); [assumption|].
    transitivity (fst s * r * (pk_x2 pk + ip (pk_y2s pk) ms)); [ring|]. rewrite H2. ring.
  - intros [Hr [H1 H2]]. split; [now apply (fmul_neq0 K)|].
    transitivity (r * (fst s * (pk_x2 pk + ip (pk_y2s pk) ms))); [ring|]. rewrite H2. ring. Qed.

Corollary randomize_nonzero_verifies (pk : pkey K) ms r s : r <> f0 -> verify pk ms s = true ->
  verify pk ms (randomize r s) = true.
Proof. intros Hr Hv. rewrite randomize_verify, Hv. apply (fneqb_true K) in Hr. now rewrite Hr. Qed.

Corollary randomize_zero_rejected (pk : pkey K) ms s : verify pk ms (randomize f0 s) = false.
Proof. rewrite randomize_verify. unfold fneqb. now rewrite (feqb_refl K). Qed.

Theorem all_identity_rejects (pk : pkey K) ms s2 : verify pk ms (f0, s2) = false.
Proof. unfold verify, is_well_formed, fneqb; simpl. now rewrite (feqb_refl K). Qed.

Theorem unblind_blind r bf (s : sigt K) : unblind bf (blind_and_randomize r bf s) = randomize r s.
Proof. unfold unblind, blind_and_randomize, randomize; simpl. f_equal. ring. Qed.

(** blind signature on the commitment to [ms], unblinded with the same factor, is a signature on [ms] *)
Theorem blind_sign_unblind (sk : skey K) (pk : pkey K) u bf ms : key_ok sk pk -> pk_g1 pk <> f0 -> u <> f0 ->
  verify pk ms (unblind bf (blind_sign sk pk u (blind pk ms bf))) = true.
Proof. intros Hk Hg Hu. apply (verify_key_ok sk pk _ _ Hk). destruct Hk as (_ & _ & _ & Hy1 & Hx1).
  unfold unblind, blind_sign, blind, commit; simpl. split; [now apply (fmul_neq0 K)|].
  rewrite Hy1, Hx1, (ip_map_mul K). ring. Qed.

(** what the unblinded blind signature is, for ANY commitment [c]: a signature "on" the G1 element x1 + c - g1*bf *)
Lemma blind_sign_unblind_value (sk : skey K) (pk : pkey K) u bf c :
  unblind bf (blind_sign sk pk u c) = (pk_g1 pk * u, (sk_x1 sk + c - pk_g1 pk * bf) * u).
Proof. unfold unblind, blind_sign; simpl. f_equal. ring. Qed.

(** a signature valid on [ms] is valid on [ms'] iff <y~, ms - ms'> = 0 *)
Theorem verify_other_message (pk : pkey K) ms ms' s : verify pk ms s = true ->
  (verify pk ms' s = true <-> ip (pk_y2s pk) ms = ip (pk_y2s pk) ms').
Proof. rewrite !verify_iff. unfold ps_relation. intros [H1 H2]. split.
  - intros [_ H3]. apply (fmul_cancel_l K (fst s)); [assumption|].
    apply (fadd_cancel_l K (fst s * pk_x2 pk)).
    transitivity (fst s * (pk_x2 pk + ip (pk_y2s pk) ms)); [ring|]. rewrite H2, <- H3. ring.
  - intros E. split; [assumption|]. rewrite <- E. exact H2. Qed.

Theorem single_coordinate_rejects (pk : pkey K) ms s j v : verify pk ms s = true ->
  (j < length ms)%nat -> (j < length (pk_y2s pk))%nat -> nth j (pk_y2s pk) f0 <> f0 -> v <> nth j ms f0 ->
  verify pk (upd j v ms) s = false.
Proof. intros Hv Hm Hy Hyj Hne. destruct (verify pk (upd j v ms) s) eqn:E; [exfalso|reflexivity].
  apply (verify_other_message pk ms (upd j v ms) s Hv) in E. rewrite (ip_upd K) in E by assumption.
  assert (E' : nth j (pk_y2s pk) f0 * (v - nth j ms f0) = f0).
  { transitivity (ip (pk_y2s pk) ms + nth j (pk_y2s pk) f0 * (v - nth j ms f0) - ip (pk_y2s pk) ms); [ring|].
    rewrite <- E. ring. }
  destruct (fmul_eq0 K _ _ E') as [|E'']; [contradiction|]. apply Hne. now apply (fsub_eq0 K). Qed.

(** unblinding with another factor *)
(** ** why key exponents and signature bases must be independent draws (what the generation checks of C19 / C13 watch).
    (1) moving value [d] from coordinate [j] to coordinate [i] changes <y~, m> by (y~_i - y~_j) * d: a signature stays valid
    exactly when the two exponents coincide (or d = 0) - so with pairwise different exponents every such move is rejected,
    and with equal exponents every such move is accepted. *)
Theorem moved_value_iff (pk : pkey K) ms s i j d : verify pk ms s = true ->
  (i < length ms)%nat -> (j < length ms)%nat -> (i < length (pk_y2s pk))%nat -> (j < length (pk_y2s pk))%nat -> i <> j ->
  (verify pk (upd i (nth i ms f0 + d) (upd j (nth j ms f0 - d) ms)) s = true <->
   (nth i (pk_y2s pk) f0 - nth j (pk_y2s pk) f0) * d = f0).
Proof. intros Hv Hi Hj Hyi Hyj Hij.
  rewrite (verify_other_message pk ms _ s Hv).
  rewrite (ip_upd K) by (rewrite ?upd_length; assumption).
  rewrite (ip_upd K) by assumption.
  rewrite (nth_upd_other i j) by assumption.
  split; intros E.
  - transitivity (ip (pk_y2s pk) ms + nth j (pk_y2s pk) f0 * (nth j ms f0 - d - nth j ms f0)
                  + nth i (pk_y2s pk) f0 * (nth i ms f0 + d - nth i ms f0) - ip (pk_y2s pk) ms); [ring|].
    rewrite <- E. ring.
  - transitivity (ip (pk_y2s pk) ms + (nth i (pk_y2s pk) f0 - nth j (pk_y2s pk) f0) * d); [rewrite E; ring | ring]. Qed.

Corollary moved_value_rejected (pk : pkey K) ms s i j d : verify pk ms s = true ->
  (i < length ms)%nat -> (j < length ms)%nat -> (i < length (pk_y2s pk))%nat -> (j < length (pk_y2s pk))%nat -> i <> j ->
  nth i (pk_y2s pk) f0 <> nth j (pk_y2s pk) f0 -> d <> f0 ->
  verify pk (upd i (nth i ms f0 + d) (upd j (nth j ms f0 - d) ms)) s = false.
Proof. intros Hv Hi Hj Hyi Hyj Hij Hne Hd.
  destruct (verify pk (upd i (nth i ms f0 + d) (upd j (nth j ms f0 - d) ms)) s) eqn:E; [exfalso|reflexivity].
  apply (moved_value_iff pk ms s i j d Hv Hi Hj Hyi Hyj Hij) in E.
  destruct (fmul_eq0 K _ _ E) as [E'|E']; [|contradiction]. apply Hne. now apply (fsub_eq0 K). Qed.

(** (2) two signatures made with ONE base h on messages m0 <> m1 (single-message key) give, by interpolation, a valid signature
    on EVERY message m - so published digit signatures must not share their base. *)
Theorem shared_base_signatures_forge (sk : skey K) (pk : pkey K) (h m0 m1 m : K) : key_ok sk pk -> h <> f0 -> m1 - m0 <> f0 ->
  length (sk_ys sk) = 1%nat ->
  let s0 := sign sk h [m0] in let s1 := sign sk h [m1] in
  verify pk [m] (h, snd s0 + (m - m0) / (m1 - m0) * (snd s1 - snd s0)) = true.
Proof. intros Hk Hh Hm Hl s0 s1. subst s0 s1. apply (verify_key_ok sk pk _ _ Hk). unfold sign. cbn [fst snd]. split; [exact Hh|].
  destruct (sk_ys sk) as [|y [|? ?]]; try discriminate. cbn [ip]. field. exact Hm. Qed.

Theorem wrong_bf_rejects (pk : pkey K) ms s bf bf' : pk_g2 pk <> f0 -> bf' <> bf ->
  verify pk ms (unblind bf s) = true -> verify pk ms (unblind bf' s) = false.
Proof. intros Hg Hb Hv. apply verify_false_iff. apply verify_iff in Hv.
  unfold ps_relation, unblind in *; simpl in *. destruct Hv as [H1 H2]. intros [_ H3].
  assert (E : fst s * (bf' - bf) * pk_g2 pk = f0).
  { transitivity ((snd s - fst s * bf) * pk_g2 pk - (snd s - fst s * bf') * pk_g2 pk); [ring|].
    rewrite <- H2, <- H3. ring. }
  destruct (fmul_eq0 K _ _ E) as [E1|]; [|contradiction].
  destruct (fmul_eq0 K _ _ E1) as [|E2]; [contradiction|]. apply Hb. now apply (fsub_eq0 K). Qed.

(** a valid signature stops verifying when X~ or g~ of the key is changed *)
Theorem x2_change_rejects (pk : pkey K) ms s x2' : x2' <> pk_x2 pk -> verify pk ms s = true ->
  verify (mkPk (pk_g1 pk) (pk_y1s pk) (pk_g2 pk) x2' (pk_y2s pk)) ms s = false.
Proof. intros Hx Hv. apply verify_false_iff. apply verify_iff in Hv.
  unfold ps_relation in *; simpl. destruct Hv as [H1 H2]. intros [_ H3].
  assert (E : fst s * (x2' - pk_x2 pk) = f0).
  { transitivity (fst s * (x2' + ip (pk_y2s pk) ms) - fst s * (pk_x2 pk + ip (pk_y2s pk) ms)); [ring|].
    rewrite H2, H3. ring. }
  destruct (fmul_eq0 K _ _ E) as [|E2]; [contradiction|]. apply Hx. now apply (fsub_eq0 K). Qed.

Theorem g2_change_rejects (pk : pkey K) ms s g2' : g2' <> pk_g2 pk -> snd s <> f0 -> verify pk ms s = true ->
  verify (mkPk (pk_g1 pk) (pk_y1s pk) g2' (pk_x2 pk) (pk_y2s pk)) ms s = false.
Proof. intros Hg Hs Hv. apply verify_false_iff. apply verify_iff in Hv.
  unfold ps_relation in *; simpl. destruct Hv as [H1 H2]. intros [_ H3].
  assert (E : snd s * (g2' - pk_g2 pk) = f0).
  { transitivity (snd s * g2' - snd s * pk_g2 pk); [ring|]. rewrite <- H2, <- H3. ring. }
  destruct (fmul_eq0 K _ _ E) as [|E2]; [contradiction|]. apply Hg. now apply (fsub_eq0 K). Qed.

Theorem y2_change_rejects (pk : pkey K) ms s j y' : verify pk ms s = true ->
  (j < length ms)%nat -> (j < length (pk_y2s pk))%nat -> nth j ms f0 <> f0 -> y' <> nth j (pk_y2s pk) f0 ->
  verify (mkPk (pk_g1 pk) (pk_y1s pk) (pk_g2 pk) (pk_x2 pk) (upd j y' (pk_y2s pk))) ms s = false.
Proof. intros Hv Hm Hy Hmj Hne. apply verify_false_iff. apply verify_iff in Hv.
  unfold ps_relation in *; simpl. destruct Hv as [H1 H2]. intros [_ H3].
  assert (C : forall (a b : list K) j v, (j < length a)%nat -> (j < length b)%nat ->
            ip (upd j v a) b = ip a b + (v - nth j a f0) * nth j b f0).
  { induction a as [|x a IH]; intros [|y b] [|i] w Ha Hb; simpl in *; try lia; try ring.
    rewrite IH by lia. ring. }
  rewrite C in H3 by assumption.
  assert (E : fst s * ((y' - nth j (pk_y2s pk) f0) * nth j ms f0) = f0).
  { transitivity (fst s * (pk_x2 pk + (ip (pk_y2s pk) ms + (y' - nth j (pk_y2s pk) f0) * nth j ms f0))
                  - fst s * (pk_x2 pk + ip (pk_y2s pk) ms)); [ring|]. rewrite H2, H3. ring. }
  destruct (fmul_eq0 K _ _ E) as [|E2]; [contradiction|].
  destruct (fmul_eq0 K _ _ E2) as [E3|]; [|contradiction]. apply Hne. now apply (fsub_eq0 K). Qed.

(** the all-zero message: the X~ term stays - verification is e(s1, X~) = e(s2, g~), and under a generated key the only
    signatures are (h, h x) *)
Theorem verify_zero_message (pk : pkey K) n s :
  verify pk (repeat f0 n) s = true <-> fst s <> f0 /\ fst s * pk_x2 pk = snd s * pk_g2 pk.
Proof. rewrite verify_iff. unfold ps_relation. rewrite (ip_zero_r K).
  split; intros [H1 H2]; split; auto; [rewrite <- H2 | rewrite <- H2]; ring. Qed.

Theorem zero_message_signature_is_h_hx (sk : skey K) (pk : pkey K) n s : key_ok sk pk ->
  (verify pk (repeat f0 n) s = true <-> fst s <> f0 /\ snd s = fst s * sk_x sk).
Proof. intros Hk. rewrite (verify_key_ok sk pk) by assumption. rewrite (ip_zero_r K).
  split; intros [H1 H2]; split; auto; rewrite H2; ring. Qed.

Theorem zero_message_not_signed_by_trivial_pair (sk : skey K) (pk : pkey K) n h : key_ok sk pk -> sk_x sk <> f0 ->
  verify pk (repeat f0 n) (h, f0) = false.
Proof. intros Hk Hx. apply verify_false_iff. intros H. apply verify_iff in H.
  apply (zero_message_signature_is_h_hx sk pk n (h, f0) Hk) in H. simpl in H. destruct H as [H1 H2].
  symmetry in H2. destruct (fmul_eq0 K _ _ H2); contradiction. Qed.

End P.
