From Coq Require Import ZArith Lia Bool.
From ZK Require Import Model.Field Model.Zq Model.QBls Model.Amount Model.Range Proofs.FieldFacts Proofs.IdsProofs Proofs.RangeProofs.
Open Scope Z_scope.

Ltac unfold_ranges := unfold is_u64, is_i64, i64_min, i64_max, u64_max in *.

(** ** constructors *)
Theorem try_new_spec v : is_u64 v ->
  (v <= i64_max -> balance_try_new v = Ok v) /\ (v > i64_max -> balance_try_new v = Err (AmountTooLarge v)).
Proof. intros Hv. unfold balance_try_new. destruct (Z.gtb_spec v i64_max); split; intros; try lia; reflexivity. Qed.

Theorem try_new_ok_iff v b : is_u64 v -> (balance_try_new v = Ok b <-> b = v /\ 0 <= v <= i64_max).
Proof. intros Hv. unfold balance_try_new. unfold_ranges. destruct (Z.gtb_spec v (2 ^ 63 - 1)); split.
  - discriminate. - lia. - intros [= <-]. lia. - intros [-> _]. reflexivity. Qed.

Theorem pay_merchant_spec amount : is_u64 amount ->
  (amount <= i64_max -> pay_merchant amount = Ok amount) /\
  (amount > i64_max -> pay_merchant amount = Err (AmountTooLarge amount)).
Proof. intros Hv. unfold pay_merchant. destruct (Z.leb_spec amount i64_max); split; intros; try lia; reflexivity. Qed.

Theorem pay_customer_spec amount : is_u64 amount ->
  (amount <= i64_max -> pay_customer amount = Ok (- amount) /\ is_i64 (- amount)) /\
  (amount > i64_max -> pay_customer amount = Err (AmountTooLarge amount)).
Proof. intros Hv. unfold pay_customer. unfold_ranges. destruct (Z.leb_spec amount (2 ^ 63 - 1)); split; intros; try lia; auto.
  split; [reflexivity|lia]. Qed.

(** ** payment application: total, exact, range preserving, for every balance that can exist (<= i64::MAX) and
    every i64 amount (including i64::MIN, which decodes from the wire) *)
Theorem merchant_apply_spec b a : 0 <= b <= i64_max -> is_i64 a ->
  (0 <= b + a <= i64_max -> merchant_apply b a = Ok (b + a)) /\
  (b + a < 0 -> merchant_apply b a = Err InsufficientFunds) /\
  (b + a > i64_max -> merchant_apply b a = Err (AmountTooLarge (b + a))).
Proof. intros Hb Ha. unfold merchant_apply, apply_signed, balance_try_new, wrap_u64. unfold_ranges.
  destruct (Z.ltb_spec (b + a) 0).
  - repeat split; intros; try lia; reflexivity.
  - rewrite Z.mod_small by lia. destruct (Z.gtb_spec (b + a) (2 ^ 63 - 1)); repeat split; intros; try lia; reflexivity. Qed.

Theorem customer_apply_spec b a : 0 <= b <= i64_max -> is_i64 a ->
  (0 <= b - a <= i64_max -> customer_apply b a = Ok (b - a)) /\
  (b - a < 0 -> customer_apply b a = Err InsufficientFunds) /\
  (b - a > i64_max -> customer_apply b a = Err (AmountTooLarge (b - a))).
Proof. intros Hb Ha. unfold customer_apply, apply_signed, balance_try_new, wrap_u64. unfold_ranges.
  destruct (Z.ltb_spec (b - a) 0).
  - repeat split; intros; try lia; reflexivity.
  - rewrite Z.mod_small by lia. destruct (Z.gtb_spec (b - a) (2 ^ 63 - 1)); repeat split; intros; try lia; reflexivity. Qed.

(** a payment succeeds exactly when both results stay in range, returns exactly the integer results and conserves the sum;
    otherwise the customer's error is reported first *)
Lemma apply_payment_ok_inv cb mb a cb' mb' : 0 <= cb <= i64_max -> 0 <= mb <= i64_max -> is_i64 a ->
  apply_payment cb mb a = Ok (cb', mb') ->
  cb' = cb - a /\ mb' = mb + a /\ 0 <= cb' <= i64_max /\ 0 <= mb' <= i64_max /\ cb' + mb' = cb + mb.
Proof. intros Hc Hm Ha H.
  destruct (customer_apply_spec cb a Hc Ha) as (C1 & C2 & C3).
  destruct (merchant_apply_spec mb a Hm Ha) as (M1 & M2 & M3).
  unfold apply_payment in H.
  destruct (Z_lt_dec (cb - a) 0); [rewrite C2 in H by lia; discriminate|].
  destruct (Z_gt_dec (cb - a) i64_max); [rewrite C3 in H by lia; discriminate|]. rewrite C1 in H by lia.
  destruct (Z_lt_dec (mb + a) 0); [rewrite M2 in H by lia; discriminate|].
  destruct (Z_gt_dec (mb + a) i64_max); [rewrite M3 in H by lia; discriminate|]. rewrite M1 in H by lia.
  injection H as <- <-. lia. Qed.

Theorem apply_payment_spec cb mb a : 0 <= cb <= i64_max -> 0 <= mb <= i64_max -> is_i64 a ->
  (0 <= cb - a <= i64_max /\ 0 <= mb + a <= i64_max -> apply_payment cb mb a = Ok (cb - a, mb + a)) /\
  (forall cb' mb', apply_payment cb mb a = Ok (cb', mb') ->
     cb' = cb - a /\ mb' = mb + a /\ 0 <= cb' <= i64_max /\ 0 <= mb' <= i64_max /\ cb' + mb' = cb + mb) /\
  (cb - a < 0 -> apply_payment cb mb a = Err InsufficientFunds) /\
  (cb - a > i64_max -> apply_payment cb mb a = Err (AmountTooLarge (cb - a))) /\
  (0 <= cb - a <= i64_max -> mb + a < 0 -> apply_payment cb mb a = Err InsufficientFunds) /\
  (0 <= cb - a <= i64_max -> mb + a > i64_max -> apply_payment cb mb a = Err (AmountTooLarge (mb + a))).
Proof. intros Hc Hm Ha.
  destruct (customer_apply_spec cb a Hc Ha) as (C1 & C2 & C3).
  destruct (merchant_apply_spec mb a Hm Ha) as (M1 & M2 & M3).
  split; [|split; [|split; [|split; [|split]]]].
  - intros [H1 H2]. unfold apply_payment. now rewrite C1, M1.
  - intros cb' mb' H. now apply apply_payment_ok_inv.
  - intros H. unfold apply_payment. now rewrite C2.
  - intros H. unfold apply_payment. now rewrite C3.
  - intros H1 H2. unfold apply_payment. now rewrite C1, M2.
  - intros H1 H2. unfold apply_payment. now rewrite C1, M3. Qed.

(** [try_add] never overflows - in either profile - given the decoder's invariant on both operands *)
Theorem try_add_spec pr mb cb : 0 <= mb <= i64_max -> 0 <= cb <= i64_max ->
  try_add pr mb cb = Val (balance_try_new (mb + cb)).
Proof. intros Hm Hc. unfold try_add, u64_add. unfold_ranges. destruct (Z.leb_spec (mb + cb) (2 ^ 64 - 1)); [reflexivity|lia]. Qed.

(** without the invariant the sum can overflow: this is why the balance decoder must validate (D2) *)
Theorem try_add_overflows_without_invariant : try_add Debug u64_max 1 = Panics /\ exists w, try_add Release u64_max 1 = Val (Ok w) /\ w = 0.
Proof. split; [reflexivity|]. eexists. split; reflexivity. Qed.

Theorem balance_decode_spec v b : is_u64 v -> (balance_decode v = Some b <-> b = v /\ v <= i64_max).
Proof. intros Hv. unfold balance_decode. destruct (try_new_spec v Hv) as [H1 H2]. unfold_ranges.
  destruct (Z_le_gt_dec v (2 ^ 63 - 1)).
  - rewrite H1 by lia. split; [intros [= <-]; lia | intros [-> _]; reflexivity].
  - rewrite H2 by lia. split; [discriminate | lia]. Qed.

(** ** scalar encodings *)
Section Enc.
Variable K : Fld.
Add Field Kf7 : (Fth K).
Local Open Scope fld_scope.

(** the repaired encoding is total and is the ring image of the integer, for EVERY i64 (incl. i64::MIN) *)
Theorem amount_scalar_spec a : amount_scalar (K:=K) a = of_Z a.
Proof. unfold amount_scalar, i64_unsigned_abs. destruct (Z.ltb_spec a 0).
  - replace a with (- Z.abs a)%Z at 2 by lia. rewrite (of_Z_opp K). ring.
  - reflexivity. Qed.

Theorem encoding_homomorphic_customer (b a : Z) : balance_scalar (K:=K) b - amount_scalar a = balance_scalar (b - a).
Proof. unfold balance_scalar. rewrite amount_scalar_spec, (of_Z_sub K). reflexivity. Qed.

Theorem encoding_homomorphic_merchant (b a : Z) : balance_scalar (K:=K) b + amount_scalar a = balance_scalar (b + a).
Proof. unfold balance_scalar. rewrite amount_scalar_spec, (of_Z_add K). reflexivity. Qed.

(** the pinned encoding panics on i64::MIN with overflow checks on *)
Theorem pinned_amount_min_overflows : amount_scalar_pinned (K:=K) Debug i64_min = Panics.
Proof. reflexivity. Qed.

Theorem pinned_agrees_elsewhere pr a : (i64_min < a <= i64_max)%Z -> amount_scalar_pinned (K:=K) pr a = Val (of_Z a).
Proof. intros Ha. unfold amount_scalar_pinned, i64_abs, wrap_u64. unfold_ranges. destruct (Z.ltb_spec a 0); [|reflexivity].
  destruct (Z.eqb_spec a (- 2 ^ 63)); [lia|]. rewrite Z.mod_small by lia.
  replace a with (- Z.abs a)%Z at 2 by lia. rewrite (of_Z_opp K). f_equal. ring. Qed.
Theorem encoding_homomorphic (b a : Z) :
  balance_scalar (K:=K) b - amount_scalar a = balance_scalar (b - a) /\ balance_scalar (K:=K) b + amount_scalar a = balance_scalar (b + a).
Proof. split; [apply encoding_homomorphic_customer | apply encoding_homomorphic_merchant]. Qed.
End Enc.

(** in the BLS12-381 scalar field the encoding is injective on [0, q): field equations between encoded balances
    are integer equations *)
Theorem encoding_injective x y : 0 <= x < q_bls -> 0 <= y < q_bls -> @of_Z Fq x = @of_Z Fq y -> x = y.
Proof. intros Hx Hy E. rewrite !of_Z_fq in E. apply (f_equal val) in E. cbn in E.
  rewrite !Z.mod_small in E by lia. exact E. Qed.

(** the amount encoding is injective on all i64 values *)
Theorem amount_encoding_injective_on_i64 a a' : is_i64 a -> is_i64 a' -> amount_scalar (K:=Fq) a = amount_scalar a' -> a = a'.
Proof. intros Ha Ha' E. rewrite !(amount_scalar_spec Fq) in E.
  apply scalar_encoding_injective_within_q; [|exact E]. unfold is_i64, i64_min, i64_max in *.
  assert (Q : 2 ^ 64 < q_bls) by (apply Z.ltb_lt; reflexivity). lia. Qed.

(** ** from the field equations of an accepted payment to integer arithmetic (BLS12-381 scalar field).
    What special soundness extracts (C02) is: the new balance is [horner] of nine digit messages, and equals the old balance
    minus / plus the encoded amount IN THE FIELD.  If the digit messages are genuine digits (each in [0,128): what the range
    key's signatures attest) and the old balance and the amount are in their machine ranges, the same holds over the integers:
    no wrap-around modulo q can hide an overdraft. *)
Theorem digits_give_integer_in_range ds : length ds = 9%nat -> Forall (fun d => (0 <= d < 128)%Z) ds ->
  horner Fq (map (@of_Z Fq) ds) = of_Z (zweighted ds) /\ (0 <= zweighted ds <= i64_max)%Z.
Proof. intros Hl Hd. split; [apply (horner_of_Z Fq)|]. unfold i64_max. now apply digit_sum_bound. Qed.

Theorem customer_balance_update_is_integer_update (ob a v : Z) :
  (0 <= ob <= i64_max)%Z -> is_i64 a -> (0 <= v <= i64_max)%Z ->
  @of_Z Fq v = fsub (balance_scalar (K:=Fq) ob) (amount_scalar a) -> v = (ob - a)%Z.
Proof. intros Ho Ha Hv E. rewrite (encoding_homomorphic_customer Fq) in E. unfold balance_scalar in E.
  apply scalar_encoding_injective_within_q; [|exact E]. unfold is_i64, i64_min, i64_max in *.
  assert (Q : 2 ^ 66 < q_bls) by (apply Z.ltb_lt; reflexivity). lia. Qed.

Theorem merchant_balance_update_is_integer_update (ob a v : Z) :
  (0 <= ob <= i64_max)%Z -> is_i64 a -> (0 <= v <= i64_max)%Z ->
  @of_Z Fq v = fadd (balance_scalar (K:=Fq) ob) (amount_scalar a) -> v = (ob + a)%Z.
Proof. intros Ho Ha Hv E. rewrite (encoding_homomorphic_merchant Fq) in E. unfold balance_scalar in E.
  apply scalar_encoding_injective_within_q; [|exact E]. unfold is_i64, i64_min, i64_max in *.
  assert (Q : 2 ^ 66 < q_bls) by (apply Z.ltb_lt; reflexivity). lia. Qed.

(** hence: an accepted payment whose extracted digits are genuine moves exactly [a] from one integer balance to the other,
    both results stay in [0, 2^63-1], and the amount cannot exceed what the payer had *)
Corollary accepted_payment_moves_exactly_the_amount (ocb omb a : Z) dsc dsm :
  (0 <= ocb <= i64_max)%Z -> (0 <= omb <= i64_max)%Z -> is_i64 a ->
  length dsc = 9%nat -> Forall (fun d => (0 <= d < 128)%Z) dsc ->
  length dsm = 9%nat -> Forall (fun d => (0 <= d < 128)%Z) dsm ->
  horner Fq (map (@of_Z Fq) dsc) = fsub (balance_scalar (K:=Fq) ocb) (amount_scalar a) ->
  horner Fq (map (@of_Z Fq) dsm) = fadd (balance_scalar (K:=Fq) omb) (amount_scalar a) ->
  zweighted dsc = (ocb - a)%Z /\ zweighted dsm = (omb + a)%Z /\
  (0 <= ocb - a <= i64_max)%Z /\ (0 <= omb + a <= i64_max)%Z /\ (zweighted dsc + zweighted dsm = ocb + omb)%Z.
Proof. intros Hc Hm Ha L1 F1 L2 F2 E1 E2.
  destruct (digits_give_integer_in_range dsc L1 F1) as [H1 R1]. destruct (digits_give_integer_in_range dsm L2 F2) as [H2 R2].
  rewrite H1 in E1. rewrite H2 in E2.
  pose proof (customer_balance_update_is_integer_update ocb a _ Hc Ha R1 E1) as I1.
  pose proof (merchant_balance_update_is_integer_update omb a _ Hm Ha R2 E2) as I2.
  rewrite I1, I2 in *. repeat split; lia. Qed.
