From Coq Require Import ZArith List Bool Lia.
From ZK Require Import Model.Field Model.Ids Model.Wire Proofs.IdsProofs.
Import ListNotations.
Open Scope Z_scope.

(** ** bytes *)
Lemma take_app (n : nat) (b rest : list Z) : length b = n -> take n (b ++ rest) = Some (b, rest).
Proof. intros L. unfold take. rewrite app_length. destruct (Nat.leb_spec n (length b + length rest)); [|lia].
  rewrite firstn_app, skipn_app, L, Nat.sub_diag. simpl. rewrite <- L, firstn_all, skipn_all, app_nil_r. reflexivity. Qed.

Lemma take_some (n : nat) (bs b rest : list Z) : take n bs = Some (b, rest) -> bs = b ++ rest /\ length b = n.
Proof. unfold take. destruct (Nat.leb_spec n (length bs)); [|discriminate]. intros [= <- <-].
  split; [symmetry; apply firstn_skipn | apply firstn_length_le; assumption]. Qed.

Lemma Forall_app_inv {A} (P : A -> Prop) (a b : list A) : Forall P (a ++ b) -> Forall P a /\ Forall P b.
Proof. intros H. apply Forall_app in H. exact H. Qed.

Lemma Z_to_le_length n z : length (Z_to_le n z) = n.
Proof. revert z; induction n; intros z; simpl; auto. Qed.

Lemma Z_to_le_bytes n z : Forall is_byte (Z_to_le n z).
Proof. revert z; induction n; intros z; simpl; constructor; auto. unfold is_byte. apply Z.mod_pos_bound. lia. Qed.

Lemma le_to_Z_range (bs : list Z) : Forall is_byte bs -> 0 <= le_to_Z bs < 256 ^ Z.of_nat (length bs).
Proof. induction 1 as [|b bs Hb _ IH]; [simpl; lia|]. unfold is_byte in Hb.
  cbn [le_to_Z length]. rewrite Nat2Z.inj_succ, Z.pow_succ_r by lia. lia. Qed.

Lemma le_roundtrip_bytes (bs : list Z) : Forall is_byte bs -> Z_to_le (length bs) (le_to_Z bs) = bs.
Proof. induction 1 as [|b bs Hb _ IH]; [reflexivity|]. unfold is_byte in Hb. cbn [le_to_Z length Z_to_le].
  assert (E1 : (b + 256 * le_to_Z bs) mod 256 = b) by (symmetry; apply (Z.mod_unique _ _ (le_to_Z bs)); lia).
  assert (E2 : (b + 256 * le_to_Z bs) / 256 = le_to_Z bs) by (symmetry; apply (Z.div_unique _ _ (le_to_Z bs) b); lia).
  rewrite E1, E2, IH. reflexivity. Qed.

(** ** results *)
Lemma dbind_res {A B} (r : dres A) (f : A -> list Z -> dres B) b rest :
  res_of (dbind r f) = Some (b, rest) <-> exists a r1, res_of r = Some (a, r1) /\ res_of (f a r1) = Some (b, rest).
Proof. destruct r as [a r1 al| |]; simpl.
  - destruct (f a r1) as [b' r2 al'| |] eqn:E; simpl; split.
    + intros [= <- <-]. exists a, r1. rewrite E. auto.
    + intros (a0 & r0 & [= <- <-] & H). rewrite E in H. exact H.
    + discriminate. + intros (a0 & r0 & [= <- <-] & H). rewrite E in H. discriminate.
    + discriminate. + intros (a0 & r0 & [= <- <-] & H). rewrite E in H. discriminate.
  - split; [discriminate | intros (a0 & r0 & H & _); discriminate].
  - split; [discriminate | intros (a0 & r0 & H & _); discriminate]. Qed.

Lemma dbind_panic {A B} (r : dres A) (f : A -> list Z -> dres B) :
  r <> DPanic -> (forall a rest, f a rest <> DPanic) -> dbind r f <> DPanic.
Proof. intros Hr Hf. destruct r as [a r1 al| |]; simpl; [|discriminate|congruence].
  specialize (Hf a r1). destruct (f a r1); congruence. Qed.

Lemma dbind_alloc {A B} (r : dres A) (f : A -> list Z -> dres B) m :
  alloc_of r <= m -> (forall a rest, alloc_of (f a rest) <= m) -> 0 <= m -> alloc_of (dbind r f) <= m.
Proof. intros Hr Hf Hm. destruct r as [a r1 al| |]; simpl in *; try lia.
  specialize (Hf a r1). destruct (f a r1); simpl in *; lia. Qed.

(** ** atoms *)
Theorem ok_atom {A} (n : nat) (parse : list Z -> option A) (ser : A -> list Z) (ok : A -> Prop) :
  (forall a, ok a -> length (ser a) = n /\ parse (ser a) = Some a) ->
  (forall b a, length b = n -> Forall is_byte b -> parse b = Some a -> ok a /\ ser a = b) ->
  codec_ok (c_atom n parse ser ok).
Proof. intros H1 H2. constructor; simpl.
  - intros a rest Ha. destruct (H1 a Ha) as [L P]. rewrite (take_app n _ _ L), P. reflexivity.
  - intros bs a rest Hb. destruct (take n bs) as [[b r]|] eqn:E; [|discriminate].
    apply take_some in E. destruct E as [-> L]. apply Forall_app_inv in Hb. destruct Hb as [Hb _].
    destruct (parse b) as [a'|] eqn:P; [|discriminate]. intros [= <- <-].
    destruct (H2 b a' L Hb P) as [Ho <-]. auto.
  - intros bs. destruct (take n bs) as [[b r]|]; [|discriminate]. destruct (parse b); discriminate.
  - intros bs. destruct (take n bs) as [[b r]|]; simpl; [|lia]. destruct (parse b); simpl; lia. Qed.

(** ** pairs and validation *)
Theorem ok_pair {A B} (ca : codec A) (cb : codec B) : codec_ok ca -> codec_ok cb -> codec_ok (c_pair ca cb).
Proof. intros [R1 C1 P1 A1] [R2 C2 P2 A2]. constructor; simpl.
  - intros [a b] rest [Ha Hb]; simpl in *. rewrite <- app_assoc. apply dbind_res. exists a, (enc cb b ++ rest).
    split; [now apply R1|]. apply dbind_res. exists b, rest. split; [now apply R2|reflexivity].
  - intros bs [a b] rest Hbs H. apply dbind_res in H. destruct H as (a' & r1 & H1 & H).
    apply dbind_res in H. destruct H as (b' & r2 & H2 & H). simpl in H. injection H as <- <- <-.
    destruct (C1 bs a' r1 Hbs H1) as [Wa ->]. apply Forall_app_inv in Hbs. destruct Hbs as [_ Hr1].
    destruct (C2 r1 b' r2 Hr1 H2) as [Wb ->]. simpl. rewrite app_assoc. auto.
  - intros bs. apply dbind_panic; [apply P1|]. intros a rest. apply dbind_panic; [apply P2|]. discriminate.
  - intros bs. apply dbind_alloc; [apply A1| |lia]. intros a rest. apply dbind_alloc; [apply A2| |lia]. simpl. lia. Qed.

Theorem ok_validated {A} (c : codec A) (p : A -> bool) : codec_ok c -> codec_ok (c_validated c p).
Proof. intros [R C P Al]. constructor; simpl.
  - intros a rest [Ha Hp]. apply dbind_res. exists a, rest. split; [now apply R|]. now rewrite Hp.
  - intros bs a rest Hbs H. apply dbind_res in H. destruct H as (a' & r1 & H1 & H).
    destruct (p a') eqn:E; [|discriminate]. simpl in H. injection H as <- <-.
    destruct (C bs a' r1 Hbs H1) as [W ->]. auto.
  - intros bs. apply dbind_panic; [apply P|]. intros a rest. destruct (p a); discriminate.
  - intros bs. apply dbind_alloc; [apply Al| |lia]. intros a rest. destruct (p a); simpl; lia. Qed.

(** ** n elements without prefix *)
Theorem ok_tuple {A} (n : nat) (c : codec A) : codec_ok c -> codec_ok (c_tuple n c).
Proof. intros [R C P Al]. constructor; simpl.
  - intros l rest [L F]. subst n. induction F as [|a l Ha _ IH]; [reflexivity|]. cbn [flat_map length dec_n].
    rewrite <- app_assoc. apply dbind_res. exists a, (flat_map (enc c) l ++ rest). split; [now apply R|].
    apply dbind_res. exists l, rest. split; [exact IH|reflexivity].
  - induction n as [|n IH]; intros bs l rest Hbs H; simpl in H.
    + injection H as <- <-. repeat split; auto.
    + apply dbind_res in H. destruct H as (a & r1 & H1 & H). apply dbind_res in H. destruct H as (l' & r2 & H2 & H).
      simpl in H. injection H as <- <-. destruct (C bs a r1 Hbs H1) as [W ->].
      apply Forall_app_inv in Hbs. destruct Hbs as [_ Hr1]. destruct (IH r1 l' r2 Hr1 H2) as [[L F] ->].
      simpl. rewrite app_assoc. repeat split; auto.
  - induction n as [|n IH]; intros bs; simpl; [discriminate|]. apply dbind_panic; [apply P|]. intros a rest.
    apply dbind_panic; [apply IH|]. discriminate.
  - induction n as [|n IH]; intros bs; simpl; [lia|]. apply dbind_alloc; [apply Al| |lia]. intros a rest.
    apply dbind_alloc; [apply IH| |lia]. simpl. lia. Qed.

(** ** length-prefixed arrays ([G; N] through the ArrayVec visitor) *)
Section Arr.
Context {A : Type} (c : codec A) (Hc : codec_ok c).

Lemma go_roundtrip fp cap : forall l acc rest, Forall (wf c) l -> (length acc + length l <= cap)%nat ->
  res_of (dec_array_go c fp cap (length l) acc (flat_map (enc c) l ++ rest)) = Some (rev acc ++ l, rest).
Proof. induction l as [|a l IH]; intros acc rest F L; cbn [length flat_map dec_array_go].
  - simpl. now rewrite app_nil_r.
  - inversion F as [|? ? Wa Fl]; subst. rewrite <- app_assoc.
    pose proof (ok_roundtrip c Hc a (flat_map (enc c) l ++ rest) Wa) as R.
    destruct (dec c (enc c a ++ flat_map (enc c) l ++ rest)) as [a' r' al| |]; try discriminate.
    simpl in R. injection R as -> ->. simpl in L.
    destruct (Nat.ltb_spec (length acc) cap); [|lia].
    specialize (IH (a :: acc) rest Fl ltac:(simpl; lia)).
    destruct (dec_array_go c fp cap (length l) (a :: acc) (flat_map (enc c) l ++ rest)); try discriminate.
    simpl in *. injection IH as -> ->. now rewrite <- app_assoc. Qed.

Lemma go_canonical fp cap : forall todo acc bs l rest, Forall is_byte bs ->
  res_of (dec_array_go c fp cap todo acc bs) = Some (l, rest) ->
  exists l', l = rev acc ++ l' /\ length l' = todo /\ Forall (wf c) l' /\ bs = flat_map (enc c) l' ++ rest.
Proof. induction todo as [|todo IH]; intros acc bs l rest Hb H; cbn [dec_array_go] in H.
  - simpl in H. injection H as <- <-. exists []. rewrite app_nil_r. auto.
  - destruct (dec c bs) as [a r1 al| |] eqn:E; try discriminate.
    destruct (Nat.ltb (length acc) cap); [|destruct fp; discriminate].
    destruct (dec_array_go c fp cap todo (a :: acc) r1) as [l2 r2 al2| |] eqn:E2; try discriminate.
    simpl in H. injection H as <- <-.
    assert (R : res_of (dec c bs) = Some (a, r1)) by (rewrite E; reflexivity).
    destruct (ok_canonical c Hc bs a r1 Hb R) as [Wa ->]. apply Forall_app_inv in Hb. destruct Hb as [_ Hr1].
    assert (R2 : res_of (dec_array_go c fp cap todo (a :: acc) r1) = Some (l2, r2)) by (rewrite E2; reflexivity).
    destruct (IH _ _ _ _ Hr1 R2) as (l' & -> & L & F & ->).
    exists (a :: l'). simpl. rewrite <- !app_assoc. repeat split; auto; simpl; congruence. Qed.

Lemma go_no_panic cap : forall todo acc bs, dec_array_go c false cap todo acc bs <> DPanic.
Proof. induction todo as [|todo IH]; intros acc bs; cbn [dec_array_go]; [discriminate|].
  pose proof (ok_no_panic c Hc bs). destruct (dec c bs) as [a r1 al| |]; try congruence.
  destruct (Nat.ltb (length acc) cap); [|discriminate].
  specialize (IH (a :: acc) r1). destruct (dec_array_go c false cap todo (a :: acc) r1); congruence. Qed.

Lemma go_alloc fp cap : forall todo acc bs, alloc_of (dec_array_go c fp cap todo acc bs) <= 1024.
Proof. induction todo as [|todo IH]; intros acc bs; cbn [dec_array_go]; [simpl; lia|].
  pose proof (ok_alloc c Hc bs). destruct (dec c bs) as [a r1 al| |]; simpl in *; try lia.
  destruct (Nat.ltb (length acc) cap); [|destruct fp; simpl; lia].
  specialize (IH (a :: acc) r1). destruct (dec_array_go c fp cap todo (a :: acc) r1); simpl in *; lia. Qed.

Lemma le8_roundtrip z : 0 <= z < 2 ^ 64 -> take 8 (le8 z) = Some (le8 z, []) /\ le_to_Z (le8 z) = z.
Proof. intros Hz. split.
  - rewrite <- (app_nil_r (le8 z)) at 1. apply take_app. apply Z_to_le_length.
  - apply le_roundtrip. change (256 ^ Z.of_nat 8) with (2 ^ 64). exact Hz. Qed.

Theorem ok_array (n : nat) : Z.of_nat n + 1 < 2 ^ 64 -> codec_ok (c_array n c).
Proof. intros Hn. constructor; cbn [enc dec wf c_array].
  - intros l rest [L F]. unfold dec_array. rewrite L, <- app_assoc, (take_app 8) by apply Z_to_le_length.
    destruct (le8_roundtrip (Z.of_nat n) ltac:(lia)) as [_ ->].
    replace (Z.to_nat (Z.min (Z.of_nat n) (Z.of_nat n + 1))) with (length l) by lia.
    pose proof (go_roundtrip false n l [] rest F ltac:(simpl; lia)) as G.
    destruct (dec_array_go c false n (length l) [] (flat_map (enc c) l ++ rest)); try discriminate.
    simpl in G. injection G as -> ->. rewrite L, Nat.eqb_refl, Z.eqb_refl. reflexivity.
  - intros bs l rest Hb H. unfold dec_array in H. destruct (take 8 bs) as [[lb r]|] eqn:T; [|discriminate].
    apply take_some in T. destruct T as [-> L8]. apply Forall_app_inv in Hb. destruct Hb as [Hlb Hr].
    destruct (dec_array_go c false n _ [] r) as [l2 r2 al|  |] eqn:G; try discriminate.
    destruct (Nat.eqb_spec (length l2) n); [|discriminate]. destruct (Z.eqb_spec (le_to_Z lb) (Z.of_nat n)); [|discriminate].
    simpl in H. injection H as <- <-.
    assert (R : res_of (dec_array_go c false n (Z.to_nat (Z.min (le_to_Z lb) (Z.of_nat n + 1))) [] r) = Some (l2, r2)) by (rewrite G; reflexivity).
    destruct (go_canonical _ _ _ _ _ _ _ Hr R) as (l' & -> & L & F & ->). cbn [rev app] in *.
    split; [split; [assumption|exact F]|]. rewrite <- app_assoc. f_equal.
    unfold le8. rewrite e, <- e0. rewrite <- L8. symmetry. now apply le_roundtrip_bytes.
  - intros bs. unfold dec_array. destruct (take 8 bs) as [[lb r]|]; [|discriminate].
    pose proof (go_no_panic n (Z.to_nat (Z.min (le_to_Z lb) (Z.of_nat n + 1))) [] r).
    destruct (dec_array_go c false n _ [] r); try congruence. destruct (_ && _); discriminate.
  - intros bs. unfold dec_array. destruct (take 8 bs) as [[lb r]|]; simpl; [|lia].
    pose proof (go_alloc false n (Z.to_nat (Z.min (le_to_Z lb) (Z.of_nat n + 1))) [] r).
    destruct (dec_array_go c false n _ [] r); simpl in *; try lia. destruct (_ && _); simpl; lia. Qed.

End Arr.

(** the pinned visitor ([push] on a full ArrayVec) panics on a length prefix of N+1 followed by N+1 elements *)
Definition c_byte : codec Z := c_atom 1 (fun b => match b with [x] => Some x | _ => None end) (fun x => [x]) is_byte.

Example array_pinned_panics : dec (c_array_pinned 2 c_byte) (le8 3 ++ [7; 8; 9]) = DPanic.
Proof. vm_compute. reflexivity. Qed.

Example array_repaired_errors : dec (c_array 2 c_byte) (le8 3 ++ [7; 8; 9]) = DErr 0.
Proof. vm_compute. reflexivity. Qed.

(** ** Vec<G> *)
Section Vec.
Context {A : Type} (c : codec A) (Hc : codec_ok c).
Hypothesis consumes : forall bs a rest, res_of (dec c bs) = Some (a, rest) -> (length rest < length bs)%nat.

Lemma vec_go_roundtrip : forall l fuel acc rest, Forall (wf c) l -> (length l <= fuel)%nat ->
  res_of (dec_vec_go c fuel (Z.of_nat (length l)) acc (flat_map (enc c) l ++ rest)) = Some (rev acc ++ l, rest).
Proof. induction l as [|a l IH]; intros fuel acc rest F L.
  - destruct fuel; simpl; now rewrite app_nil_r.
  - destruct fuel as [|fuel]; [simpl in L; lia|]. cbn [length flat_map].
    rewrite Nat2Z.inj_succ. cbn [dec_vec_go]. destruct (Z.leb_spec (Z.succ (Z.of_nat (length l))) 0); [lia|].
    inversion F as [|? ? Wa Fl]; subst. rewrite <- app_assoc.
    pose proof (ok_roundtrip c Hc a (flat_map (enc c) l ++ rest) Wa) as R.
    destruct (dec c (enc c a ++ flat_map (enc c) l ++ rest)) as [a' r' al| |]; try discriminate.
    simpl in R. injection R as -> ->.
    replace (Z.succ (Z.of_nat (length l)) - 1) with (Z.of_nat (length l)) by lia.
    specialize (IH fuel (a :: acc) rest Fl ltac:(simpl in L; lia)).
    destruct (dec_vec_go c fuel (Z.of_nat (length l)) (a :: acc) (flat_map (enc c) l ++ rest)); try discriminate.
    simpl in *. injection IH as -> ->. now rewrite <- app_assoc. Qed.

Lemma vec_go_canonical : forall fuel todo acc bs l rest, Forall is_byte bs ->
  res_of (dec_vec_go c fuel todo acc bs) = Some (l, rest) ->
  exists l', l = rev acc ++ l' /\ Z.of_nat (length l') = Z.max todo 0 /\ Forall (wf c) l' /\ bs = flat_map (enc c) l' ++ rest.
Proof. induction fuel as [|fuel IH]; intros todo acc bs l rest Hb H; cbn [dec_vec_go] in H.
  - destruct (Z.leb_spec todo 0); [|discriminate]. simpl in H. injection H as <- <-. exists []. rewrite app_nil_r.
    repeat split; auto. simpl. lia.
  - destruct (Z.leb_spec todo 0).
    + simpl in H. injection H as <- <-. exists []. rewrite app_nil_r. repeat split; auto. simpl. lia.
    + destruct (dec c bs) as [a r1 al| |] eqn:E; try discriminate.
      destruct (dec_vec_go c fuel (todo - 1) (a :: acc) r1) as [l2 r2 al2| |] eqn:E2; try discriminate.
      simpl in H. injection H as <- <-.
      assert (R : res_of (dec c bs) = Some (a, r1)) by (rewrite E; reflexivity).
      destruct (ok_canonical c Hc bs a r1 Hb R) as [Wa ->]. apply Forall_app_inv in Hb. destruct Hb as [_ Hr1].
      assert (R2 : res_of (dec_vec_go c fuel (todo - 1) (a :: acc) r1) = Some (l2, r2)) by (rewrite E2; reflexivity).
      destruct (IH _ _ _ _ _ Hr1 R2) as (l' & -> & L & F & ->).
      exists (a :: l'). simpl. rewrite <- !app_assoc. repeat split; auto. simpl length. lia. Qed.

Lemma vec_go_no_panic : forall fuel todo acc bs, dec_vec_go c fuel todo acc bs <> DPanic.
Proof. induction fuel as [|fuel IH]; intros todo acc bs; cbn [dec_vec_go]; destruct (todo <=? 0); try discriminate.
  pose proof (ok_no_panic c Hc bs). destruct (dec c bs) as [a r1 al| |]; try congruence.
  specialize (IH (todo - 1) (a :: acc) r1). destruct (dec_vec_go c fuel (todo - 1) (a :: acc) r1); congruence. Qed.

Lemma vec_go_alloc : forall fuel todo acc bs, alloc_of (dec_vec_go c fuel todo acc bs) <= 1024.
Proof. induction fuel as [|fuel IH]; intros todo acc bs; cbn [dec_vec_go]; destruct (todo <=? 0); simpl; try lia.
  pose proof (ok_alloc c Hc bs). destruct (dec c bs) as [a r1 al| |]; simpl in *; try lia.
  specialize (IH (todo - 1) (a :: acc) r1). destruct (dec_vec_go c fuel (todo - 1) (a :: acc) r1); simpl in *; lia. Qed.

Hypothesis min_width : forall a, wf c a -> (1 <= length (enc c a))%nat.

Lemma flat_len (l : list A) : Forall (wf c) l -> (length l <= length (flat_map (enc c) l))%nat.
Proof. induction 1 as [|a l Wa _ IH]; simpl; [lia|]. rewrite app_length. pose proof (min_width a Wa). lia. Qed.

(** the repaired Vec decoder: lossless, canonical, never panics, and never asks for more than 1024 elements of
    capacity whatever length the input announces *)
Theorem ok_vec : (forall l : list A, Z.of_nat (length l) < 2 ^ 64 -> True) ->
  (forall l rest, Forall (wf c) l -> Z.of_nat (length l) < 2 ^ 64 ->
     res_of (dec (c_vec c) (enc (c_vec c) l ++ rest)) = Some (l, rest)) /\
  (forall bs l rest, Forall is_byte bs -> res_of (dec (c_vec c) bs) = Some (l, rest) ->
     Forall (wf c) l /\ bs = enc (c_vec c) l ++ rest) /\
  (forall bs, dec (c_vec c) bs <> DPanic) /\
  (forall bs, alloc_of (dec (c_vec c) bs) <= 1024).
Proof. intros _. cbn [enc dec c_vec]. repeat split.
  - intros l rest F Hl. unfold dec_vec. rewrite <- app_assoc, (take_app 8) by apply Z_to_le_length.
    destruct (le8_roundtrip (Z.of_nat (length l)) ltac:(lia)) as [_ ->].
    pose proof (vec_go_roundtrip l (S (length (flat_map (enc c) l ++ rest))) [] rest F) as G.
    rewrite app_length in G. specialize (G ltac:(pose proof (flat_len l F); lia)).
    rewrite app_length.
    destruct (dec_vec_go c _ (Z.of_nat (length l)) [] (flat_map (enc c) l ++ rest)); try discriminate.
    simpl in G. injection G as -> ->. reflexivity.
  - unfold dec_vec in H0. destruct (take 8 bs) as [[lb r]|] eqn:T; [|discriminate].
    apply take_some in T. destruct T as [-> L8]. apply Forall_app_inv in H. destruct H as [Hlb Hr].
    destruct (dec_vec_go c (S (length r)) (le_to_Z lb) [] r) as [l2 r2 al| |] eqn:G; try discriminate.
    simpl in H0. injection H0 as <- <-.
    assert (R : res_of (dec_vec_go c (S (length r)) (le_to_Z lb) [] r) = Some (l2, r2)) by (rewrite G; reflexivity).
    destruct (vec_go_canonical _ _ _ _ _ _ Hr R) as (l' & -> & L & F & ->). exact F.
  - unfold dec_vec in H0. destruct (take 8 bs) as [[lb r]|] eqn:T; [|discriminate].
    apply take_some in T. destruct T as [-> L8]. apply Forall_app_inv in H. destruct H as [Hlb Hr].
    destruct (dec_vec_go c (S (length r)) (le_to_Z lb) [] r) as [l2 r2 al| |] eqn:G; try discriminate.
    simpl in H0. injection H0 as <- <-.
    assert (R : res_of (dec_vec_go c (S (length r)) (le_to_Z lb) [] r) = Some (l2, r2)) by (rewrite G; reflexivity).
    destruct (vec_go_canonical _ _ _ _ _ _ Hr R) as (l' & -> & L & F & ->). cbn [rev app]. rewrite <- app_assoc. f_equal.
    pose proof (le_to_Z_range lb Hlb) as Rg. rewrite L8 in Rg. unfold le8.
    replace (Z.of_nat (length l')) with (le_to_Z lb) by lia. rewrite <- L8. symmetry. now apply le_roundtrip_bytes.
  - intros bs. unfold dec_vec. destruct (take 8 bs) as [[lb r]|]; [|discriminate].
    pose proof (vec_go_no_panic (S (length r)) (le_to_Z lb) [] r). destruct (dec_vec_go c _ _ [] r); congruence.
  - intros bs. unfold dec_vec. destruct (take 8 bs) as [[lb r]|]; [|cbn [alloc_of]; lia].
    pose proof (vec_go_alloc (S (length r)) (le_to_Z lb) [] r) as Al.
    pose proof (Z.le_min_r (le_to_Z lb) 1024) as Mn.
    destruct (dec_vec_go c (S (length r)) (le_to_Z lb) [] r); cbn [alloc_of] in *; try lia. Qed.

End Vec.

(** the pinned Vec decoder passes the announced length to [Vec::with_capacity]: 2^40 elements requested for an
    8-byte input; the repaired one asks for at most 1024 *)
Example vec_pinned_alloc_unbounded : dec (c_vec_pinned c_byte) (le8 (2 ^ 40)) = DErr (2 ^ 40).
Proof. vm_compute. reflexivity. Qed.

Example vec_repaired_alloc_capped : dec (c_vec c_byte) (le8 (2 ^ 40)) = DErr 1024.
Proof. vm_compute. reflexivity. Qed.

Theorem restore_is_identity {A} (c : codec A) : codec_ok c -> forall v, wf c v -> res_of (dec c (enc c v)) = Some (v, []).
Proof. intros Hc v Hv. rewrite <- (app_nil_r (enc c v)). now apply (ok_roundtrip c Hc). Qed.

Theorem array_never_panics {A} (c : codec A) : codec_ok c -> forall (n : nat), Z.of_nat n + 1 < 2 ^ 64 ->
  forall bs, dec (c_array n c) bs <> DPanic /\ alloc_of (dec (c_array n c) bs) <= 1024.
Proof. intros Hc n Hn bs. destruct (ok_array c Hc n Hn) as [_ _ P Al]. auto. Qed.

Theorem vec_never_panics_and_caps_allocation {A} (c : codec A) : codec_ok c ->
  forall bs, dec (c_vec c) bs <> DPanic /\ alloc_of (dec (c_vec c) bs) <= 1024.
Proof. intros Hc bs. split.
  - unfold c_vec; cbn [dec]. unfold dec_vec. destruct (take 8 bs) as [[lb r]|]; [|discriminate].
    pose proof (vec_go_no_panic c Hc (S (length r)) (le_to_Z lb) [] r). destruct (dec_vec_go c _ _ [] r); congruence.
  - unfold c_vec; cbn [dec]. unfold dec_vec. destruct (take 8 bs) as [[lb r]|]; [|cbn [alloc_of]; lia].
    pose proof (vec_go_alloc c Hc (S (length r)) (le_to_Z lb) [] r) as Al.
    pose proof (Z.le_min_r (le_to_Z lb) 1024) as Mn.
    destruct (dec_vec_go c (S (length r)) (le_to_Z lb) [] r); cbn [alloc_of] in *; lia. Qed.

Theorem every_codec_total {A} (c : codec A) : codec_ok c -> forall bs, dec c bs <> DPanic /\ alloc_of (dec c bs) <= 1024.
Proof. intros [_ _ P Al] bs. auto. Qed.
