From ZK Require Import Model.Field Model.Pedersen Model.PS Model.Schnorr Model.Range Model.Abacus
  Proofs.FieldFacts Proofs.PedersenProofs Proofs.PSProofs Proofs.SchnorrProofs.
Local Open Scope fld_scope.

Section P.
Variable K : Fld.
Variable close_tag : K.
Add Field Kf5 : (Fth K).

Notation everify := (establish_verify_with close_tag).
Notation eprove := (establish_prove_with close_tag).

(** the exact relation accepted by [EstablishProof::verify] for challenge [c] *)
Definition establish_rel (pk : pkey K) (cid cb mb : K) (p : eproof K) (c : K) : Prop :=
  let s := e_sp p in let cs := e_csp p in
  commit (pk_g1 pk) (pk_y1s pk) (cp_rs s) (cp_rbf s) = cp_T s + cp_C s * c /\
  commit (pk_g1 pk) (pk_y1s pk) (cp_rs cs) (cp_rbf cs) = cp_T cs + cp_C cs * c /\
  rs_at s 0 = c * cid + e_kcid p /\ rs_at cs 0 = c * cid + e_kcid p /\
  rs_at cs 1 = c * close_tag + e_kclose p /\
  rs_at s 2 = rs_at cs 2 /\
  rs_at s 3 = c * cb + e_kcb p /\ rs_at cs 3 = c * cb + e_kcb p /\
  rs_at s 4 = c * mb + e_kmb p /\ rs_at cs 4 = c * mb + e_kmb p.

Theorem establish_verify_spec (pk : pkey K) cid cb mb (p : eproof K) c v :
  everify pk cid cb mb p c = Some v <->
  establish_rel pk cid cb mb p c /\ v = (cp_C (e_sp p), cp_C (e_csp p)).
Proof. unfold establish_verify_with, establish_rel.
  destruct (req_verify pk (e_sp p) c) as [vs|] eqn:E1.
  2:{ split; [discriminate|]. intros [(H & _) _]. apply (cp_verify_iff K) in H.
      unfold req_verify in E1. rewrite H in E1. discriminate. }
  destruct (req_verify pk (e_csp p) c) as [vcs|] eqn:E2.
  2:{ split; [discriminate|]. intros [(_ & H & _) _]. apply (cp_verify_iff K) in H.
      unfold req_verify in E2. rewrite H in E2. discriminate. }
  apply (req_verify_iff K) in E1, E2. destruct E1 as [R1 ->], E2 as [R2 ->].
  match goal with |- (if ?b then _ else _) = _ <-> _ => destruct b eqn:B end.
  - rewrite !andb_true_iff, !(feqb_ok K) in B.
    destruct B as [[[[[B1 B2] B3] B4] [B5 B6]] [B7 B8]].
    split; [intros [= <-]|intros [_ ->]]; auto. repeat split; auto.
  - split; [discriminate|]. intros [(_ & _ & H1 & H2 & H3 & H4 & H5 & H6 & H7 & H8) _]. exfalso.
    rewrite <- not_true_iff_false in B. apply B.
    rewrite !andb_true_iff, !(feqb_ok K). repeat split; assumption. Qed.

(** completeness for every message, randomness and challenge *)
Theorem establish_complete (pk : pkey K) cid nonce lock cb mb bfs kbfs ks bfc kbfc kclose c :
  length ks = 5%nat ->
  everify pk cid cb mb (eprove pk cid nonce lock cb mb bfs kbfs ks bfc kbfc kclose c) c
  = Some (blind pk (state_msg cid nonce lock cb mb) bfs, blind pk (close_msg close_tag cid lock cb mb) bfc).
Proof. intros Hl. destruct ks as [|k0 [|k1 [|k2 [|k3 [|k4 [|? ?]]]]]]; try discriminate.
  apply establish_verify_spec. split; [|reflexivity].
  unfold establish_rel, establish_prove_with, req_prove; cbn [e_sp e_csp e_kcid e_kclose e_kcb e_kmb nth].
  split; [apply (cp_verify_iff K), (cp_complete K); reflexivity|].
  split; [apply (cp_verify_iff K), (cp_complete K); reflexivity|].
  unfold rs_at, cp_prove, cp_respond, state_msg, close_msg; cbn. repeat split; reflexivity. Qed.

(** the transcript hashed by the prover (before responses exist) is the verifier's transcript *)
Lemma establish_transcript_first (pk : pkey K) cid nonce lock cb mb bfs kbfs ks bfc kbfc kclose c ctx :
  establish_transcript close_tag pk cid cb mb (eprove pk cid nonce lock cb mb bfs kbfs ks bfc kbfc kclose c) ctx
  = establish_transcript close_tag pk cid cb mb
      (establish_first close_tag pk cid nonce lock cb mb bfs kbfs ks bfc kbfc kclose) ctx.
Proof. reflexivity. Qed.

Theorem establish_fiat_shamir_complete (chal : list (atom K) -> K) (pk : pkey K)
        cid nonce lock cb mb bfs kbfs ks bfc kbfc kclose ctx :
  length ks = 5%nat ->
  establish_verify close_tag chal pk cid cb mb
    (establish_prove close_tag chal pk cid nonce lock cb mb bfs kbfs ks bfc kbfc kclose ctx) ctx
  = Some (blind pk (state_msg cid nonce lock cb mb) bfs, blind pk (close_msg close_tag cid lock cb mb) bfc).
Proof. intros Hl. unfold establish_verify, establish_prove. rewrite establish_transcript_first.
  now apply establish_complete. Qed.

(** ** special soundness *)
Definition same_first_message (p p' : eproof K) : Prop :=
  e_kcid p = e_kcid p' /\ e_kclose p = e_kclose p' /\ e_kcb p = e_kcb p' /\ e_kmb p = e_kmb p' /\
  cp_C (e_sp p) = cp_C (e_sp p') /\ cp_T (e_sp p) = cp_T (e_sp p') /\
  cp_C (e_csp p) = cp_C (e_csp p') /\ cp_T (e_csp p) = cp_T (e_csp p').

Definition xs (d : K) (p p' : cproof K) : list K := map2 (ext K d) (cp_rs p) (cp_rs p').
Definition xbf (d : K) (p p' : cproof K) : K := ext K d (cp_rbf p) (cp_rbf p').

Theorem establish_special_soundness (pk : pkey K) cid cb mb (p p' : eproof K) c c' :
  c - c' <> f0 -> length (pk_y1s pk) = 5%nat ->
  length (cp_rs (e_sp p)) = 5%nat -> length (cp_rs (e_sp p')) = 5%nat ->
  length (cp_rs (e_csp p)) = 5%nat -> length (cp_rs (e_csp p')) = 5%nat ->
  same_first_message p p' ->
  establish_rel pk cid cb mb p c -> establish_rel pk cid cb mb p' c' ->
  let d := c - c' in
  let ms := xs d (e_sp p) (e_sp p') in let mc := xs d (e_csp p) (e_csp p') in
  cp_C (e_sp p) = blind pk ms (xbf d (e_sp p) (e_sp p')) /\
  cp_C (e_csp p) = blind pk mc (xbf d (e_csp p) (e_csp p')) /\
  nth 0 ms f0 = cid /\ nth 0 mc f0 = cid /\
  nth 1 mc f0 = close_tag /\
  nth 2 ms f0 = nth 2 mc f0 /\
  nth 3 ms f0 = cb /\ nth 3 mc f0 = cb /\
  nth 4 ms f0 = mb /\ nth 4 mc f0 = mb.
Proof. intros Hc Hy L1 L1' L2 L2' (Ek1 & Ek2 & Ek3 & Ek4 & EC1 & ET1 & EC2 & ET2) R R'.
  destruct R as (S1 & S2 & A0 & B0 & B1 & A2 & A3 & B3 & A4 & B4).
  destruct R' as (S1' & S2' & A0' & B0' & B1' & A2' & A3' & B3' & A4' & B4').
  cbv zeta. unfold xs, xbf, blind.
  split; [|split].
  - destruct (e_sp p) as [C T rbf rs] eqn:Ep, (e_sp p') as [C' T' rbf' rs'] eqn:Ep'. simpl in *. subst C' T'.
    apply (cp_special_soundness K (pk_g1 pk) (pk_y1s pk) C T rbf rs rbf' rs' c c'); try congruence;
      apply (cp_verify_iff K); simpl; assumption.
  - destruct (e_csp p) as [C T rbf rs] eqn:Ep, (e_csp p') as [C' T' rbf' rs'] eqn:Ep'. simpl in *. subst C' T'.
    apply (cp_special_soundness K (pk_g1 pk) (pk_y1s pk) C T rbf rs rbf' rs' c c'); try congruence;
      apply (cp_verify_iff K); simpl; assumption.
  - unfold rs_at in *. rewrite <- Ek1, <- Ek2, <- Ek3, <- Ek4 in *.
    repeat split.
    + apply (ext_public K) with (k := e_kcid p); auto; lia.
    + apply (ext_public K) with (k := e_kcid p); auto; lia.
    + apply (ext_public K) with (k := e_kclose p); auto; lia.
    + apply (ext_equal K); auto; lia.
    + apply (ext_public K) with (k := e_kcb p); auto; lia.
    + apply (ext_public K) with (k := e_kcb p); auto; lia.
    + apply (ext_public K) with (k := e_kmb p); auto; lia.
    + apply (ext_public K) with (k := e_kmb p); auto; lia. Qed.

(** with such openings, what the merchant signs unblinds to signatures on exactly those messages *)
Theorem establish_then_sign (sk : skey K) (pk : pkey K) ms bf u :
  key_ok K sk pk -> pk_g1 pk <> f0 -> u <> f0 ->
  verify pk ms (unblind bf (blind_sign sk pk u (blind pk ms bf))) = true.
Proof. apply blind_sign_unblind. Qed.

(** ** one proof, two statements: a second acceptance with the same challenge forces c = 0 *)
Theorem establish_two_statements (pk : pkey K) cid cb mb cid' cb' mb' (p : eproof K) c :
  establish_rel pk cid cb mb p c -> establish_rel pk cid' cb' mb' p c ->
  (cid, cb, mb) <> (cid', cb', mb') -> c = f0.
Proof. intros R R' Hne.
  destruct R as (_ & _ & A0 & _ & _ & _ & A3 & _ & A4 & _).
  destruct R' as (_ & _ & A0' & _ & _ & _ & A3' & _ & A4' & _).
  destruct (feqbP K c f0) as [|Hc]; [assumption|exfalso]. apply Hne.
  assert (E : forall a a' k, c * a + k = c * a' + k -> a = a').
  { intros a a' k H. apply (fmul_cancel_l K c); [assumption|]. now apply (fadd_cancel_l K k); rewrite !(Radd_comm (F_R (Fth K)) k). }
  f_equal; [f_equal|].
  - apply (E _ _ (e_kcid p)). congruence.
  - apply (E _ _ (e_kcb p)). congruence.
  - apply (E _ _ (e_kmb p)). congruence. Qed.

(** for a fixed proof with a non-identity state commitment at most one challenge is accepted *)
Theorem establish_unique_challenge (pk : pkey K) cid cb mb cid' cb' mb' (p : eproof K) c c' :
  cp_C (e_sp p) <> f0 ->
  establish_rel pk cid cb mb p c -> establish_rel pk cid' cb' mb' p c' -> c = c'.
Proof. intros HC (S1 & _) (S1' & _).
  apply (unique_accepting_challenge K (pk_g1 pk) (pk_y1s pk) (e_sp p)); auto; apply (cp_verify_iff K); assumption. Qed.

End P.
