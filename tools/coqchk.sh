#!/bin/sh
# Independent re-check of the compiled property files (and everything they depend on) with coqchk; prints the axioms.
cd "$(dirname "$0")/../coq"
mods=$(ls Properties/*.v | sed 's#Properties/\(.*\)\.v#ZK.Properties.\1#' | tr '\n' ' ')
timeout 3000 coqchk -silent -o -Q . ZK $mods 2>&1 | tail -25
