#!/bin/sh
# usage: try_all_wt.sh <patch file> [check ids...]   (default: all claimed checks)
# Applies the patch to a scratch worktree of /repo's HEAD and runs the checks against it (VERIF_REPO), four at a time;
# one line per check. Used for harmless refactors (every check must stay silent) and for seeded changes.
root=$(cd "$(dirname "$0")/.." && pwd)
patch=$(readlink -f $1); shift
wt=$(mktemp -d /tmp/allwt.XXXXXX)
git -C /repo worktree add -q --detach $wt/repo HEAD || exit 2
git -C $wt/repo apply $patch || { echo "patch does not apply"; git -C /repo worktree remove --force $wt/repo; rm -rf $wt; exit 2; }
cd $root
ids=${*:-$(python3 -c "import json; print(' '.join(c['property_id'] for c in json.load(open('MANIFEST.json'))['checks']))")}
echo $ids | tr ' ' '\n' | xargs -P 4 -I{} sh -c "VERIF_REPO=$wt/repo VERIF_OUT=$wt ./check {} > $wt/{}.log 2>&1; echo \"{} exit=\$? viol=\$(grep -c ^VIOLATION $wt/{}.log) \$(grep -h '^VIOLATION\|CHECK ERROR' $wt/{}.log | head -2 | tr '\n' ' ' | cut -c1-200)\""
mkdir -p $root/.cache/last_try_all; cp $wt/*.log $wt/replays/*.json $root/.cache/last_try_all/ 2>/dev/null
tag=$(python3 -c "import hashlib,sys; print(hashlib.sha1(sys.argv[1].encode()).hexdigest()[:10])" $wt/repo)
rm -rf $root/.cache/alt/harness_$tag $root/.cache/alt/verif-harness-$tag-*
git -C /repo worktree remove --force $wt/repo; rm -rf $wt
