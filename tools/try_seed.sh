#!/bin/sh
# usage: try_seed.sh <patch file> <check id>...   : apply the patch to /repo, run the checks (quick tier), undo.
# Runs the checks of the /verif copy this script lives in (so a scratch copy of /verif can be used while /verif is edited).
root=$(cd "$(dirname "$0")/.." && pwd)
patch=$1; shift
cd /repo && git status --short | grep -q . && { echo "/repo not clean"; exit 2; }
git -C /repo apply $patch || { echo "patch does not apply"; exit 2; }
cd $root
mkdir -p .cache/try
for id in "$@"; do
  ./check $id > .cache/try/$id.log 2>&1; rc=$?
  echo "$id exit=$rc violations=$(grep -c '^VIOLATION' .cache/try/$id.log) $(grep '^VIOLATION' .cache/try/$id.log | head -1)"
  grep "^C.. tier\|CHECK ERROR" .cache/try/$id.log | cut -c1-1200
done
git -C /repo checkout -- .
git -C /repo status --short
