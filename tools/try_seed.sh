#!/bin/sh
# usage: try_seed.sh <patch file> <check id>...   : apply the patch to /repo, run the checks, undo.
patch=$1; shift
cd /repo && git status --short | grep -q . && { echo "/repo not clean"; exit 2; }
git -C /repo apply $patch || { echo "patch does not apply"; exit 2; }
cd /verif
for id in "$@"; do
  ./check $id > /tmp/try_$id.log 2>&1; rc=$?
  echo "$id exit=$rc violations=$(grep -c '^VIOLATION' /tmp/try_$id.log) $(grep '^VIOLATION' /tmp/try_$id.log | head -1)"
  grep "^C.. tier" /tmp/try_$id.log | cut -c1-1200
done
git -C /repo checkout -- .
git -C /repo status --short
