#!/bin/sh
# Re-run every claimed check on the current tree (regenerates all evidence files); 4 at a time.
cd "$(dirname "$0")/.."
TIER=${1:-quick}
ids=$(python3 -c "import json; print(' '.join(c['property_id'] for c in json.load(open('MANIFEST.json'))['checks']))")
echo $ids | tr ' ' '\n' | xargs -P 4 -I{} sh -c './check {} --tier '"$TIER"' > .cache/run_{}.log 2>&1; echo "{} exit=$?"'
grep -l "VIOLATION\|CHECK ERROR" .cache/run_C*.log 2>/dev/null
