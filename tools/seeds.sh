#!/bin/sh
# robustness: every claimed check under several seeds (false-alarm hunt). Usage: tools/seeds.sh "1 2 3" [tier]
cd "$(dirname "$0")/.."
./setup.sh >/dev/null 2>&1
for s in $1; do
  for id in $(python3 -c "import json; print(' '.join(c['property_id'] for c in json.load(open('MANIFEST.json'))['checks']))"); do
    VERIF_SEED=$s ./check $id --tier ${2:-quick} > /tmp/seed_$id_$s.log 2>&1
    echo "seed=$s $id exit=$? $(grep -c VIOLATION /tmp/seed_$id_$s.log) $(tail -1 /tmp/seed_$id_$s.log | cut -c1-80)"
  done
done
