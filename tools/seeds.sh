#!/bin/sh
# False-alarm hunt: every claimed check on the unchanged tree under other generator seeds. Usage: tools/seeds.sh "2 3 4" [tier]
# Evidence and replays of these runs go to a scratch directory (VERIF_OUT), not to /verif/evidence.
root=$(cd "$(dirname "$0")/.." && pwd)
cd $root
ids=$(python3 -c "import json; print(' '.join(c['property_id'] for c in json.load(open('MANIFEST.json'))['checks']))")
for s in $1; do
  out=$(mktemp -d /tmp/sweep_$s.XXXX)
  echo $ids | tr ' ' '\n' | xargs -P 4 -I{} sh -c "VERIF_SEED=$s VERIF_OUT=$out ./check {} --tier ${2:-quick} > $out/{}.log 2>&1; echo \"seed=$s {} exit=\$? \$(grep -h '^VIOLATION\|CHECK ERROR' $out/{}.log | head -2 | tr '\n' ' ' | cut -c1-200)\""
done
