#!/bin/sh
# Run every seeded change (seeded/C*, both rounds) against the check of the property it breaks (quick tier). The patch is
# applied to a scratch worktree of /repo (tools/try_seed_wt.sh), /repo itself is not touched. A seed is "caught" when that
# check exits 1 with a VIOLATION line. Usage: tools/seed_regression.sh [seed dirs...]   (default: all of seeded/C*)
root=$(cd "$(dirname "$0")/.." && pwd)
cd $root
ids=${*:-$(ls seeded | grep '^C')}
for id in $ids; do
  prop=$(echo $id | cut -c1-3)
  out=$($root/tools/try_seed_wt.sh $root/seeded/$id/patch.diff $prop 2>&1 | head -1)
  case "$out" in *"exit=1 violations="[1-9]*) echo "caught  $id  $out" | cut -c1-160;; *) echo "MISSED  $id  $out" | cut -c1-200;; esac
done
