#!/bin/sh
# usage: try_seed_wt.sh <patch file> <check id>...
# Like try_seed.sh, but leaves /repo alone: the patch is applied to a scratch worktree of /repo's HEAD (under /tmp, removed
# afterwards) and the checks are run against it (VERIF_REPO), writing evidence / replays under that scratch directory.
# Several of these can run side by side. The registered checks always use /repo itself.
root=$(cd "$(dirname "$0")/.." && pwd)
patch=$(readlink -f $1); shift
wt=$(mktemp -d /tmp/seedwt.XXXXXX)
git -C /repo worktree add -q --detach $wt/repo HEAD || exit 2
git -C $wt/repo apply $patch || { echo "patch does not apply"; git -C /repo worktree remove --force $wt/repo; rm -rf $wt; exit 2; }
cd $root
for id in "$@"; do
  VERIF_REPO=$wt/repo VERIF_OUT=$wt ./check $id > $wt/$id.log 2>&1; rc=$?
  echo "$id exit=$rc violations=$(grep -c '^VIOLATION' $wt/$id.log) $(grep '^VIOLATION' $wt/$id.log | head -1 | sed "s#$wt#<scratch>#")"
  grep "^C.. tier\|CHECK ERROR" $wt/$id.log | cut -c1-1200
done
tag=$(python3 -c "import hashlib,sys; print(hashlib.sha1(sys.argv[1].encode()).hexdigest()[:10])" $wt/repo)
rm -rf $root/.cache/alt/harness_$tag $root/.cache/alt/verif-harness-$tag-*
git -C /repo worktree remove --force $wt/repo; rm -rf $wt
