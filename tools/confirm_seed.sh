#!/bin/sh
# usage: confirm_seed.sh <id> <crate dir> <demo source> <demo test name> [features]
# Confirms in the scratch worktree /tmp/wt_<id>: with patch: suite green + demo fails; without patch: demo passes.
id=$1; crate=$2; demo=$3; name=$4; feat=$5
wt=/tmp/wt_$id
cd $wt || exit 2
git checkout -q -- . && git clean -fdq -e target -e Cargo.lock
git apply /tmp/seed_$id/patch.diff || { echo "PATCH DOES NOT APPLY"; exit 2; }
export CARGO_NET_OFFLINE=true
echo "== existing suite WITH patch"; cargo test --workspace --no-fail-fast --offline 2>&1 | grep "^test result" | awk '{p+=$4; f+=$6} END {print "passed="p" failed="f}'
mkdir -p $crate/tests; cp $demo $crate/tests/$name.rs
echo "== demo WITH patch"; cargo test -p $(basename $crate) --test $name --offline $feat 2>&1 | grep "^test result"
git apply -R /tmp/seed_$id/patch.diff
echo "== demo WITHOUT patch"; cargo test -p $(basename $crate) --test $name --offline $feat 2>&1 | grep "^test result"
rm -f $crate/tests/$name.rs
git checkout -q -- .
