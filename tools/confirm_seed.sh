#!/bin/sh
# usage: confirm_seed.sh <work dir> <crate dir> <demo source> <demo test name> [cargo feature args]
# <work dir> holds a scratch worktree repo/ of /repo and out/patch.diff (e.g. /tmp/seedwork/C01).
# Confirms: with patch: existing suite green + demo fails; without patch: demo passes.
wd=$1; crate=$2; demo=$3; name=$4; feat=$5
cd $wd/repo || exit 2
git checkout -q -- . && git clean -fdq -e target -e Cargo.lock
git apply $wd/out/patch.diff || { echo "PATCH DOES NOT APPLY"; exit 2; }
export CARGO_NET_OFFLINE=true
echo "== existing suite WITH patch"; cargo test --workspace --no-fail-fast --offline 2>&1 | grep "^test result" | awk '{p+=$4; f+=$6} END {print "passed="p" failed="f}'
mkdir -p $crate/tests; cp $demo $crate/tests/$name.rs
echo "== demo WITH patch"; cargo test -p $(basename $crate) --test $name --offline $feat > /tmp/confirm_$$.log 2>&1; grep "panicked" /tmp/confirm_$$.log | head -3; grep "^test result" /tmp/confirm_$$.log; rm -f /tmp/confirm_$$.log
git apply -R $wd/out/patch.diff
echo "== demo WITHOUT patch"; cargo test -p $(basename $crate) --test $name --offline $feat 2>&1 | grep "^test result"
rm -f $crate/tests/$name.rs
git checkout -q -- .; git clean -fdq -e target -e Cargo.lock
