#!/bin/sh
# Build the framework from files on disk only (offline): the Coq development (full .vo) and the adaptor.
set -e
cd "$(dirname "$0")"
export CARGO_NET_OFFLINE=true
mkdir -p .cache evidence replays
( cd coq && coq_makefile -f _CoqProject -o Makefile >/dev/null && timeout 3000 make -j16 >/dev/null )
[ -f harness/Cargo.lock ] || cp /repo/Cargo.lock harness/Cargo.lock
( cd harness && CARGO_TARGET_DIR=../.cache/target cargo build --offline --profile fastdebug >/dev/null 2>&1 )
( cd harness && CARGO_TARGET_DIR=../.cache/target cargo build --offline --profile release >/dev/null 2>&1 )
echo setup-ok
