//! Ops over the `zkabacus-crypto` API (customer / merchant state machines, amounts, ids, codecs).
use crate::rng::with_rng;
use crate::util::*;
use crate::Res;
use bls12_381::{G1Affine, G1Projective, G2Affine, G2Projective, Scalar};
use serde::{Deserialize, Serialize};
use std::cell::RefCell;
use std::str::FromStr;
use zkabacus_crypto::{
    customer::{self, ClosingMessage, Inactive, Locked, Ready, Requested, Started},
    merchant::{self, Unrevoked},
    revlock::{
        RevocationLock, RevocationLockBlindingFactor, RevocationLockCommitment, RevocationPair,
        RevocationSecret,
    },
    ChannelId, CloseState, CloseStateSignature, ClosingSignature, Context, CustomerBalance,
    CustomerRandomness, Error, EstablishProof, MerchantBalance, MerchantRandomness, Nonce,
    PayProof, PayToken, PaymentAmount, VerifiedBlindedState, Verification,
};
use zkchannels_crypto::{
    pedersen::{Commitment, PedersenParameters},
    pointcheval_sanders::{BlindedMessage, BlindedSignature, KeyPair, PublicKey, Signature},
    proofs::{
        CommitmentProof, RangeConstraint, RangeConstraintParameters, SignatureProof,
        SignatureRequestProof,
    },
    BlindingFactor, SerializeElement,
};

thread_local! {
    static MCFG: RefCell<Vec<&'static merchant::Config>> = RefCell::new(Vec::new());
    static VBS: RefCell<Vec<Option<VerifiedBlindedState>>> = RefCell::new(Vec::new());
    static UNREV: RefCell<Vec<Option<Unrevoked<'static>>>> = RefCell::new(Vec::new());
}

fn handle(tok: &str) -> Result<usize, String> {
    tok.strip_prefix('#').ok_or("handle syntax")?.parse::<usize>().map_err(|e| e.to_string())
}
fn mcfg(tok: &str) -> Result<&'static merchant::Config, String> {
    let id = handle(tok)?;
    MCFG.with(|t| t.borrow().get(id).copied().ok_or_else(|| "no such merchant".to_string()))
}
fn put_mcfg(c: merchant::Config) -> String {
    let r: &'static merchant::Config = Box::leak(Box::new(c));
    MCFG.with(|t| {
        t.borrow_mut().push(r);
        format!("#{}", t.borrow().len() - 1)
    })
}
fn ctx_of(b: &[u8]) -> Context {
    Context::new(b)
}
fn cid_of(b: &[u8]) -> Result<ChannelId, String> {
    if b.len() != 32 {
        return Err("cid length".into());
    }
    de::<ChannelId>(b)
}
fn u64_of(s: &str) -> Result<u64, String> {
    s.parse::<u64>().map_err(|e| e.to_string())
}
fn amount_of(s: &str) -> Result<PaymentAmount, String> {
    let i = s.parse::<i64>().map_err(|e| e.to_string())?;
    de::<PaymentAmount>(&i.to_le_bytes())
}
fn err_toks(e: Error) -> Vec<String> {
    match e {
        Error::AmountTooLarge(v) => vec!["AmountTooLarge".into(), v.to_string()],
        Error::InsufficientFunds => vec!["InsufficientFunds".into()],
    }
}
fn verified(v: Verification) -> bool {
    matches!(v, Verification::Verified)
}

fn op_m_new(_a: &[&str]) -> Res {
    let c = with_rng(|r| merchant::Config::new(r));
    let (pk, rev, rp) = c.extract_customer_config_parts();
    let kp = ser(c.signing_keypair());
    let _ = pk;
    Ok(vec![put_mcfg(c), kp, ser(&rev), ser(&rp)])
}
fn op_m_from_parts(a: &[&str]) -> Res {
    let kp = arg_de::<KeyPair<5>>(a, 0)?;
    let rev = arg_de::<PedersenParameters<G1Projective, 1>>(a, 1)?;
    let rp = arg_de::<RangeConstraintParameters>(a, 2)?;
    Ok(vec![put_mcfg(merchant::Config::from_parts(kp, rev, rp))])
}
fn op_req_new(a: &[&str]) -> Res {
    let cfg = arg_de::<customer::Config>(a, 0)?;
    let cid = cid_of(&arg_bytes(a, 1)?)?;
    let mb = MerchantBalance::try_new(u64_of(arg(a, 2)?)?).map_err(|_| "mb")?;
    let cb = CustomerBalance::try_new(u64_of(arg(a, 3)?)?).map_err(|_| "cb")?;
    let ctx = ctx_of(&arg_bytes(a, 4)?);
    let (req, proof) = with_rng(|r| Requested::new(r, &cfg, cid, mb, cb, &ctx));
    Ok(vec![ser(&req), ser(&proof)])
}
fn op_m_init(a: &[&str]) -> Res {
    let m = mcfg(arg(a, 0)?)?;
    let cid = cid_of(&arg_bytes(a, 1)?)?;
    let cb = CustomerBalance::try_new(u64_of(arg(a, 2)?)?).map_err(|_| "cb")?;
    let mb = MerchantBalance::try_new(u64_of(arg(a, 3)?)?).map_err(|_| "mb")?;
    let proof = match de::<EstablishProof>(&arg_bytes(a, 4)?) {
        Ok(p) => p,
        Err(_) => return Ok(vec!["undecodable".into()]),
    };
    let ctx = ctx_of(&arg_bytes(a, 5)?);
    match with_rng(|r| m.initialize(r, &cid, cb, mb, proof, &ctx)) {
        None => Ok(vec!["0".into()]),
        Some((sig, vbs)) => {
            let id = VBS.with(|t| {
                t.borrow_mut().push(Some(vbs));
                t.borrow().len() - 1
            });
            Ok(vec!["1".into(), stash(sig), format!("#{}", id)])
        }
    }
}
fn op_m_activate(a: &[&str]) -> Res {
    let m = mcfg(arg(a, 0)?)?;
    let id = handle(arg(a, 1)?)?;
    let vbs = VBS.with(|t| t.borrow_mut().get_mut(id).and_then(|x| x.take())).ok_or("no such vbs")?;
    Ok(vec![stash(with_rng(|r| m.activate(r, vbs)))])
}
/// A reply that cannot even be decoded is a refusal that happens before the state machine is
/// touched; it is reported as `undecodable` and the state is by construction unchanged.
macro_rules! reply {
    ($ty:ty, $a:expr, $i:expr) => {{
        let bytes = arg_bytes($a, $i)?;
        match unstash::<$ty>(&bytes) {
            Some(x) => x,
            None => match de::<$ty>(&bytes) {
                Ok(x) => x,
                Err(_) => return Ok(vec!["undecodable".into()]),
            },
        }
    }};
}
fn op_req_complete(a: &[&str]) -> Res {
    let st = arg_de::<Requested>(a, 0)?;
    let sig = reply!(ClosingSignature, a, 1);
    let cfg = arg_de::<customer::Config>(a, 2)?;
    match st.complete(sig, &cfg) {
        Ok(n) => Ok(vec!["ok".into(), ser(&n)]),
        Err(s) => Ok(vec!["refused".into(), ser(&s)]),
    }
}
fn op_inactive_activate(a: &[&str]) -> Res {
    let st = arg_de::<Inactive>(a, 0)?;
    let tok = reply!(PayToken, a, 1);
    let cfg = arg_de::<customer::Config>(a, 2)?;
    match st.activate(tok, &cfg) {
        Ok(n) => Ok(vec!["ok".into(), ser(&n)]),
        Err(s) => Ok(vec!["refused".into(), ser(&s)]),
    }
}
fn op_ready_start(a: &[&str]) -> Res {
    let st = arg_de::<Ready>(a, 0)?;
    let amt = amount_of(arg(a, 1)?)?;
    let ctx = ctx_of(&arg_bytes(a, 2)?);
    let cfg = arg_de::<customer::Config>(a, 3)?;
    match with_rng(|r| st.start(r, amt, &ctx, &cfg)) {
        Ok((started, msg)) => Ok(vec!["ok".into(), ser(&started), ser(&msg.nonce), ser(&msg.pay_proof)]),
        Err((ready, e)) => {
            let mut v = vec!["refused".into(), ser(&ready)];
            v.extend(err_toks(e));
            Ok(v)
        }
    }
}
fn op_m_allow(a: &[&str]) -> Res {
    let m = mcfg(arg(a, 0)?)?;
    let amt = amount_of(arg(a, 1)?)?;
    let nonce = match de::<Nonce>(&arg_bytes(a, 2)?) {
        Ok(n) => n,
        Err(_) => return Ok(vec!["undecodable".into()]),
    };
    let proof = match de::<PayProof>(&arg_bytes(a, 3)?) {
        Ok(p) => p,
        Err(_) => return Ok(vec!["undecodable".into()]),
    };
    let ctx = ctx_of(&arg_bytes(a, 4)?);
    match with_rng(|r| m.allow_payment(r, amt, &nonce, proof, &ctx)) {
        None => Ok(vec!["0".into()]),
        Some((u, sig)) => {
            let id = UNREV.with(|t| {
                t.borrow_mut().push(Some(u));
                t.borrow().len() - 1
            });
            Ok(vec!["1".into(), format!("#{}", id), stash(sig)])
        }
    }
}
fn op_started_lock(a: &[&str]) -> Res {
    let st = arg_de::<Started>(a, 0)?;
    let sig = reply!(ClosingSignature, a, 1);
    let cfg = arg_de::<customer::Config>(a, 2)?;
    match st.lock(sig, &cfg) {
        Ok((locked, msg)) => Ok(vec![
            "ok".into(),
            ser(&locked),
            ser(&msg.revocation_pair),
            ser(&msg.revocation_lock_blinding_factor),
        ]),
        Err(s) => Ok(vec!["refused".into(), ser(&s)]),
    }
}
fn op_u_complete(a: &[&str]) -> Res {
    let id = handle(arg(a, 0)?)?;
    let pair = match de::<RevocationPair>(&arg_bytes(a, 1)?) {
        Ok(p) => p,
        Err(_) => return Ok(vec!["undecodable".into()]),
    };
    let bf = match de::<RevocationLockBlindingFactor>(&arg_bytes(a, 2)?) {
        Ok(p) => p,
        Err(_) => return Ok(vec!["undecodable".into()]),
    };
    let u = UNREV.with(|t| t.borrow_mut().get_mut(id).and_then(|x| x.take())).ok_or("no such unrevoked")?;
    match with_rng(|r| u.complete_payment(r, &pair, &bf)) {
        Ok(tok) => Ok(vec!["ok".into(), stash(tok)]),
        Err(u) => {
            UNREV.with(|t| t.borrow_mut()[id] = Some(u));
            Ok(vec!["refused".into()])
        }
    }
}
fn op_locked_unlock(a: &[&str]) -> Res {
    let st = arg_de::<Locked>(a, 0)?;
    let tok = reply!(PayToken, a, 1);
    let cfg = arg_de::<customer::Config>(a, 2)?;
    match st.unlock(tok, &cfg) {
        Ok(n) => Ok(vec!["ok".into(), ser(&n)]),
        Err(s) => Ok(vec!["refused".into(), ser(&s)]),
    }
}
fn closing_of(stage: &str, bytes: &[u8]) -> Result<ClosingMessage, String> {
    Ok(match stage {
        "inactive" => with_rng(|r| de::<Inactive>(bytes).map(|s| s.close(r)))?,
        "ready" => with_rng(|r| de::<Ready>(bytes).map(|s| s.close(r)))?,
        "started" => with_rng(|r| de::<Started>(bytes).map(|s| s.close(r)))?,
        "locked" => with_rng(|r| de::<Locked>(bytes).map(|s| s.close(r)))?,
        _ => return Err("stage".into()),
    })
}
fn closing_toks(cm: &ClosingMessage) -> Vec<String> {
    vec![
        ser(cm),
        cm.customer_balance().into_inner().to_string(),
        cm.merchant_balance().into_inner().to_string(),
        hex(&cm.channel_id().to_bytes()),
        hex(&cm.revocation_lock().as_bytes()),
    ]
}
/// `close stage state [merchant#]`: closing message (+ the merchant's close check, done in-process so
/// that an all-identity signature, which cannot be decoded, is still checked).
fn op_close(a: &[&str]) -> Res {
    let cm = closing_of(arg(a, 0)?, &arg_bytes(a, 1)?)?;
    let mut v = closing_toks(&cm);
    if a.len() > 2 {
        let m = mcfg(arg(a, 2)?)?;
        let (sig, st) = cm.into_parts();
        v.push(b(verified(m.check_close_signature(sig, &st))));
    }
    Ok(v)
}
fn op_m_check_close(a: &[&str]) -> Res {
    let m = mcfg(arg(a, 0)?)?;
    let cm = match de::<ClosingMessage>(&arg_bytes(a, 1)?) {
        Ok(x) => x,
        Err(_) => return Ok(vec!["undecodable".into()]),
    };
    let (sig, st) = cm.into_parts();
    Ok(vec![b(verified(m.check_close_signature(sig, &st)))])
}
/// `m_check_close_parts m sig closestate`
fn op_m_check_close_parts(a: &[&str]) -> Res {
    let m = mcfg(arg(a, 0)?)?;
    let sig = match de::<CloseStateSignature>(&arg_bytes(a, 1)?) {
        Ok(x) => x,
        Err(_) => return Ok(vec!["undecodable".into()]),
    };
    let st = match de::<CloseState>(&arg_bytes(a, 2)?) {
        Ok(x) => x,
        Err(_) => return Ok(vec!["undecodable".into()]),
    };
    Ok(vec![b(verified(m.check_close_signature(sig, &st)))])
}
fn op_balances(a: &[&str]) -> Res {
    let bytes = arg_bytes(a, 1)?;
    macro_rules! acc {
        ($ty:ty) => {{
            let s = de::<$ty>(&bytes)?;
            Ok(vec![
                s.customer_balance().into_inner().to_string(),
                s.merchant_balance().into_inner().to_string(),
                hex(&s.channel_id().to_bytes()),
            ])
        }};
    }
    match arg(a, 0)? {
        "requested" => acc!(Requested),
        "inactive" => acc!(Inactive),
        "ready" => acc!(Ready),
        "started" => acc!(Started),
        "locked" => acc!(Locked),
        _ => Err("stage".into()),
    }
}

// ---------- amounts and balances
fn op_bal_try_new(a: &[&str]) -> Res {
    let v = u64_of(arg(a, 1)?)?;
    let r = match arg(a, 0)? {
        "c" => CustomerBalance::try_new(v).map(|x| x.into_inner()),
        "m" => MerchantBalance::try_new(v).map(|x| x.into_inner()),
        _ => return Err("side".into()),
    };
    match r {
        Ok(x) => Ok(vec!["ok".into(), x.to_string()]),
        Err(e) => {
            let mut t = vec!["error".into()];
            t.extend(err_toks(e));
            Ok(t)
        }
    }
}
fn op_amt(a: &[&str]) -> Res {
    let v = u64_of(arg(a, 1)?)?;
    let r = match arg(a, 0)? {
        "pay_merchant" => PaymentAmount::pay_merchant(v),
        "pay_customer" => PaymentAmount::pay_customer(v),
        _ => return Err("kind".into()),
    };
    match r {
        Ok(x) => Ok(vec!["ok".into(), x.to_i64().to_string()]),
        Err(e) => {
            let mut t = vec!["error".into()];
            t.extend(err_toks(e));
            Ok(t)
        }
    }
}
/// `bal_try_add mb cb`: both decoded from their wire form (8 bytes LE), as they would arrive.
fn op_bal_try_add(a: &[&str]) -> Res {
    let mb = match de::<MerchantBalance>(&u64_of(arg(a, 0)?)?.to_le_bytes()) {
        Ok(x) => x,
        Err(_) => return Ok(vec!["undecodable".into()]),
    };
    let cb = match de::<CustomerBalance>(&u64_of(arg(a, 1)?)?.to_le_bytes()) {
        Ok(x) => x,
        Err(_) => return Ok(vec!["undecodable".into()]),
    };
    match mb.try_add(cb) {
        Ok(x) => Ok(vec!["ok".into(), x.into_inner().to_string()]),
        Err(e) => {
            let mut t = vec!["error".into()];
            t.extend(err_toks(e));
            Ok(t)
        }
    }
}

// ---------- nonces, revocation pairs, ids, contexts
fn op_nonce_new(_a: &[&str]) -> Res {
    Ok(vec![ser(&with_rng(|r| zkabacus_crypto::internal::test_new_nonce(r)))])
}
fn op_revpair_new(_a: &[&str]) -> Res {
    Ok(vec![ser(&with_rng(|r| zkabacus_crypto::internal::test_new_revocation_pair(r)))])
}
fn op_cid_new(a: &[&str]) -> Res {
    let mr = de::<MerchantRandomness>(&arg_bytes(a, 0)?)?;
    let cr = de::<CustomerRandomness>(&arg_bytes(a, 1)?)?;
    let pk = arg_de::<PublicKey<5>>(a, 2)?;
    let cid = ChannelId::new(mr, cr, &pk, &arg_bytes(a, 3)?, &arg_bytes(a, 4)?);
    Ok(vec![hex(&cid.to_bytes()), hex(&pk.to_bytes())])
}
fn op_cid_print(a: &[&str]) -> Res {
    let cid = cid_of(&arg_bytes(a, 0)?)?;
    Ok(vec![hex(cid.to_string().as_bytes())])
}
fn op_cid_parse(a: &[&str]) -> Res {
    let s = String::from_utf8(arg_bytes(a, 0)?).map_err(|_| "utf8")?;
    match ChannelId::from_str(&s) {
        Ok(c) => Ok(vec!["ok".into(), hex(&c.to_bytes())]),
        Err(e) => {
            // the error type is not exported; its Display text distinguishes the two variants
            let m = e.to_string();
            match m.strip_prefix("expected 32-byte channel id (received ") {
                Some(rest) => Ok(vec!["error".into(), "length".into(), rest.split(' ').next().unwrap_or("").to_string()]),
                None => Ok(vec!["error".into(), "decode".into()]),
            }
        }
    }
}
fn op_ctx_new(a: &[&str]) -> Res {
    Ok(vec![hex(&Context::new(&arg_bytes(a, 0)?).as_bytes())])
}
fn op_rand_new(a: &[&str]) -> Res {
    Ok(vec![match arg(a, 0)? {
        "c" => ser(&with_rng(|r| CustomerRandomness::new(r))),
        _ => ser(&with_rng(|r| MerchantRandomness::new(r))),
    }])
}

// ---------- generic decode / re-encode
#[derive(Serialize, Deserialize)]
struct WArr<G: SerializeElement, const N: usize>(#[serde(with = "SerializeElement")] [G; N]);
#[derive(Serialize, Deserialize)]
struct WBox<G: SerializeElement, const N: usize>(#[serde(with = "SerializeElement")] Box<[G; N]>);
#[derive(Serialize, Deserialize)]
struct WVec<G: SerializeElement>(#[serde(with = "SerializeElement")] Vec<G>);
#[derive(Serialize, Deserialize)]
struct WOne<G: SerializeElement>(#[serde(with = "SerializeElement")] G);

fn redecode<T: Serialize + serde::de::DeserializeOwned>(b: &[u8]) -> Res {
    match bincode::deserialize::<T>(b) {
        Ok(v) => Ok(vec!["ok".into(), ser(&v)]),
        Err(_) => Ok(vec!["fail".into()]),
    }
}
pub fn decode_by_name(name: &str, b: &[u8]) -> Res {
    macro_rules! per_n {
        ($n:expr, $($ty:tt)*) => {
            crate::for_n!($n, N => redecode::<$($ty)*>(b))
        };
    }
    let (base, n) = match name.rsplit_once('@') {
        Some((x, n)) => (x, n.parse::<usize>().map_err(|_| "N")?),
        None => (name, 0),
    };
    match base {
        "BlindingFactor" => redecode::<BlindingFactor>(b),
        "CommitmentG1" => redecode::<Commitment<G1Projective>>(b),
        "CommitmentG2" => redecode::<Commitment<G2Projective>>(b),
        "PedersenG1" => per_n!(n, PedersenParameters<G1Projective, N>),
        "PedersenG2" => per_n!(n, PedersenParameters<G2Projective, N>),
        "PublicKey" => per_n!(n, PublicKey<N>),
        "KeyPair" => per_n!(n, KeyPair<N>),
        "Signature" => redecode::<Signature>(b),
        "BlindedMessage" => redecode::<BlindedMessage>(b),
        "BlindedSignature" => redecode::<BlindedSignature>(b),
        "CommitmentProofG1" => per_n!(n, CommitmentProof<G1Projective, N>),
        "CommitmentProofG2" => per_n!(n, CommitmentProof<G2Projective, N>),
        "SignatureProof" => per_n!(n, SignatureProof<N>),
        "SignatureRequestProof" => per_n!(n, SignatureRequestProof<N>),
        "RangeConstraintParameters" => redecode::<RangeConstraintParameters>(b),
        "RangeConstraint" => redecode::<RangeConstraint>(b),
        "CustomerConfig" => redecode::<customer::Config>(b),
        "Requested" => redecode::<Requested>(b),
        "Inactive" => redecode::<Inactive>(b),
        "Ready" => redecode::<Ready>(b),
        "Started" => redecode::<Started>(b),
        "Locked" => redecode::<Locked>(b),
        "ClosingMessage" => redecode::<ClosingMessage>(b),
        "Nonce" => redecode::<Nonce>(b),
        "EstablishProof" => redecode::<EstablishProof>(b),
        "PayProof" => redecode::<PayProof>(b),
        "PayToken" => redecode::<PayToken>(b),
        "ClosingSignature" => redecode::<ClosingSignature>(b),
        "ChannelId" => redecode::<ChannelId>(b),
        "CloseState" => redecode::<CloseState>(b),
        "CloseStateSignature" => redecode::<CloseStateSignature>(b),
        "CustomerBalance" => redecode::<CustomerBalance>(b),
        "MerchantBalance" => redecode::<MerchantBalance>(b),
        "CustomerRandomness" => redecode::<CustomerRandomness>(b),
        "MerchantRandomness" => redecode::<MerchantRandomness>(b),
        "PaymentAmount" => redecode::<PaymentAmount>(b),
        "RevocationLock" => redecode::<RevocationLock>(b),
        "RevocationSecret" => redecode::<RevocationSecret>(b),
        "RevocationPair" => redecode::<RevocationPair>(b),
        "RevocationLockCommitment" => redecode::<RevocationLockCommitment>(b),
        "RevocationLockBlindingFactor" => redecode::<RevocationLockBlindingFactor>(b),
        "Error" => redecode::<Error>(b),
        "ArrScalar" => per_n!(n, WArr<Scalar, N>),
        "ArrG1" => per_n!(n, WArr<G1Affine, N>),
        "ArrG2" => per_n!(n, WArr<G2Affine, N>),
        "BoxScalar" => per_n!(n, WBox<Scalar, N>),
        "BoxG1" => per_n!(n, WBox<G1Projective, N>),
        "BoxG2" => per_n!(n, WBox<G2Projective, N>),
        "VecScalar" => redecode::<WVec<Scalar>>(b),
        "VecG1" => redecode::<WVec<G1Affine>>(b),
        "VecG2" => redecode::<WVec<G2Affine>>(b),
        "OneScalar" => redecode::<WOne<Scalar>>(b),
        "OneG1" => redecode::<WOne<G1Affine>>(b),
        "OneG2" => redecode::<WOne<G2Affine>>(b),
        "OneG1P" => redecode::<WOne<G1Projective>>(b),
        "OneG2P" => redecode::<WOne<G2Projective>>(b),
        _ => Err(format!("unknown type {}", name)),
    }
}
fn op_decode(a: &[&str]) -> Res {
    decode_by_name(arg(a, 0)?, &arg_bytes(a, 1)?)
}
/// `decode_track type hex`: decode, reporting the largest single allocation requested meanwhile.
fn op_decode_track(a: &[&str]) -> Res {
    let name = arg(a, 0)?;
    let bytes = arg_bytes(a, 1)?;
    crate::alloc::reset();
    let r = decode_by_name(name, &bytes)?;
    let m = crate::alloc::max();
    Ok(vec![r[0].clone(), m.to_string()])
}


// ---------- a whole session in one process (C20): the customer value is kept in memory across steps, and is
// stored (serialised) and restored (deserialised) before the steps listed in `store_at`; a wrong reply is fed
// before the honest one at the steps listed in `fault_at`. Customer and merchant use separate seeded RNGs so that
// storing / restoring cannot perturb the randomness. Returns every message and result in order.
enum Cust {
    Requested(Requested),
    Inactive(Inactive),
    Ready(Ready),
    Started(Started),
    Locked(Locked),
}
fn restore(c: Cust) -> Result<Cust, String> {
    Ok(match c {
        Cust::Requested(s) => Cust::Requested(de(&bincode::serialize(&s).unwrap())?),
        Cust::Inactive(s) => Cust::Inactive(de(&bincode::serialize(&s).unwrap())?),
        Cust::Ready(s) => Cust::Ready(de(&bincode::serialize(&s).unwrap())?),
        Cust::Started(s) => Cust::Started(de(&bincode::serialize(&s).unwrap())?),
        Cust::Locked(s) => Cust::Locked(de(&bincode::serialize(&s).unwrap())?),
    })
}
fn cust_bytes(c: &Cust) -> String {
    match c {
        Cust::Requested(s) => ser(s),
        Cust::Inactive(s) => ser(s),
        Cust::Ready(s) => ser(s),
        Cust::Started(s) => ser(s),
        Cust::Locked(s) => ser(s),
    }
}
fn csv_usize(s: &str) -> Vec<usize> {
    if s == "-" { return vec![]; }
    s.split(',').filter_map(|x| x.parse().ok()).collect()
}
fn op_session(a: &[&str]) -> Res {
    use rand::SeedableRng;
    let m = mcfg(arg(a, 0)?)?;
    let cfg = arg_de::<customer::Config>(a, 1)?;
    let cid = cid_of(&arg_bytes(a, 2)?)?;
    let cb = CustomerBalance::try_new(u64_of(arg(a, 3)?)?).map_err(|_| "cb")?;
    let mb = MerchantBalance::try_new(u64_of(arg(a, 4)?)?).map_err(|_| "mb")?;
    let ctx = ctx_of(&arg_bytes(a, 5)?);
    let amounts: Vec<&str> = if arg(a, 6)? == "-" { vec![] } else { arg(a, 6)?.split(',').collect() };
    let store_at = csv_usize(arg(a, 7)?);
    let fault_at = csv_usize(arg(a, 8)?);
    let mut crng = rand::rngs::StdRng::seed_from_u64(u64_of(arg(a, 9)?)?);
    let mut mrng = rand::rngs::StdRng::seed_from_u64(u64_of(arg(a, 10)?)?);
    // a well-formed but wrong reply
    let g = G1Affine::generator().to_compressed();
    let mut wrong = Vec::new();
    wrong.extend_from_slice(&g);
    wrong.extend_from_slice(&g);
    let mut out: Vec<String> = Vec::new();
    let mut step = 0usize;
    macro_rules! maybe_restore {
        ($c:expr) => {{
            let mut c = $c;
            if store_at.contains(&step) {
                c = restore(c)?;
                out.push(format!("restored@{}", step));
            }
            c
        }};
    }
    let (req, proof) = Requested::new(&mut crng, &cfg, cid, mb, cb, &ctx);
    out.push(format!("establish_proof:{}", ser(&proof)));
    let (closing, vbs) = m.initialize(&mut mrng, &cid, cb, mb, proof, &ctx).ok_or("initialize refused")?;
    out.push(format!("closing:{}", ser(&closing)));
    let mut c = maybe_restore!(Cust::Requested(req));
    // step 0: complete
    let mut req = match c { Cust::Requested(r) => r, _ => return Err("stage".into()) };
    if fault_at.contains(&step) {
        req = match req.complete(de::<ClosingSignature>(&wrong)?, &cfg) {
            Ok(_) => return Err("wrong reply accepted".into()),
            Err(r) => { out.push("refused".into()); r }
        };
        if store_at.contains(&step) { req = de(&bincode::serialize(&req).unwrap())?; }
    }
    let inactive = req.complete(closing, &cfg).map_err(|_| "complete refused")?;
    step += 1;
    c = maybe_restore!(Cust::Inactive(inactive));
    let mut inactive = match c { Cust::Inactive(r) => r, _ => return Err("stage".into()) };
    let token = m.activate(&mut mrng, vbs);
    out.push(format!("token:{}", ser(&token)));
    if fault_at.contains(&step) {
        inactive = match inactive.activate(de::<PayToken>(&wrong)?, &cfg) {
            Ok(_) => return Err("wrong reply accepted".into()),
            Err(r) => { out.push("refused".into()); r }
        };
    }
    let mut ready = inactive.activate(token, &cfg).map_err(|_| "activate refused")?;
    step += 1;
    for (pi, amt) in amounts.iter().enumerate() {
        let amount = amount_of(amt)?;
        let pctx = Context::new(format!("pay{}", pi).as_bytes());
        c = maybe_restore!(Cust::Ready(ready));
        ready = match c { Cust::Ready(r) => r, _ => return Err("stage".into()) };
        let (started, msg) = match ready.start(&mut crng, amount, &pctx, &cfg) {
            Ok(x) => x,
            Err((r, e)) => {
                out.push(format!("start_refused:{}", err_toks(e).join("/")));
                ready = r;
                step += 3;
                continue;
            }
        };
        out.push(format!("nonce:{}", ser(&msg.nonce)));
        out.push(format!("pay_proof:{}", ser(&msg.pay_proof)));
        let nonce = msg.nonce;
        let (unrev, closing) = m.allow_payment(&mut mrng, amount, &nonce, msg.pay_proof, &pctx).ok_or("allow_payment refused")?;
        out.push(format!("closing:{}", ser(&closing)));
        step += 1;
        c = maybe_restore!(Cust::Started(started));
        let mut started = match c { Cust::Started(r) => r, _ => return Err("stage".into()) };
        if fault_at.contains(&step) {
            started = match started.lock(de::<ClosingSignature>(&wrong)?, &cfg) {
                Ok(_) => return Err("wrong reply accepted".into()),
                Err(r) => { out.push("refused".into()); r }
            };
            if store_at.contains(&step) { started = de(&bincode::serialize(&started).unwrap())?; }
        }
        let (locked, lockmsg) = started.lock(closing, &cfg).map_err(|_| "lock refused")?;
        out.push(format!("lock_message:{}{}", ser(&lockmsg.revocation_pair), ser(&lockmsg.revocation_lock_blinding_factor)));
        let token = unrev
            .complete_payment(&mut mrng, &lockmsg.revocation_pair, &lockmsg.revocation_lock_blinding_factor)
            .map_err(|_| "complete_payment refused")?;
        out.push(format!("token:{}", ser(&token)));
        step += 1;
        c = maybe_restore!(Cust::Locked(locked));
        let mut locked = match c { Cust::Locked(r) => r, _ => return Err("stage".into()) };
        if fault_at.contains(&step) {
            locked = match locked.unlock(de::<PayToken>(&wrong)?, &cfg) {
                Ok(_) => return Err("wrong reply accepted".into()),
                Err(r) => { out.push("refused".into()); r }
            };
        }
        ready = locked.unlock(token, &cfg).map_err(|_| "unlock refused")?;
        step += 1;
    }
    let fin = Cust::Ready(ready);
    out.push(format!("final_state:{}", cust_bytes(&fin)));
    let ready = match fin { Cust::Ready(r) => r, _ => unreachable!() };
    let cm = ready.close(&mut crng);
    out.push(format!("closing_message:{}", ser(&cm)));
    let (sig, st) = cm.into_parts();
    out.push(format!("close_check:{}", b(verified(m.check_close_signature(sig, &st)))));
    Ok(out)
}

pub fn dispatch(op: &str, a: &[&str]) -> Option<Res> {
    Some(match op {
        "m_new" => op_m_new(a),
        "m_from_parts" => op_m_from_parts(a),
        "req_new" => op_req_new(a),
        "m_init" => op_m_init(a),
        "m_activate" => op_m_activate(a),
        "req_complete" => op_req_complete(a),
        "inactive_activate" => op_inactive_activate(a),
        "ready_start" => op_ready_start(a),
        "m_allow" => op_m_allow(a),
        "started_lock" => op_started_lock(a),
        "u_complete" => op_u_complete(a),
        "locked_unlock" => op_locked_unlock(a),
        "close" => op_close(a),
        "m_check_close" => op_m_check_close(a),
        "m_check_close_parts" => op_m_check_close_parts(a),
        "balances" => op_balances(a),
        "bal_try_new" => op_bal_try_new(a),
        "amt" => op_amt(a),
        "bal_try_add" => op_bal_try_add(a),
        "nonce_new" => op_nonce_new(a),
        "revpair_new" => op_revpair_new(a),
        "cid_new" => op_cid_new(a),
        "cid_print" => op_cid_print(a),
        "cid_parse" => op_cid_parse(a),
        "ctx_new" => op_ctx_new(a),
        "rand_new" => op_rand_new(a),
        "session" => op_session(a),
        "decode" => op_decode(a),
        "decode_track" => op_decode_track(a),
        _ => return None,
    })
}
