use bls12_381::{G1Affine, G1Projective, G2Affine, G2Projective, Scalar};

pub fn hex(b: &[u8]) -> String {
    if b.is_empty() {
        return "-".to_string();
    }
    let mut s = String::with_capacity(b.len() * 2);
    for x in b {
        s.push_str(&format!("{:02x}", x));
    }
    s
}
pub fn unhex(s: &str) -> Result<Vec<u8>, String> {
    if s == "-" {
        return Ok(vec![]);
    }
    if s.len() % 2 != 0 {
        return Err("odd hex".into());
    }
    (0..s.len() / 2)
        .map(|i| u8::from_str_radix(&s[2 * i..2 * i + 2], 16).map_err(|e| e.to_string()))
        .collect()
}
pub fn arg<'a>(a: &[&'a str], i: usize) -> Result<&'a str, String> {
    a.get(i).copied().ok_or_else(|| format!("missing argument {}", i))
}
pub fn arg_usize(a: &[&str], i: usize) -> Result<usize, String> {
    arg(a, i)?.parse::<usize>().map_err(|e| e.to_string())
}
pub fn arg_bytes(a: &[&str], i: usize) -> Result<Vec<u8>, String> {
    unhex(arg(a, i)?)
}
pub fn scalar_of(b: &[u8]) -> Result<Scalar, String> {
    if b.len() != 32 {
        return Err(format!("scalar needs 32 bytes, got {}", b.len()));
    }
    let mut x = [0u8; 32];
    x.copy_from_slice(b);
    Option::<Scalar>::from(Scalar::from_bytes(&x)).ok_or_else(|| "non-canonical scalar".to_string())
}
pub fn arg_scalar(a: &[&str], i: usize) -> Result<Scalar, String> {
    scalar_of(&arg_bytes(a, i)?)
}
/// A concatenation of 32-byte scalars.
pub fn scalars_of(b: &[u8]) -> Result<Vec<Scalar>, String> {
    if b.len() % 32 != 0 {
        return Err("scalar list length".into());
    }
    b.chunks(32).map(scalar_of).collect()
}
pub fn g1_of(b: &[u8]) -> Result<G1Projective, String> {
    if b.len() != 48 {
        return Err("g1 needs 48 bytes".into());
    }
    let mut x = [0u8; 48];
    x.copy_from_slice(b);
    Option::<G1Affine>::from(G1Affine::from_compressed(&x))
        .map(Into::into)
        .ok_or_else(|| "bad g1".to_string())
}
pub fn g2_of(b: &[u8]) -> Result<G2Projective, String> {
    if b.len() != 96 {
        return Err("g2 needs 96 bytes".into());
    }
    let mut x = [0u8; 96];
    x.copy_from_slice(b);
    Option::<G2Affine>::from(G2Affine::from_compressed(&x))
        .map(Into::into)
        .ok_or_else(|| "bad g2".to_string())
}
pub fn g1_hex(p: &G1Projective) -> String {
    hex(&G1Affine::from(p).to_compressed())
}
pub fn g2_hex(p: &G2Projective) -> String {
    hex(&G2Affine::from(p).to_compressed())
}
pub fn ser<T: serde::Serialize>(t: &T) -> String {
    hex(&bincode::serialize(t).expect("serialize"))
}
pub fn de<T: serde::de::DeserializeOwned>(b: &[u8]) -> Result<T, String> {
    bincode::deserialize::<T>(b).map_err(|e| format!("decode: {}", e))
}
pub fn arg_de<T: serde::de::DeserializeOwned>(a: &[&str], i: usize) -> Result<T, String> {
    de::<T>(&arg_bytes(a, i)?)
}

// Values generated in this process (KeyPair::new) are kept as the library produced them, keyed by their encoding, so that
// later ops use the very value and not a decoded copy: a generated value which the library's own decoder would reject
// (a defect C19 reports) then still reaches the operations of C07 / C08 instead of stopping the run with a decode error.
thread_local! {
    static GENERATED: std::cell::RefCell<std::collections::HashMap<Vec<u8>, std::rc::Rc<dyn std::any::Any>>> =
        std::cell::RefCell::new(std::collections::HashMap::new());
}
pub fn remember<T: serde::Serialize + 'static>(t: T) -> std::rc::Rc<T> {
    let bytes = bincode::serialize(&t).expect("serialize");
    let rc = std::rc::Rc::new(t);
    GENERATED.with(|g| g.borrow_mut().insert(bytes, rc.clone() as std::rc::Rc<dyn std::any::Any>));
    rc
}
pub fn arg_key<T: serde::de::DeserializeOwned + 'static>(a: &[&str], i: usize) -> Result<std::rc::Rc<T>, String> {
    let bytes = arg_bytes(a, i)?;
    if let Some(rc) = GENERATED.with(|g| g.borrow().get(&bytes).cloned()) {
        if let Ok(t) = rc.downcast::<T>() {
            return Ok(t);
        }
    }
    Ok(std::rc::Rc::new(de::<T>(&bytes)?))
}
// Replies of the merchant ops are kept in memory as well, keyed by their encoding and handed out once: when a customer op is
// given exactly those bytes it receives the very value the merchant call produced (as two parties in one process would pass it),
// not a decoded copy - so a reply that the wire decoder refuses (e.g. identity sigma1 from a zero randomiser) still reaches
// the customer's unblind-and-verify code. Any other bytes are decoded as before.
thread_local! {
    static STASH: std::cell::RefCell<std::collections::HashMap<Vec<u8>, Vec<Box<dyn std::any::Any>>>> =
        std::cell::RefCell::new(std::collections::HashMap::new());
}
pub fn stash<T: serde::Serialize + 'static>(t: T) -> String {
    let bytes = bincode::serialize(&t).expect("serialize");
    let h = hex(&bytes);
    STASH.with(|m| m.borrow_mut().entry(bytes).or_default().push(Box::new(t)));
    h
}
pub fn unstash<T: 'static>(bytes: &[u8]) -> Option<T> {
    STASH.with(|m| {
        let mut m = m.borrow_mut();
        let v = m.get_mut(bytes)?;
        let pos = v.iter().position(|b| b.is::<T>())?;
        let b = v.swap_remove(pos);
        b.downcast::<T>().ok().map(|x| *x)
    })
}
pub fn b(x: bool) -> String {
    (if x { "1" } else { "0" }).to_string()
}
