//! Tracking allocator: records the largest single allocation request since the last reset.
use std::alloc::{GlobalAlloc, Layout, System};
use std::sync::atomic::{AtomicUsize, Ordering};

pub struct Tracking;
static MAX: AtomicUsize = AtomicUsize::new(0);

unsafe impl GlobalAlloc for Tracking {
    unsafe fn alloc(&self, l: Layout) -> *mut u8 {
        MAX.fetch_max(l.size(), Ordering::Relaxed);
        System.alloc(l)
    }
    unsafe fn dealloc(&self, p: *mut u8, l: Layout) {
        System.dealloc(p, l)
    }
    unsafe fn realloc(&self, p: *mut u8, l: Layout, n: usize) -> *mut u8 {
        MAX.fetch_max(n, Ordering::Relaxed);
        System.realloc(p, l, n)
    }
    unsafe fn alloc_zeroed(&self, l: Layout) -> *mut u8 {
        MAX.fetch_max(l.size(), Ordering::Relaxed);
        System.alloc_zeroed(l)
    }
}
pub fn reset() {
    MAX.store(0, Ordering::Relaxed)
}
pub fn max() -> usize {
    MAX.load(Ordering::Relaxed)
}
