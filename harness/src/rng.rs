//! Scripted RNG. Every 64-byte request (that is what `Scalar::random` makes) is served from the
//! tape while it lasts and from a seeded PRNG afterwards; every other request is served by the
//! PRNG. All 64-byte requests are logged as the scalar they reduce to.
use crate::util::*;
use crate::Res;
use bls12_381::Scalar;
use rand::{rngs::StdRng, RngCore, SeedableRng};
use std::cell::RefCell;
use std::collections::VecDeque;

pub struct TapeRng {
    tape: VecDeque<[u8; 64]>,
    prng: StdRng,
    served: Vec<[u8; 32]>,
}

impl TapeRng {
    fn new(seed: u64) -> Self {
        TapeRng { tape: VecDeque::new(), prng: StdRng::seed_from_u64(seed), served: vec![] }
    }
}

impl RngCore for TapeRng {
    fn next_u32(&mut self) -> u32 {
        self.prng.next_u32()
    }
    fn next_u64(&mut self) -> u64 {
        self.prng.next_u64()
    }
    fn fill_bytes(&mut self, dest: &mut [u8]) {
        if !dest.is_empty() && dest.len() % 64 == 0 {
            // one wide scalar per 64 bytes; a request for several at once (a batched draw) is served exactly as the same
            // number of single requests would be
            for chunk in dest.chunks_mut(64) {
                let mut e = [0u8; 64];
                match self.tape.pop_front() {
                    Some(t) => e = t,
                    None => self.prng.fill_bytes(&mut e),
                }
                chunk.copy_from_slice(&e);
                self.served.push(Scalar::from_bytes_wide(&e).to_bytes());
            }
        } else {
            self.prng.fill_bytes(dest)
        }
    }
    fn try_fill_bytes(&mut self, dest: &mut [u8]) -> Result<(), rand::Error> {
        self.fill_bytes(dest);
        Ok(())
    }
}
impl rand::CryptoRng for TapeRng {}

thread_local! {
    static RNG: RefCell<TapeRng> = RefCell::new(TapeRng::new(0));
}

/// Run `f` with the scripted RNG.
pub fn with_rng<T>(f: impl FnOnce(&mut TapeRng) -> T) -> T {
    // Take the RNG out so that a panic inside `f` cannot poison a RefCell borrow.
    let mut r = RNG.with(|c| std::mem::replace(&mut *c.borrow_mut(), TapeRng::new(0)));
    let res = std::panic::catch_unwind(std::panic::AssertUnwindSafe(|| f(&mut r)));
    RNG.with(|c| *c.borrow_mut() = r);
    match res {
        Ok(t) => t,
        Err(p) => std::panic::resume_unwind(p),
    }
}

/// `rng <seed> [<concatenated 32-byte scalars>]`: reset the RNG; the scalars are served, in
/// order, to the next 64-byte requests.
pub fn op_rng(a: &[&str]) -> Res {
    let seed = arg(a, 0)?.parse::<u64>().map_err(|e| e.to_string())?;
    let mut r = TapeRng::new(seed);
    if a.len() > 1 {
        let bytes = arg_bytes(a, 1)?;
        if bytes.len() % 32 != 0 {
            return Err("tape length".into());
        }
        for ch in bytes.chunks(32) {
            let mut e = [0u8; 64];
            e[..32].copy_from_slice(ch);
            r.tape.push_back(e);
        }
    }
    RNG.with(|c| *c.borrow_mut() = r);
    Ok(vec![])
}

/// `rng64 <seed> <concatenated 64-byte blocks>`: as `rng`, with the full 64-byte blocks given (so that a block can be a
/// non-zero multiple of q - reducing to the zero scalar - or have its low half zero).
pub fn op_rng64(a: &[&str]) -> Res {
    let seed = arg(a, 0)?.parse::<u64>().map_err(|e| e.to_string())?;
    let mut r = TapeRng::new(seed);
    let bytes = arg_bytes(a, 1)?;
    if bytes.len() % 64 != 0 {
        return Err("tape length".into());
    }
    for ch in bytes.chunks(64) {
        let mut e = [0u8; 64];
        e.copy_from_slice(ch);
        r.tape.push_back(e);
    }
    RNG.with(|c| *c.borrow_mut() = r);
    Ok(vec![])
}
/// `served`: the scalars served since the last `rng`, concatenated; and the number of tape entries left.
pub fn op_served(_a: &[&str]) -> Res {
    RNG.with(|c| {
        let r = c.borrow();
        let mut all = Vec::new();
        for s in &r.served {
            all.extend_from_slice(s);
        }
        Ok(vec![hex(&all), r.tape.len().to_string()])
    })
}
