//! Ops over the `zkchannels-crypto` library API.
use crate::rng::with_rng;
use crate::util::*;
use crate::Res;
use bls12_381::{pairing, G1Affine, G1Projective, G2Affine, G2Projective, Scalar};
use group::{Group, GroupEncoding};
use std::cell::RefCell;
use zkchannels_crypto::{
    pedersen::{Commitment, PedersenParameters, ToPedersenParameters},
    pointcheval_sanders::{
        BlindedMessage, BlindedSignature, KeyPair, PublicKey, Signature, VerifiedBlindedMessage,
    },
    proofs::{
        verif_hooks, Challenge, ChallengeBuilder, ChallengeInput, CommitmentProof,
        CommitmentProofBuilder, RangeConstraint, RangeConstraintBuilder,
        RangeConstraintParameters, SignatureProof, SignatureProofBuilder, SignatureRequestProof,
        SignatureRequestProofBuilder,
    },
    BlindingFactor, Message, SerializeElement,
};

#[macro_export]
macro_rules! for_n {
    ($n:expr, $N:ident => $e:expr) => {
        match $n {
            1 => { const $N: usize = 1; $e }
            2 => { const $N: usize = 2; $e }
            3 => { const $N: usize = 3; $e }
            5 => { const $N: usize = 5; $e }
            8 => { const $N: usize = 8; $e }
            13 => { const $N: usize = 13; $e }
            17 => { const $N: usize = 17; $e }
            34 => { const $N: usize = 34; $e }
            _ => Err(format!("unsupported N {}", $n)),
        }
    };
}

pub trait Grp: Group<Scalar = Scalar> + GroupEncoding + SerializeElement {
    const LEN: usize;
    fn parse(b: &[u8]) -> Result<Self, String>;
    fn hexs(&self) -> String;
}
impl Grp for G1Projective {
    const LEN: usize = 48;
    fn parse(b: &[u8]) -> Result<Self, String> {
        g1_of(b)
    }
    fn hexs(&self) -> String {
        g1_hex(self)
    }
}
impl Grp for G2Projective {
    const LEN: usize = 96;
    fn parse(b: &[u8]) -> Result<Self, String> {
        g2_of(b)
    }
    fn hexs(&self) -> String {
        g2_hex(self)
    }
}

pub fn arr<T: Copy, const N: usize>(v: &[T]) -> Result<[T; N], String> {
    if v.len() != N {
        return Err(format!("expected {} elements, got {}", N, v.len()));
    }
    Ok(std::array::from_fn(|i| v[i]))
}
pub fn msg_of<const N: usize>(b: &[u8]) -> Result<Message<N>, String> {
    Ok(Message::new(arr::<Scalar, N>(&scalars_of(b)?)?))
}
pub fn bf_of(b: &[u8]) -> Result<BlindingFactor, String> {
    let _ = scalar_of(b)?;
    de::<BlindingFactor>(b)
}
/// Pedersen parameters from their bincode layout, *without* the decoder's validation
/// (identity generators allowed), through the public `from_generators`.
pub fn params_of<G: Grp, const N: usize>(b: &[u8]) -> Result<PedersenParameters<G, N>, String> {
    let l = G::LEN;
    if b.len() != l + 8 + N * l {
        return Err(format!("params length {}", b.len()));
    }
    let h = G::parse(&b[..l])?;
    let mut gs = Vec::new();
    for i in 0..N {
        gs.push(G::parse(&b[l + 8 + i * l..l + 8 + (i + 1) * l])?);
    }
    Ok(PedersenParameters::from_generators(h, arr::<G, N>(&gs)?))
}
fn opts_of<const N: usize>(mask: &str, given: &[u8]) -> Result<[Option<Scalar>; N], String> {
    let given = scalars_of(given)?;
    let mut it = given.into_iter();
    let mut v = Vec::new();
    if mask.len() != N {
        return Err("mask length".into());
    }
    for ch in mask.chars() {
        v.push(if ch == '1' { Some(it.next().ok_or("too few given scalars")?) } else { None });
    }
    arr::<Option<Scalar>, N>(&v)
}
fn scalars_hex(v: &[Scalar]) -> String {
    let mut all = Vec::new();
    for s in v {
        all.extend_from_slice(&s.to_bytes());
    }
    hex(&all)
}
fn sc_hex(s: &Scalar) -> String {
    hex(&s.to_bytes())
}

// ---------- signature handle table (signatures whose first element is the identity cannot be decoded)
thread_local! {
    static SIGS: RefCell<Vec<Signature>> = RefCell::new(Vec::new());
    static BSIGS: RefCell<Vec<BlindedSignature>> = RefCell::new(Vec::new());
    static VBMS: RefCell<Vec<Option<VerifiedBlindedMessage>>> = RefCell::new(Vec::new());
}
pub fn put_sig(s: Signature) -> Vec<String> {
    let id = SIGS.with(|t| {
        t.borrow_mut().push(s);
        t.borrow().len() - 1
    });
    vec![hex(&s.as_bytes()), format!("#{}", id)]
}
pub fn get_sig(tok: &str) -> Result<Signature, String> {
    if let Some(id) = tok.strip_prefix('#') {
        let id: usize = id.parse().map_err(|_| "bad handle")?;
        SIGS.with(|t| t.borrow().get(id).copied().ok_or_else(|| "no such sig".to_string()))
    } else {
        de::<Signature>(&unhex(tok)?)
    }
}
pub fn put_bsig(s: BlindedSignature) -> Vec<String> {
    let id = BSIGS.with(|t| {
        t.borrow_mut().push(s);
        t.borrow().len() - 1
    });
    vec![hex(&s.as_bytes()), format!("#{}", id)]
}
pub fn get_bsig(tok: &str) -> Result<BlindedSignature, String> {
    if let Some(id) = tok.strip_prefix('#') {
        let id: usize = id.parse().map_err(|_| "bad handle")?;
        BSIGS.with(|t| t.borrow().get(id).copied().ok_or_else(|| "no such bsig".to_string()))
    } else {
        de::<BlindedSignature>(&unhex(tok)?)
    }
}
pub fn put_vbm(v: VerifiedBlindedMessage) -> String {
    VBMS.with(|t| {
        t.borrow_mut().push(Some(v));
        format!("#{}", t.borrow().len() - 1)
    })
}
pub fn get_vbm(tok: &str) -> Result<VerifiedBlindedMessage, String> {
    let id: usize = tok.strip_prefix('#').ok_or("vbm handle")?.parse().map_err(|_| "bad handle")?;
    VBMS.with(|t| t.borrow().get(id).and_then(|x| x.clone()).ok_or_else(|| "no such vbm".to_string()))
}

// ---------- challenges
#[derive(Clone, Copy)]
pub enum Mode {
    /// challenge = H(object chunks || ctx)
    WithObject,
    /// challenge = H(ctx)
    BytesOnly,
}
pub fn mode_of(s: &str) -> Result<Mode, String> {
    match s {
        "p" => Ok(Mode::WithObject),
        "b" => Ok(Mode::BytesOnly),
        _ => Err("mode".into()),
    }
}
pub fn chal_for<T: ChallengeInput>(t: &T, mode: Mode, ctx: &[u8]) -> Challenge {
    match mode {
        Mode::WithObject => ChallengeBuilder::new().with(t).with_bytes(ctx).finish(),
        Mode::BytesOnly => ChallengeBuilder::new().with_bytes(ctx).finish(),
    }
}

pub fn op_chal_drain(_a: &[&str]) -> Res {
    let mut out = Vec::new();
    for (chunks, digest) in verif_hooks::drain() {
        out.push(hex(&digest));
        let cs: Vec<String> = chunks.iter().map(|c| hex(c)).collect();
        out.push(if cs.is_empty() { "-".to_string() } else { cs.join(",") });
    }
    Ok(out)
}

/// `chal item...` with item = `kind:hex`.
fn op_chal(a: &[&str]) -> Res {
    let mut b = ChallengeBuilder::new();
    for it in a {
        let (kind, h) = it.split_once(':').ok_or("item syntax")?;
        let bytes = unhex(h)?;
        macro_rules! feed_n {
            ($prefix:expr, $ty:ident) => {{
                let n: usize = kind[$prefix.len()..].parse().map_err(|_| "item N")?;
                for_n!(n, N => { b.consume(&de::<$ty<N>>(&bytes)?); Ok(()) })?;
            }};
        }
        macro_rules! feed_gn {
            ($prefix:expr, $ty:ident) => {{
                let rest = &kind[$prefix.len()..];
                let (g, n) = rest.split_once('_').ok_or("item G_N")?;
                let n: usize = n.parse().map_err(|_| "item N")?;
                match g {
                    "1" => for_n!(n, N => { b.consume(&de::<$ty<G1Projective, N>>(&bytes)?); Ok(()) })?,
                    "2" => for_n!(n, N => { b.consume(&de::<$ty<G2Projective, N>>(&bytes)?); Ok(()) })?,
                    _ => return Err("item G".into()),
                }
            }};
        }
        match kind {
            "s" => b.consume(&scalar_of(&bytes)?),
            "g1" => b.consume(&G1Affine::from(g1_of(&bytes)?)),
            "g2" => b.consume(&G2Affine::from(g2_of(&bytes)?)),
            "g1p" => b.consume(&g1_of(&bytes)?),
            "g2p" => b.consume(&g2_of(&bytes)?),
            "b" => b.consume_bytes(&bytes),
            "sig" => b.consume(&de::<Signature>(&bytes)?),
            "bsig" => b.consume(&de::<BlindedSignature>(&bytes)?),
            "bm" => b.consume(&de::<BlindedMessage>(&bytes)?),
            "com1" => b.consume(&de::<Commitment<G1Projective>>(&bytes)?),
            "com2" => b.consume(&de::<Commitment<G2Projective>>(&bytes)?),
            "rp" => b.consume(&de::<RangeConstraintParameters>(&bytes)?),
            "rc" => b.consume(&de::<RangeConstraint>(&bytes)?),
            k if k.starts_with("pk") => feed_n!("pk", PublicKey),
            k if k.starts_with("srp") => feed_n!("srp", SignatureRequestProof),
            k if k.starts_with("sp") => feed_n!("sp", SignatureProof),
            k if k.starts_with("ped") => feed_gn!("ped", PedersenParameters),
            k if k.starts_with("cp") => feed_gn!("cp", CommitmentProof),
            _ => return Err(format!("unknown item kind {}", kind)),
        }
    }
    Ok(vec![sc_hex(&b.finish().to_scalar())])
}

// ---------- group utilities
fn op_g1(a: &[&str]) -> Res {
    Ok(vec![g1_hex(&(G1Projective::generator() * arg_scalar(a, 0)?))])
}
fn op_g2(a: &[&str]) -> Res {
    Ok(vec![g2_hex(&(G2Projective::generator() * arg_scalar(a, 0)?))])
}
/// batch: `g1s <concatenated scalars>` -> concatenated points
fn op_g1s(a: &[&str]) -> Res {
    let mut out = Vec::new();
    for s in scalars_of(&arg_bytes(a, 0)?)? {
        out.extend_from_slice(&G1Affine::from(G1Projective::generator() * s).to_compressed());
    }
    Ok(vec![hex(&out)])
}
fn op_g2s(a: &[&str]) -> Res {
    let mut out = Vec::new();
    for s in scalars_of(&arg_bytes(a, 0)?)? {
        out.extend_from_slice(&G2Affine::from(G2Projective::generator() * s).to_compressed());
    }
    Ok(vec![hex(&out)])
}
fn op_lin<G: Grp>(a: &[&str]) -> Res {
    let mut acc = G::identity();
    let mut i = 0;
    while i + 1 < a.len() {
        acc += G::parse(&arg_bytes(a, i)?)? * arg_scalar(a, i + 1)?;
        i += 2;
    }
    Ok(vec![acc.hexs()])
}
fn op_pair_eq(a: &[&str]) -> Res {
    let l = pairing(&g1_of(&arg_bytes(a, 0)?)?.into(), &g2_of(&arg_bytes(a, 1)?)?.into());
    let r = pairing(&g1_of(&arg_bytes(a, 2)?)?.into(), &g2_of(&arg_bytes(a, 3)?)?.into());
    Ok(vec![b(l == r)])
}
/// classify an encoding: `ok` (valid, non-identity), `id`, `bad`
fn op_classify(a: &[&str]) -> Res {
    let bytes = arg_bytes(a, 0)?;
    let r = match bytes.len() {
        48 => g1_of(&bytes).map(|p| bool::from(p.is_identity())),
        96 => g2_of(&bytes).map(|p| bool::from(p.is_identity())),
        32 => scalar_of(&bytes).map(|s| s == Scalar::zero()),
        _ => return Err("classify length".into()),
    };
    Ok(vec![match r {
        Ok(true) => "id".into(),
        Ok(false) => "ok".into(),
        Err(_) => "bad".into(),
    }])
}
/// `g1_curve_mul seed exponent_hex`: [exponent] R for a pseudo-random point R of the CURVE (not necessarily of the prime-order
/// subgroup), the exponent being an arbitrary big-endian integer: with exponent q * h / r this is a point of small order r
/// (or the identity: the caller retries with another seed). Returns the compressed encoding.
fn op_g1_curve_mul(a: &[&str]) -> Res {
    let seed = arg_usize(a, 0)? as u64;
    let e = arg_bytes(a, 1)?;
    use rand::{RngCore, SeedableRng};
    let mut r = rand::rngs::StdRng::seed_from_u64(seed);
    let base = loop {
        let mut x = [0u8; 48];
        r.fill_bytes(&mut x);
        x[0] = (x[0] & 0x1f) | 0x80;
        if let Some(p) = Option::<G1Affine>::from(G1Affine::from_compressed_unchecked(&x)) {
            if bool::from(p.is_on_curve()) {
                break G1Projective::from(p);
            }
        }
    };
    let mut acc = G1Projective::identity();
    for byte in e {
        for i in (0..8).rev() {
            acc = acc.double();
            if (byte >> i) & 1 == 1 {
                acc += base;
            }
        }
    }
    Ok(vec![hex(&G1Affine::from(acc).to_compressed())])
}
/// `g1_add_unchecked a b`: the compressed encoding of a + b for two curve points given without subgroup check.
fn op_g1_add_unchecked(a: &[&str]) -> Res {
    let mut pts = Vec::new();
    for i in 0..2 {
        let bts = arg_bytes(a, i)?;
        if bts.len() != 48 {
            return Err("g1 needs 48 bytes".into());
        }
        let mut x = [0u8; 48];
        x.copy_from_slice(&bts);
        let p = Option::<G1Affine>::from(G1Affine::from_compressed_unchecked(&x)).ok_or("not on the curve")?;
        pts.push(G1Projective::from(p));
    }
    Ok(vec![hex(&G1Affine::from(pts[0] + pts[1]).to_compressed())])
}
/// A compressed encoding of a point that is on the curve but outside the prime-order subgroup.
fn op_offsub(a: &[&str]) -> Res {
    let g = arg_usize(a, 0)?;
    let seed = arg_usize(a, 1)? as u64;
    use rand::{RngCore, SeedableRng};
    let mut r = rand::rngs::StdRng::seed_from_u64(seed);
    loop {
        if g == 1 {
            let mut x = [0u8; 48];
            r.fill_bytes(&mut x);
            x[0] = (x[0] & 0x1f) | 0x80;
            if let Some(p) = Option::<G1Affine>::from(G1Affine::from_compressed_unchecked(&x)) {
                if bool::from(p.is_on_curve()) && !bool::from(p.is_torsion_free()) {
                    return Ok(vec![hex(&p.to_compressed())]);
                }
            }
        } else {
            let mut x = [0u8; 96];
            r.fill_bytes(&mut x);
            x[0] = (x[0] & 0x1f) | 0x80;
            if let Some(p) = Option::<G2Affine>::from(G2Affine::from_compressed_unchecked(&x)) {
                if bool::from(p.is_on_curve()) && !bool::from(p.is_torsion_free()) {
                    return Ok(vec![hex(&p.to_compressed())]);
                }
            }
        }
    }
}

// ---------- Pedersen
fn ped_new<G: Grp, const N: usize>(_a: &[&str]) -> Res {
    Ok(vec![ser(&with_rng(|r| PedersenParameters::<G, N>::new(r)))])
}
fn ped_from<G: Grp, const N: usize>(a: &[&str]) -> Res {
    // h, gs (concatenated) -> bincode layout of the parameters (through from_generators + commit of e_i)
    let h = G::parse(&arg_bytes(a, 2)?)?;
    let gb = arg_bytes(a, 3)?;
    let gs: Result<Vec<G>, String> = gb.chunks(G::LEN).map(G::parse).collect();
    let p = PedersenParameters::<G, N>::from_generators(h, arr::<G, N>(&gs?)?);
    Ok(vec![ser(&p)])
}
fn ped_commit<G: Grp, const N: usize>(a: &[&str]) -> Res {
    let p = params_of::<G, N>(&arg_bytes(a, 2)?)?;
    let m = msg_of::<N>(&arg_bytes(a, 3)?)?;
    let bf = bf_of(&arg_bytes(a, 4)?)?;
    let c = m.commit(&p, bf);
    Ok(vec![ser(&c), c.to_element().hexs()])
}
fn ped_open<G: Grp, const N: usize>(a: &[&str]) -> Res {
    let p = params_of::<G, N>(&arg_bytes(a, 2)?)?;
    let c = Commitment::<G>::deserialize_lenient(&arg_bytes(a, 3)?)?;
    let bf = bf_of(&arg_bytes(a, 4)?)?;
    let m = msg_of::<N>(&arg_bytes(a, 5)?)?;
    Ok(vec![b(c.verify_opening(&p, bf, &m))])
}
trait Lenient: Sized {
    fn deserialize_lenient(b: &[u8]) -> Result<Self, String>;
}
impl<G: Grp> Lenient for Commitment<G> {
    fn deserialize_lenient(b: &[u8]) -> Result<Self, String> {
        de::<Commitment<G>>(b)
    }
}
fn pk_ped<const N: usize>(a: &[&str]) -> Res {
    let pk = arg_key::<PublicKey<N>>(a, 2)?;
    match arg_usize(a, 0)? {
        1 => Ok(vec![ser(&ToPedersenParameters::<G1Projective, N>::to_pedersen_parameters(&*pk))]),
        2 => Ok(vec![ser(&ToPedersenParameters::<G2Projective, N>::to_pedersen_parameters(&*pk))]),
        _ => Err("G".into()),
    }
}

// ---------- Pointcheval-Sanders
fn kp_new<const N: usize>(_a: &[&str]) -> Res {
    let kp = remember(with_rng(|r| KeyPair::<N>::new(r)));
    remember(kp.public_key().clone());
    Ok(vec![ser(&*kp)])
}
fn sign<const N: usize>(a: &[&str]) -> Res {
    let kp = arg_key::<KeyPair<N>>(a, 1)?;
    let m = msg_of::<N>(&arg_bytes(a, 2)?)?;
    Ok(put_sig(with_rng(|r| m.sign(r, &kp))))
}
fn sig_verify<const N: usize>(a: &[&str]) -> Res {
    let pk = arg_key::<PublicKey<N>>(a, 1)?;
    let m = msg_of::<N>(&arg_bytes(a, 2)?)?;
    let s = get_sig(arg(a, 3)?)?;
    Ok(vec![b(s.verify(&pk, &m)), b(s.is_well_formed())])
}
fn op_sig_randomize(a: &[&str]) -> Res {
    let mut s = get_sig(arg(a, 0)?)?;
    with_rng(|r| s.randomize(r));
    Ok(put_sig(s))
}
fn op_sig_bar(a: &[&str]) -> Res {
    let s = get_sig(arg(a, 0)?)?;
    let bf = bf_of(&arg_bytes(a, 1)?)?;
    Ok(put_bsig(with_rng(|r| s.blind_and_randomize(r, bf))))
}
fn op_bsig_unblind(a: &[&str]) -> Res {
    let s = get_bsig(arg(a, 0)?)?;
    let bf = bf_of(&arg_bytes(a, 1)?)?;
    Ok(put_sig(s.unblind(bf)))
}
fn op_bsig_randomize(a: &[&str]) -> Res {
    let mut s = get_bsig(arg(a, 0)?)?;
    with_rng(|r| s.randomize(r));
    Ok(put_bsig(s))
}
fn msg_blind<const N: usize>(a: &[&str]) -> Res {
    let pk = arg_key::<PublicKey<N>>(a, 1)?;
    let m = msg_of::<N>(&arg_bytes(a, 2)?)?;
    let bf = bf_of(&arg_bytes(a, 3)?)?;
    Ok(vec![ser(&m.blind(&pk, bf))])
}
/// A `VerifiedBlindedMessage` for an arbitrary commitment `C`, obtained the only way the API
/// allows: from a signature-request proof that verifies. The proof is simulated: random
/// responses, `T := commit(responses) - c*C`.
fn vbm_sim<const N: usize>(a: &[&str]) -> Res {
    let pk = arg_key::<PublicKey<N>>(a, 1)?;
    let c_pt = g1_of(&arg_bytes(a, 2)?)?;
    let params: PedersenParameters<G1Projective, N> = pk.to_pedersen_parameters();
    let chal = ChallengeBuilder::new().with_bytes(b"vbm_sim").finish();
    use rand::SeedableRng;
    let mut r = rand::rngs::StdRng::seed_from_u64(7);
    use ff::Field;
    let rbf = Scalar::random(&mut r);
    let rs: Vec<Scalar> = (0..N).map(|_| Scalar::random(&mut r)).collect();
    let resp_com = Message::new(arr::<Scalar, N>(&rs)?).commit(&params, bf_of(&rbf.to_bytes())?);
    let t = resp_com.to_element() - c_pt * chal.to_scalar();
    let mut bytes = Vec::new();
    bytes.extend_from_slice(&G1Affine::from(c_pt).to_compressed());
    bytes.extend_from_slice(&G1Affine::from(t).to_compressed());
    bytes.extend_from_slice(&rbf.to_bytes());
    bytes.extend_from_slice(&(N as u64).to_le_bytes());
    for s in &rs {
        bytes.extend_from_slice(&s.to_bytes());
    }
    let proof = de::<SignatureRequestProof<N>>(&bytes)?;
    match proof.verify_knowledge_of_opening(&pk, chal) {
        Some(v) => Ok(vec![put_vbm(v)]),
        None => Err("simulated proof rejected".into()),
    }
}
fn vbm_sign<const N: usize>(a: &[&str]) -> Res {
    let kp = arg_key::<KeyPair<N>>(a, 1)?;
    let v = get_vbm(arg(a, 2)?)?;
    Ok(put_bsig(with_rng(|r| v.blind_sign(&kp, r))))
}

// ---------- Schnorr proofs
fn cp_prove<G: Grp, const N: usize>(a: &[&str]) -> Res {
    let p = params_of::<G, N>(&arg_bytes(a, 2)?)?;
    let m = msg_of::<N>(&arg_bytes(a, 3)?)?;
    let opts = opts_of::<N>(arg(a, 4)?, &arg_bytes(a, 5)?)?;
    let ctx = arg_bytes(a, 6)?;
    let builder = with_rng(|r| CommitmentProofBuilder::<G, N>::generate_proof_commitments(r, m, &opts, &p));
    let chal = chal_for(&builder, Mode::WithObject, &ctx);
    let bf = builder.message_blinding_factor().as_scalar();
    let cs = scalars_hex(&builder.conjunction_commitment_scalars()[..]);
    let com = builder.commitment().to_element().hexs();
    let proof = builder.generate_proof_response(chal);
    let chal2 = chal_for(&proof, Mode::WithObject, &ctx);
    Ok(vec![
        ser(&proof),
        sc_hex(&bf),
        cs,
        sc_hex(&chal.to_scalar()),
        sc_hex(&chal2.to_scalar()),
        com,
        scalars_hex(&proof.conjunction_response_scalars()[..]),
    ])
}
fn cp_verify<G: Grp, const N: usize>(a: &[&str]) -> Res {
    let p = params_of::<G, N>(&arg_bytes(a, 2)?)?;
    let proof = arg_de::<CommitmentProof<G, N>>(a, 3)?;
    let chal = chal_for(&proof, mode_of(arg(a, 4)?)?, &arg_bytes(a, 5)?);
    Ok(vec![b(proof.verify_knowledge_of_opening(&p, chal)), sc_hex(&chal.to_scalar())])
}
fn sp_prove<const N: usize>(a: &[&str]) -> Res {
    let pk = arg_key::<PublicKey<N>>(a, 1)?;
    let m = msg_of::<N>(&arg_bytes(a, 2)?)?;
    let sig = get_sig(arg(a, 3)?)?;
    let opts = opts_of::<N>(arg(a, 4)?, &arg_bytes(a, 5)?)?;
    let ctx = arg_bytes(a, 6)?;
    let builder = with_rng(|r| SignatureProofBuilder::<N>::generate_proof_commitments(r, m, sig, &opts, &pk));
    let chal = chal_for(&builder, Mode::WithObject, &ctx);
    let cs = scalars_hex(&builder.conjunction_commitment_scalars()[..]);
    let proof = builder.generate_proof_response(chal);
    let chal2 = chal_for(&proof, Mode::WithObject, &ctx);
    // the wire form cannot be produced for an identity first element? (it can: serialisation does not validate)
    Ok(vec![
        ser(&proof),
        cs,
        sc_hex(&chal.to_scalar()),
        sc_hex(&chal2.to_scalar()),
        scalars_hex(&proof.conjunction_response_scalars()[..]),
        put_sp(Box::new(proof)),
    ])
}
thread_local! {
    static SPS: RefCell<Vec<Box<dyn std::any::Any>>> = RefCell::new(Vec::new());
}
fn put_sp(p: Box<dyn std::any::Any>) -> String {
    SPS.with(|t| {
        t.borrow_mut().push(p);
        format!("#{}", t.borrow().len() - 1)
    })
}
fn sp_verify<const N: usize>(a: &[&str]) -> Res {
    let pk = arg_key::<PublicKey<N>>(a, 1)?;
    let mode = mode_of(arg(a, 3)?)?;
    let ctx = arg_bytes(a, 4)?;
    let tok = arg(a, 2)?;
    if let Some(id) = tok.strip_prefix('#') {
        let id: usize = id.parse().map_err(|_| "bad handle")?;
        SPS.with(|t| {
            let t = t.borrow();
            let proof = t.get(id).and_then(|x| x.downcast_ref::<SignatureProof<N>>()).ok_or("no such sp")?;
            let chal = chal_for(proof, mode, &ctx);
            Ok(vec![b(proof.verify_knowledge_of_signature(&pk, chal)), sc_hex(&chal.to_scalar())])
        })
    } else {
        let proof = de::<SignatureProof<N>>(&unhex(tok)?)?;
        let chal = chal_for(&proof, mode, &ctx);
        Ok(vec![b(proof.verify_knowledge_of_signature(&pk, chal)), sc_hex(&chal.to_scalar())])
    }
}
fn srp_prove<const N: usize>(a: &[&str]) -> Res {
    let pk = arg_key::<PublicKey<N>>(a, 1)?;
    let m = msg_of::<N>(&arg_bytes(a, 2)?)?;
    let opts = opts_of::<N>(arg(a, 3)?, &arg_bytes(a, 4)?)?;
    let ctx = arg_bytes(a, 5)?;
    let builder = with_rng(|r| SignatureRequestProofBuilder::<N>::generate_proof_commitments(r, m, &opts, &pk));
    let chal = chal_for(&builder, Mode::WithObject, &ctx);
    let bf = builder.message_blinding_factor().as_scalar();
    let cs = scalars_hex(&builder.conjunction_commitment_scalars()[..]);
    let proof = builder.generate_proof_response(chal);
    let chal2 = chal_for(&proof, Mode::WithObject, &ctx);
    Ok(vec![
        ser(&proof),
        sc_hex(&bf),
        cs,
        sc_hex(&chal.to_scalar()),
        sc_hex(&chal2.to_scalar()),
        scalars_hex(&proof.conjunction_response_scalars()[..]),
    ])
}
fn srp_verify<const N: usize>(a: &[&str]) -> Res {
    let pk = arg_key::<PublicKey<N>>(a, 1)?;
    let proof = arg_de::<SignatureRequestProof<N>>(a, 2)?;
    let chal = chal_for(&proof, mode_of(arg(a, 3)?)?, &arg_bytes(a, 4)?);
    match proof.verify_knowledge_of_opening(&pk, chal) {
        Some(v) => Ok(vec![b(true), sc_hex(&chal.to_scalar()), put_vbm(v)]),
        None => Ok(vec![b(false), sc_hex(&chal.to_scalar())]),
    }
}

// ---------- range constraints
fn op_rp_new(_a: &[&str]) -> Res {
    Ok(vec![ser(&with_rng(|r| RangeConstraintParameters::new(r)))])
}
fn op_rp_validate(a: &[&str]) -> Res {
    let p = arg_de::<RangeConstraintParameters>(a, 0)?;
    Ok(vec![b(p.validate().is_ok())])
}
fn i64_of(s: &str) -> Result<i64, String> {
    s.parse::<i64>().map_err(|e| e.to_string())
}
/// `rc_prove value rparams ctx`: a stand-alone range constraint (challenge over the builder and ctx).
fn op_rc_prove(a: &[&str]) -> Res {
    let v = i64_of(arg(a, 0)?)?;
    let p = arg_de::<RangeConstraintParameters>(a, 1)?;
    let ctx = arg_bytes(a, 2)?;
    match with_rng(|r| RangeConstraintBuilder::generate_constraint_commitments(v, &p, r)) {
        Err(e) => Ok(vec!["outside".into(), e.0.to_string()]),
        Ok(builder) => {
            let chal = chal_for(&builder, Mode::WithObject, &ctx);
            let cs = builder.commitment_scalar();
            let rc = builder.generate_constraint_response(chal);
            let chal2 = chal_for(&rc, Mode::WithObject, &ctx);
            Ok(vec!["ok".into(), ser(&rc), sc_hex(&cs), sc_hex(&chal.to_scalar()), sc_hex(&chal2.to_scalar())])
        }
    }
}
fn op_rc_verify(a: &[&str]) -> Res {
    let rc = arg_de::<RangeConstraint>(a, 0)?;
    let p = arg_de::<RangeConstraintParameters>(a, 1)?;
    let chal = chal_for(&rc, mode_of(arg(a, 2)?)?, &arg_bytes(a, 3)?);
    let expected = arg_scalar(a, 4)?;
    Ok(vec![b(rc.verify_range_constraint(&p, chal, expected)), sc_hex(&chal.to_scalar())])
}
/// `rcl_prove N ped msg slot value rparams ctx`: a commitment proof (G1) over `msg` whose slot
/// `slot` is linked to a range constraint on `value`; one challenge over both.
fn rcl_prove<const N: usize>(a: &[&str]) -> Res {
    let ped = params_of::<G1Projective, N>(&arg_bytes(a, 1)?)?;
    let m = msg_of::<N>(&arg_bytes(a, 2)?)?;
    let slot = arg_usize(a, 3)?;
    let v = i64_of(arg(a, 4)?)?;
    let rp = arg_de::<RangeConstraintParameters>(a, 5)?;
    let ctx = arg_bytes(a, 6)?;
    let rb = match with_rng(|r| RangeConstraintBuilder::generate_constraint_commitments(v, &rp, r)) {
        Err(e) => return Ok(vec!["outside".into(), e.0.to_string()]),
        Ok(x) => x,
    };
    let mut opts = [None; N];
    if slot < N {
        opts[slot] = Some(rb.commitment_scalar());
    }
    let cb = with_rng(|r| CommitmentProofBuilder::<G1Projective, N>::generate_proof_commitments(r, m, &opts, &ped));
    let chal = ChallengeBuilder::new().with(&cb).with(&rb).with(&rp).with_bytes(&ctx).finish();
    let bf = cb.message_blinding_factor().as_scalar();
    let cp = cb.generate_proof_response(chal);
    let rc = rb.generate_constraint_response(chal);
    Ok(vec!["ok".into(), ser(&cp), ser(&rc), sc_hex(&chal.to_scalar()), sc_hex(&bf)])
}
fn rcl_verify<const N: usize>(a: &[&str]) -> Res {
    let ped = params_of::<G1Projective, N>(&arg_bytes(a, 1)?)?;
    let cp = arg_de::<CommitmentProof<G1Projective, N>>(a, 2)?;
    let rc = arg_de::<RangeConstraint>(a, 3)?;
    let rp = arg_de::<RangeConstraintParameters>(a, 4)?;
    let slot = arg_usize(a, 5)?;
    let ctx = arg_bytes(a, 6)?;
    let chal = ChallengeBuilder::new().with(&cp).with(&rc).with(&rp).with_bytes(&ctx).finish();
    let ok1 = cp.verify_knowledge_of_opening(&ped, chal);
    let ok2 = rc.verify_range_constraint(&rp, chal, cp.conjunction_response_scalars()[slot]);
    Ok(vec![b(ok1), b(ok2), sc_hex(&chal.to_scalar())])
}

pub fn dispatch(op: &str, a: &[&str]) -> Option<Res> {
    macro_rules! gn {
        ($f:ident) => {{
            let g = match arg_usize(a, 0) { Ok(x) => x, Err(e) => return Some(Err(e)) };
            let n = match arg_usize(a, 1) { Ok(x) => x, Err(e) => return Some(Err(e)) };
            match g {
                1 => for_n!(n, N => $f::<G1Projective, N>(a)),
                2 => for_n!(n, N => $f::<G2Projective, N>(a)),
                _ => Err("G".to_string()),
            }
        }};
    }
    macro_rules! n0 {
        ($f:ident) => {{
            let n = match arg_usize(a, 0) { Ok(x) => x, Err(e) => return Some(Err(e)) };
            for_n!(n, N => $f::<N>(a))
        }};
    }
    macro_rules! n1 {
        ($f:ident) => {{
            let n = match arg_usize(a, 1) { Ok(x) => x, Err(e) => return Some(Err(e)) };
            for_n!(n, N => $f::<N>(a))
        }};
    }
    Some(match op {
        "chal" => op_chal(a),
        "g1" => op_g1(a),
        "g2" => op_g2(a),
        "g1s" => op_g1s(a),
        "g2s" => op_g2s(a),
        "g1lin" => op_lin::<G1Projective>(a),
        "g2lin" => op_lin::<G2Projective>(a),
        "pair_eq" => op_pair_eq(a),
        "classify" => op_classify(a),
        "offsub" => op_offsub(a),
        "g1_curve_mul" => op_g1_curve_mul(a),
        "g1_add_unchecked" => op_g1_add_unchecked(a),
        "ped_new" => gn!(ped_new),
        "ped_from" => gn!(ped_from),
        "ped_commit" => gn!(ped_commit),
        "ped_open" => gn!(ped_open),
        "pk_ped" => n1!(pk_ped),
        "kp_new" => n0!(kp_new),
        "sign" => n0!(sign),
        "sig_verify" => n0!(sig_verify),
        "sig_randomize" => op_sig_randomize(a),
        "sig_bar" => op_sig_bar(a),
        "bsig_unblind" => op_bsig_unblind(a),
        "bsig_randomize" => op_bsig_randomize(a),
        "msg_blind" => n0!(msg_blind),
        "vbm_sim" => n0!(vbm_sim),
        "vbm_sign" => n0!(vbm_sign),
        "cp_prove" => gn!(cp_prove),
        "cp_verify" => gn!(cp_verify),
        "sp_prove" => n0!(sp_prove),
        "sp_verify" => n0!(sp_verify),
        "srp_prove" => n0!(srp_prove),
        "srp_verify" => n0!(srp_verify),
        "rp_new" => op_rp_new(a),
        "rp_validate" => op_rp_validate(a),
        "rc_prove" => op_rc_prove(a),
        "rc_verify" => op_rc_verify(a),
        "rcl_prove" => n0!(rcl_prove),
        "rcl_verify" => n0!(rcl_verify),
        _ => return None,
    })
}
