//! Adaptor between the verification driver and the public API of /repo.
//!
//! Protocol: one request per line on stdin (`op arg arg ...`, arguments are hex strings,
//! decimal integers or `-` for "empty"), one response per line on stdout:
//! `ok tok tok ...`, `err message` (malformed request), or `panic message` (the API panicked).
//! Every API call is wrapped in `catch_unwind`.

mod abacus;
mod alloc;
mod libops;
mod rng;
mod util;

use std::io::{BufRead, Write};
use std::panic::{catch_unwind, AssertUnwindSafe};

pub type Res = Result<Vec<String>, String>;

#[global_allocator]
static GLOBAL: alloc::Tracking = alloc::Tracking;

fn dispatch(op: &str, a: &[&str]) -> Res {
    match op {
        "ping" => Ok(vec!["pong".into()]),
        "rng" => rng::op_rng(a),
        "rng64" => rng::op_rng64(a),
        "served" => rng::op_served(a),
        "chal_drain" => libops::op_chal_drain(a),
        "alloc_reset" => {
            alloc::reset();
            Ok(vec![])
        }
        "alloc_max" => Ok(vec![alloc::max().to_string()]),
        _ => {
            if let Some(r) = libops::dispatch(op, a) {
                return r;
            }
            if let Some(r) = abacus::dispatch(op, a) {
                return r;
            }
            Err(format!("unknown op {}", op))
        }
    }
}

fn main() {
    // Silence the default panic message; the panic payload is reported on stdout instead.
    std::panic::set_hook(Box::new(|_| {}));
    let stdin = std::io::stdin();
    let stdout = std::io::stdout();
    let mut out = stdout.lock();
    for line in stdin.lock().lines() {
        let line = match line {
            Ok(l) => l,
            Err(_) => break,
        };
        let toks: Vec<&str> = line.split_whitespace().collect();
        if toks.is_empty() {
            continue;
        }
        let r = catch_unwind(AssertUnwindSafe(|| dispatch(toks[0], &toks[1..])));
        let resp = match r {
            Ok(Ok(v)) => {
                let mut s = String::from("ok");
                for t in v {
                    s.push(' ');
                    s.push_str(&t);
                }
                s
            }
            Ok(Err(e)) => format!("err {}", e.replace('\n', " ")),
            Err(p) => {
                let msg = if let Some(s) = p.downcast_ref::<&str>() {
                    s.to_string()
                } else if let Some(s) = p.downcast_ref::<String>() {
                    s.clone()
                } else {
                    "?".to_string()
                };
                format!("panic {}", msg.replace('\n', " "))
            }
        };
        let _ = writeln!(out, "{}", resp);
        let _ = out.flush();
    }
}
